#!/usr/bin/env python3
"""mkanchors.py: record the signature of every named function of the library (per source file) in anchors.json.
salib.mir.Crate uses the table to find a function again after it was renamed or moved between a free function
and an impl block of the same file (same parameter and return types): rules keep addressing it by its old name."""
import json, sys
sys.path.insert(0, "/verif")
from salib import facts, mir
out = {}
alt = {}
for cfg in ("default", "explanations", "checks", "checks_explanations"):
    crate = mir.Crate(facts.load(cfg, "slotted_egraphs"), use_anchors=False)
    per_file = {}
    for b in crate.bodies.values():
        if b.kind == "Closure" or not (b.file or "").startswith("src/") or b.auto_derived or not b.name:
            continue
        per_file.setdefault((b.file, b.name), []).append(b)
    for (file, name), bs in per_file.items():
        if len(bs) != 1:
            continue
        b = bs[0]
        sig = [b.local_ty(l) for l in range(1, b.argc + 1)] + ["->", b.local_ty(0)]
        if out.setdefault("%s::%s" % (file, name), sig) != sig and sig not in alt.setdefault("%s::%s" % (file, name), []):
            alt["%s::%s" % (file, name)].append(sig)      # (the proof type is `()` without the explanations feature)
json.dump(out, open("/verif/anchors.json", "w"), indent=0, sort_keys=True)
print(len(out), "anchors")
json.dump(alt, open("/verif/anchors_alt.json", "w"), indent=0, sort_keys=True)
print(len(alt), "functions with a second signature in another configuration")
# callee names per function (tie-break when several functions of one signature are renamed together)
calls = {}
for cfg in ("default", "explanations", "checks", "checks_explanations"):
    crate = mir.Crate(facts.load(cfg, "slotted_egraphs"), use_anchors=False)
    for b in crate.bodies.values():
        if b.kind == "Closure" or not (b.file or "").startswith("src/") or b.auto_derived or not b.name:
            continue
        k = "%s::%s" % (b.file, b.name)
        if k in out and k not in calls:
            calls[k] = sorted({c.callee.name for c in b.calls if c.callee is not None and not b.blocks[c.bb]["cleanup"]})
json.dump(calls, open("/verif/anchors_calls.json", "w"), indent=0, sort_keys=True)
# parameter names per function (a renamed parameter gets its reviewed name back: some rules name parameters literally)
params = {}
for cfg in ("default", "explanations", "checks", "checks_explanations"):
    crate = mir.Crate(facts.load(cfg, "slotted_egraphs"), use_anchors=False)
    for b in crate.bodies.values():
        if b.kind == "Closure" or not (b.file or "").startswith("src/") or b.auto_derived or not b.name:
            continue
        k = "%s::%s" % (b.file, b.name)
        if k in out and k not in params:
            params[k] = [b.var_names.get(l) for l in range(1, b.argc + 1)]
json.dump(params, open("/verif/anchors_params.json", "w"), indent=0, sort_keys=True)
print(len(params), "parameter lists")
print(len(calls), "callee lists")
# fields of the library's own structs / enum variants (name, type): a renamed private field is found again by its type
adts = {}
adts_alt = {}
for cfg in ("default", "explanations", "checks", "checks_explanations"):
    crate = mir.Crate(facts.load(cfg, "slotted_egraphs"), use_anchors=False)
    for path, a in crate.adts.items():
        if not (a.get("file") or "").startswith("src/"):
            continue
        cur_ = [[v["name"], [[f["name"], f["ty"]] for f in v["fields"]]] for v in a["variants"]]
        if adts.setdefault(path, cur_) != cur_:
            adts_alt.setdefault(path, cur_)      # (field types that depend on the explanations feature: `()` vs the proof types)
json.dump(adts, open("/verif/anchors_adts.json", "w"), indent=0, sort_keys=True)
json.dump(adts_alt, open("/verif/anchors_adts_alt.json", "w"), indent=0, sort_keys=True)
print(len(adts_alt), "adts with other field types under another configuration")
print(len(adts), "adts")

#!/bin/sh
# Builds the fact extractor and warms the per-configuration dependency caches. Offline.
set -e
cd "$(dirname "$0")"
export CARGO_NET_OFFLINE=true
(cd sefacts && cargo +nightly build --release --offline)
python3 -m salib.facts default explanations checks checks_explanations
echo "setup ok"

#!/bin/bash
# suite4.sh <dir> : run the pinned suite (lib + entry) in the four feature configurations, summarise
D=$1; cd $D
for cfg in "" "checks" "explanations" "checks,explanations"; do
  n=${cfg:-default}; n=${n/,/_}
  ( F=""; [ -n "$cfg" ] && F="--features $cfg"
    CARGO_TARGET_DIR=$D/target/s4-$n cargo test --offline -j 4 --no-fail-fast $F --lib --test entry > /tmp/suite4-$n.log 2>&1
    P=$(grep -E "^test result" /tmp/suite4-$n.log | awk '{p+=$4; f+=$6} END {print p" pass / "f" fail"}')
    echo "$n: $P; failing: $(grep -E '^test .* FAILED' /tmp/suite4-$n.log | awk '{print $2}' | sort | tr '\n' ' ')" ) &
done
wait

#!/usr/bin/env python3
"""prints the prompt for a seeding sub-agent: property text only, nothing from /verif."""
import json, sys
pid, wt = sys.argv[1], sys.argv[2]
extra = sys.argv[3] if len(sys.argv) > 3 else ""
props = {json.loads(l)["id"]: json.loads(l) for l in open("/verif/properties.jsonl")}
p = props[pid]
print(f"""You are helping test a verification effort for the Rust library memoryleak47/slotted-egraphs (slotted e-graphs: congruence closure over terms with binders; union-find, permutation-group symmetries, e-matching, extraction, proof explanations).

You have your own scratch git worktree of the repository at {wt} (do ALL work there; never touch /repo or /verif, never read anything under /verif). The sandbox is offline: use `cargo ... --offline` only. The repository builds and its test suite passes with `cd {wt} && cargo test --offline` (82 tests pass; 3 tests named redundancy_matching_bug* are expected to fail and must keep failing/passing exactly as before).

Here is a semantic property that the library is supposed to satisfy:

  Title: {p['title']}
  Statement: {p['statement']}
  Quantifier: {p['quantifier']['text']}
  Why the existing tests cannot settle it: {p['why_tests_cant']}

YOUR TASK: produce ONE realistic change (a small bug of the kind a maintainer could plausibly introduce during a refactor or optimisation) to the library source under {wt}/src (or {wt}/slotted-egraphs-derive is NOT built - the registry copy of the derive crate is used - so change only {wt}/src) that BREAKS this property, while the crate still compiles and the existing test suite still gives exactly the same results (82 pass, same 3 fail) in the default feature configuration. The change must need something SPECIFIC to manifest: a multi-step sequence of operations, an unusual input, a particular feature configuration (`--features explanations` or `--features checks`), or two cooperating sites that each look fine alone - NOT something ordinary use would expose at once. Prefer subtle semantic changes (a dropped guard, swapped operands, wrong side of a composition, a missing re-queue, an off-by-one in a bound, an omitted case) over crude ones. {extra}

Deliverables, all inside {wt}:
 1. The change itself, left applied in the worktree (uncommitted is fine). Keep it minimal (a few lines).
 2. A demonstration: a new integration test file {wt}/tests/seeded_demo.rs (a standalone test crate using only the public API of slotted_egraphs; look at {wt}/tests/ for how languages are defined with define_language! and how the API is used) that FAILS with your change and PASSES without it. State which features it needs. Verify both directions yourself: run it with the change (must fail: wrong answer or panic), then take the src change out with `git diff -- src > /tmp/<your-worktree-name>.patch && git apply -R /tmp/<your-worktree-name>.patch` (keep the test), run again (must pass), then put it back with `git apply /tmp/<your-worktree-name>.patch`. NEVER use `git stash`: the stash is shared by all worktrees of the repository and other engineers are working in sibling worktrees right now.
 3. Run the full existing suite with the change applied: `cargo test --offline --no-fail-fast 2>&1 | tail -30` (excluding your demo test if it is in tests/, e.g. run `cargo test --offline --no-fail-fast --lib --test entry`) and confirm 82 pass / same 3 fail.
 4. Write {wt}/SEEDED.md: what you changed and why it breaks the property, what it needs in order to manifest, the exact commands you ran and their outcomes.

Constraints: keep build output inside {wt}/target; do not create other copies of the repository; be economical (the machine is shared: use `-j 4` for cargo builds/tests). If after a serious attempt you cannot find a change that passes the existing suite yet breaks the property, say so in SEEDED.md and explain what you tried. Your final message should summarise: files changed, the one-paragraph description of the bug, features needed, and the verification outcomes.""")

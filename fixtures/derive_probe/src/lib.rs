// Fixture: one language covering every child kind the macro supports, expanded by the IN-REPO
// derive crate (/repo/slotted-egraphs-derive), not by the registry copy the library itself builds with.
#![allow(unused)]
use slotted_egraphs::*;

local_derive::define_language! {
    pub enum Probe {
        Lam(Bind<AppliedId>) = "lam",
        Lam2(Bind<Bind<AppliedId>>) = "lam2",
        Sum(AppliedId, Bind<AppliedId>) = "sum",
        Pair(Slot, AppliedId) = "pair",
        Tri(AppliedId, Slot, AppliedId) = "tri",
        Var(Slot) = "var",
        Leaf() = "leaf",
        Number(u32),
        Sym(Symbol),
    }
}

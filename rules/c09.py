"""C09 — insertion is canonical (structural necessary conditions)."""
from salib import mir
from salib.mir import role_str, role_walk, strip_role, role_mentions_field, role_mentions_call, role_mentions_param
from salib.runner import rule, where_of
from . import common as C
from . import c02

META = {
    "level": "other",
    "explanation": "Decides: allocation of a class is control dependent on a failed hashcons lookup and the hit path calls nothing that "
                   "can mutate (I1); lookup / lookup_rec_expr are read-only by receiver type, call-graph closure and union-find setter "
                   "reachability (I2); add and lookup reach the same internal lookup with a key produced by the same shape function (I3); "
                   "the looked-up invocation is filtered through the class's slot set and composed from the node's and the stored bijection "
                   "(I4); rebuild-before-return in every configuration (I5 = C02.P1); the allocating path drops redundant slots (I6).",
    "not_decided": "that equal terms get equal shapes (C16/C11); returned invocations as values",
    "assumptions": ["no unsafe code; RefCell is the only interior mutability in EGraph (union-find, proof registry)"],
}


def internal_lookups(crate):
    out = []
    for b in crate.fns():
        if b.argc < 1 or not b.local_ty(1).startswith("&egraph::EGraph<"):
            continue
        if "Option<types::AppliedId>" not in b.local_ty(0):
            continue
        gets = [c for c in b.calls if c.callee and c.callee.name == "get" and c.args and strip_role(b.role_of_operand(c.args[0])) == ("field", ("param", "self"), "hashcons")]
        if gets:
            out.append(b.id)
    return sorted(out)


def class_allocators(crate):
    """functions inserting into EGraph.classes"""
    out = []
    for b in crate.fns():
        for c in b.calls:
            if c.callee and c.callee.name == "insert" and c.args and strip_role(b.role_of_operand(c.args[0])) == ("field", ("param", "self"), "classes"):
                out.append(b.id)
                break
    return sorted(out)


def _miss_combinator(crate, b, lcs, reach_alloc):
    """(combinator call site, closure view) when b hands the lookup's Option to unwrap_or_else / or_else / map_or_else with a closure
    that reaches the class allocator"""
    for c in b.calls:
        if c.callee and c.callee.name in ("unwrap_or_else", "or_else", "map_or_else") and not b.blocks[c.bb]["cleanup"] and len(c.args) >= 2:
            r0 = strip_role(b.role_of_operand(c.args[0]))
            if isinstance(r0, tuple) and r0[0] == "call" and len(r0) > 4 and any(r0[4] == l.bb for l in lcs):
                cl = C._closure_of_role(crate, b.role_of_operand(c.args[1]))
                if hasattr(cl, "calls") and any(x.callee and x.callee.target in reach_alloc for x in cl.calls):
                    # (one level: the new slow-path method is looked into, the allocator and the filter stay calls)
                    return c, mir.inline_view(crate, cl, depth=1)
    return None


@rule("I1", doc="allocation only after a failed lookup; the hit path calls nothing mutating")
def i1(ctx):
    crate = ctx.lib()
    lk = set(C.need("internal lookup", internal_lookups(crate)))
    al = set(C.need("class allocator", class_allocators(crate)))
    ctx.roleset("internal-lookup", sorted(lk))
    ctx.roleset("class-allocator", sorted(al))
    reach_alloc = {b.id for b in crate.fns() if al & crate.reachable_from([b.id], resolve_traits=False)}
    n = 0
    for b in crate.fns():
        if b.argc < 1 or not b.local_ty(1).startswith("&mut egraph::EGraph<"):
            continue
        lcs = [c for c in b.calls if c.callee and c.callee.target in lk]
        acs = [c for c in b.calls if c.callee and c.callee.target in reach_alloc and c.callee.target not in lk and c.callee.target != b.id]
        comb = _miss_combinator(crate, b, lcs, reach_alloc) if lcs and not acs else None
        if comb is not None:
            # `self.lookup_internal(&t).unwrap_or_else(|| <allocating slow path>)`: the closure runs exactly when the lookup missed,
            # the hit path is the payload itself
            n += 1
            uc, cl = comb
            others = [c.callee.name for c in b.calls if c.callee and c is not uc and c.bb in b.reach(b.after(lcs[0].bb)) and not b.blocks[c.bb]["cleanup"]
                      and any((mir.op_place(a) or {}).get("l") is not None and not (mir.op_place(a) or {}).get("p") and b.local_ty(mir.op_place(a)["l"]).startswith("&mut egraph::EGraph<") for a in c.args)]
            ctx.check(strip_role(b.role_of_local(0))[0] == "call" and strip_role(b.role_of_local(0))[4] == uc.bb, "lookup-branched:" + C.fkey(b), "%s answers lookup.unwrap_or_else(slow path)" % C.short(b.id),
                      "%s does not answer with the lookup's payload or the slow path's result" % C.short(b.id), where_of(b))
            ctx.ok("alloc-after-miss:%s:0" % C.fkey(b), "the allocating slow path is the None-closure of the lookup result", where_of(b, uc.bb))
            ctx.check(not others, "hit-path-pure:" + C.fkey(b), "the hit path of %s passes the e-graph mutably to nothing" % C.short(b.id),
                      "on the lookup-hit path %s calls %s with &mut EGraph" % (C.short(b.id), others), where_of(b))
            continue
        if not lcs or not acs:
            continue
        # only the function that pairs a lookup with the allocation on its miss path: its return
        # value is the lookup's payload on one path
        ret_from_lookup = any(d["kind"] == "assign" and role_mentions_call(b.role_of_rvalue(d["rv"]), lcs[0].callee.name) for d in b.defs().get(0, []))
        if not ret_from_lookup:
            continue
        n += 1
        l = lcs[0]
        # switch on the discriminant of the lookup result
        none_edges, some_edges = [], []
        for sb in b.switch_blocks():
            t = b.blocks[sb]["term"]
            r = b.role_of_operand(t["discr"])
            if r[0] == "discr" and strip_role(r[1])[0] == "call" and strip_role(r[1])[4] == l.bb:
                none_edges += C.variant_edges(b, sb, 0)
                some_edges += C.variant_edges(b, sb, 1)
        ctx.check(bool(none_edges) and bool(some_edges), "lookup-branched:" + C.fkey(b), "%s branches on the lookup result" % C.short(b.id),
                  "%s does not branch on the result of the internal lookup" % C.short(b.id), where_of(b))
        if not none_edges:
            continue
        for i, a in enumerate(acs):
            ok = b.dominated_by(a.bb, none_edges)
            ctx.check(ok, "alloc-after-miss:%s:%d" % (C.fkey(b), i), "allocation (%s) is dominated by lookup == None" % C.short(a.callee.target),
                      "in %s the call %s, which can allocate a class, is reachable without the hashcons lookup having failed — an already represented e-node gets a second class" % (C.short(b.id), C.short(a.callee.target)),
                      where_of(b, a.bb))
        # hit path: from the Some edge to return, no call taking &mut EGraph
        after = b.reach(some_edges, avoid=none_edges)
        mutcalls = []
        for bb in after:
            if isinstance(bb, int):
                c = b.call_at.get(bb)
                if c is not None and not b.blocks[bb]["cleanup"]:
                    for arg in c.args:
                        pl = mir.op_place(arg)
                        if pl is not None and not pl["p"] and b.local_ty(pl["l"]).startswith("&mut egraph::EGraph<"):
                            mutcalls.append(c.callee.name if c.callee else "indirect")
        ctx.check(not mutcalls, "hit-path-pure:" + C.fkey(b), "the hit path of %s passes the e-graph mutably to nothing" % C.short(b.id),
                  "on the lookup-hit path %s calls %s with &mut EGraph — inserting a known term is not a no-op" % (C.short(b.id), mutcalls), where_of(b))
    ctx.floor("lookup-or-allocate functions", n, 1)


READONLY_API = [("egraph::EGraph", "lookup"), ("egraph::EGraph", "eq"), ("egraph::EGraph", "find_applied_id"),
                ("egraph::EGraph", "enodes"), ("egraph::EGraph", "enodes_applied"), ("egraph::EGraph", "ids"), ("egraph::EGraph", "progress"),
                ("egraph::EGraph", "total_number_of_nodes"), ("egraph::EGraph", "get_syn_expr")]
READONLY_FREE = ["lookup_rec_expr", "ematch_all"]


def readonly_closure(ctx, crate, entries, key_prefix):
    ufs = set(C.uf_setters(crate))
    for b in entries:
        # receiver / argument types
        muts = [b.var_names.get(i, "_%d" % i) for i in range(1, b.argc + 1) if "&mut egraph::EGraph<" in b.local_ty(i)]
        ctx.check(not muts, "%s:takes-shared:%s" % (key_prefix, C.fkey(b)), "%s takes the e-graph by shared reference" % C.short(b.id),
                  "%s takes the e-graph by &mut (%s)" % (C.short(b.id), muts), where_of(b))
        reach = crate.reachable_from([b.id])
        bad = []
        for rid in reach:
            rb = crate.bodies.get(rid)
            if rb is None or rb.kind == "Closure":
                continue
            if rid in ufs:
                bad.append("%s (union-find setter)" % C.short(rid))
            elif any(rb.local_ty(i).startswith("&mut egraph::EGraph<") for i in range(1, rb.argc + 1)):
                bad.append("%s (&mut EGraph)" % C.short(rid))
        ctx.check(not bad, "%s:closure-read-only:%s" % (key_prefix, C.fkey(b)),
                  "no function reachable from %s (%d functions) takes &mut EGraph or is the union-find setter" % (C.short(b.id), len(reach)),
                  "from the read-only API %s the call graph reaches %s" % (C.short(b.id), sorted(bad)[:6]), where_of(b))


def readonly_entries(crate):
    out = []
    for owner, name in READONLY_API:
        out += crate.method(owner, name)
    for name in READONLY_FREE:
        out += [b for b in crate.free_fn(name)]
    return out


@rule("I2", doc="lookup / lookup_rec_expr (and the other &self API) are read-only")
def i2(ctx):
    crate = ctx.lib()
    entries = readonly_entries(crate)
    ctx.floor("read-only API entry points", len(entries), 9)
    readonly_closure(ctx, crate, entries, "ro")
    # RefCell writes reachable from the read-only API: only path compression and the proof registry
    reach = crate.reachable_from([b.id for b in entries])
    bm = []
    for rid in reach:
        rb = crate.bodies.get(rid)
        if rb is None:
            continue
        for c in rb.all_calls():
            if c.callee and c.callee.name in ("borrow_mut", "with_borrow_mut", "replace", "set") and ("RefCell" in (c.callee.impl_self or "") or "LocalKey" in (c.callee.impl_self or "") or "Cell" in (c.callee.impl_self or "")):
                r = c.body.role_of_operand(c.args[0]) if c.args else None
                what = role_str(r)
                if "LocalKey" in (c.callee.impl_self or ""):
                    what = "thread-local SLOT_TABLE"
                bm.append((C.short(rid), what))
    allowed = []
    for fn, r in bm:
        ok = "unionfind" in r or "SLOT_TABLE" in r or "registry" in r.lower() or r.endswith(".0") or "self.0" in r
        allowed.append((fn, r, ok))
    ctx.info("interior-mutability writes reachable from the read-only API: %s" % sorted(set((f, r) for f, r, _ in allowed)))
    for fn, r, ok in sorted(set(allowed)):
        ctx.check(ok, "refcell-write:%s:%s" % (fn, r[:60]), "interior write in %s is path compression / slot table / proof registry (%s)" % (fn, r),
                  "%s, reachable from a read-only API, mutates %s through interior mutability" % (fn, r))


@rule("I3", doc="add and lookup use the same key function and the same internal lookup")
def i3(ctx):
    crate = ctx.lib()
    lk = set(C.need("internal lookup", internal_lookups(crate)))
    add = crate.one("egraph::EGraph", "add")
    lookup = crate.one("egraph::EGraph", "lookup")

    def key_fn_of(b, depth=0):
        """def path of the function that computes the key reaching the internal lookup, following
        forwarding wrappers and the lookup-or-allocate function"""
        for c in b.calls:
            if c.callee is None or b.blocks[c.bb]["cleanup"]:
                continue
            t = c.callee.target
            if t in lk:
                r = strip_role(b.role_of_operand(c.args[1]))
                return r
            if t in crate.bodies and depth < 3 and lk & crate.reachable_from([t], resolve_traits=False):
                callee = crate.bodies[t]
                inner = key_fn_of(callee, depth + 1)
                while isinstance(inner, tuple) and inner[0] in ("field", "variant") and len(inner) > 1:
                    inner = strip_role(inner[1])      # (`&t.0` of a pair parameter)
                if inner is not None and inner[0] == "param":
                    pi = callee.param_index(inner[1])
                    return strip_role(b.role_of_operand(c.args[pi - 1]))
                return inner
        return None

    def resolve(b, r):
        if r is None or r[0] != "call":
            return None
        site = b.call_at.get(r[4])
        if site is None or site.callee is None:
            return None
        t = site.callee.target
        if t in crate.bodies:
            t = C.unwrap_delegation(crate, crate.bodies[t]).id
        return t

    def peel(r):
        # the key handed over as a component of the (shape, bijection) pair the key function returned (`&t.0`, `&shape` after a `let (shape, bij) = ..`)
        while isinstance(r, tuple) and r[0] in ("field", "variant") and len(r) > 1:
            r = strip_role(r[1])
        return r
    ka = peel(key_fn_of(add))
    kl = peel(key_fn_of(lookup))
    ta, tl = resolve(add, ka), resolve(lookup, kl)
    ctx.check(ta is not None and ta == tl, "same-key-function", "add and lookup both key the hashcons by %s" % (C.short(ta) if ta else None),
              "add keys the hashcons by %s (%s) but lookup by %s (%s): lookup would miss what add inserted" % (role_str(ka), ta, role_str(kl), tl), where_of(add))
    # lookup answers by the hashcons and nothing else: every path through it (looking through single-use helpers) reaches the
    # internal lookup — no early `None` from a test of its own ("a child is dead", "the node has no children" ..)
    lv = mir.inline_view(crate, lookup, keep=tuple(C.short(x).split("::")[-1] for x in lk))
    hits = {c.bb for c in lv.calls if c.callee and c.callee.target in lk and not lv.blocks[c.bb]["cleanup"]}
    ctx.check(bool(hits) and lv.must_pass([0], lv.return_blocks(), hits), "lookup-always-consults-hashcons", "every path through EGraph::lookup goes through the hashcons lookup",
              "EGraph::lookup can return without consulting the hashcons: for a node that add() would find (add canonicalises the children through the union-find first) lookup answers None — e.g. when a child handle is older than a union that merged its class away", where_of(lookup))
    # the key function is the strong shape: it goes through the canonical-variant function
    if ta in crate.bodies:
        from .c01 import canonical_variant_functions
        cv = set(canonical_variant_functions(crate))
        ok = bool(cv & crate.reachable_from([ta], resolve_traits=False))
        ctx.check(ok, "key-is-strong-shape", "the key function reaches the canonical-variant minimisation (strong shape)",
                  "the hashcons key function %s no longer goes through the canonical group variant: nodes equal up to child symmetries get different keys" % C.short(ta), where_of(crate.bodies[ta]))


@rule("I4", doc="looked-up invocation is filtered through the class slot set, composed from both bijections")
def i4(ctx):
    crate = ctx.lib()
    for lid in C.need("internal lookup", internal_lookups(crate)):
        b = crate.bodies[lid]
        d = crate.deps(b)
        at = d.atoms_of_local(b, 0)
        fields = set(mir.atoms_fields(at))
        ok_slots = (C.ECLASS, "slots") in fields
        if not ok_slots:
            # in-place form: `for z in out.keys() { if !class.slots.contains(&z) { out.remove(z); } }` — the result depends on the
            # class's slot set through the guard of the removal, not through a value
            for c in b.calls:
                if c.callee and c.callee.name in ("remove", "retain") and not b.blocks[c.bb]["cleanup"] and "SlotMap" in (c.callee.impl_self or "") + b.local_ty(mir.op_place(c.args[0])["l"] if mir.op_place(c.args[0]) else 0):
                    for e_, cond in C.conditions_at(b, c.bb):
                        if cond[0] == "false" and len(cond) > 1 and role_mentions_call(cond[1], "contains") and role_mentions_field(cond[1], "slots"):
                            ok_slots = True
        ctx.check(ok_slots, "filtered-by-class-slots:" + C.fkey(b), "the returned invocation depends on EClass.slots (redundant slots are filtered out)",
                  "the invocation returned by %s does not depend on the found class's slot set: redundant slots of the stored e-node leak into the AppliedId" % C.short(lid), where_of(b))
        ok_nodes = (C.ECLASS, "nodes") in fields
        inv = mir.atoms_calls(at, "inverse")
        comp = [a for a in at if a[0] == "call" and a[3] in ("compose", "compose_partial", "compose_fresh")]
        ctx.check(ok_nodes and bool(inv) and bool(comp), "composed-from-both:" + C.fkey(b), "result map = inverse(stored bijection) ; node bijection",
                  "the map returned by %s is not composed from the stored bijection (inverted) and the queried node's bijection" % C.short(lid), where_of(b))
        # orientation: inverse is applied to the stored bijection (classes[..].nodes[..].elem), the key's bijection is the argument
        for c in b.calls:
            if c.callee and c.callee.name in ("compose", "compose_partial", "compose_fresh") and not b.blocks[c.bb]["cleanup"]:
                r0 = b.role_of_operand(c.args[0])
                r1 = b.role_of_operand(c.args[1])
                if role_mentions_field(r0, "nodes") or role_mentions_field(r1, "nodes"):
                    ok = role_mentions_call(r0, "inverse") and role_mentions_field(r0, "nodes") and not role_mentions_field(r1, "nodes")
                    ctx.check(ok, "orientation:" + C.fkey(b), "out = stored_bij^-1 ; key_bij  (class slots -> caller slots)",
                              "lookup composes %s with %s; it must be inverse(stored bijection).compose(key bijection), i.e. class slots -> caller's slots" % (role_str(r0), role_str(r1)), where_of(b, c.bb))


@rule("I5", doc="rebuild-before-return (C02.P1) for the insertion entry points")
def i5(ctx):
    c02.p1(ctx)


@rule("I6", doc="the allocating path returns through the redundancy filter")
def i6(ctx):
    crate = ctx.lib()
    lk = set(internal_lookups(crate))
    al = set(class_allocators(crate))
    reach_alloc = {b.id for b in crate.fns() if al & crate.reachable_from([b.id], resolve_traits=False)}
    n = 0
    for b in crate.fns():
        if b.argc < 1 or not b.local_ty(1).startswith("&mut egraph::EGraph<"):
            continue
        lcs = [c for c in b.calls if c.callee and c.callee.target in lk]
        acs = [c for c in b.calls if c.callee and c.callee.target in reach_alloc and c.callee.target not in lk and c.callee.target != b.id]
        host = b
        if lcs and not acs:
            comb = _miss_combinator(crate, b, lcs, reach_alloc)
            if comb is not None:
                host = comb[1]
                acs = [c for c in host.calls if c.callee and c.callee.target in reach_alloc]
        if not lcs or not acs:
            continue
        if "types::AppliedId" != b.local_ty(0):
            continue
        rdefs = list(host.defs().get(0, []))
        if host is not b:
            # (in the view the spliced method's answer arrives by a move: take the call it was computed by)
            r_ = strip_role(host.role_of_local(0))
            if isinstance(r_, tuple) and r_[0] == "call" and len(r_) > 4 and host.call_at.get(r_[4]) is not None:
                rdefs = [{"kind": "call", "call": host.call_at[r_[4]]}]
        for d in rdefs:
            if d["kind"] != "call":
                continue
            c = d["call"]
            if not c.callee or c.callee.target not in crate.bodies:
                continue
            n += 1
            f = crate.bodies[c.callee.target]
            # the filter: removes keys of app.m that are not in slots(id)
            removes = [x for x in f.all_calls() if x.callee and x.callee.name in ("remove", "retain", "filter")]
            reads_slots = [x for x in f.all_calls() if x.callee and x.callee.name == "slots"] or (C.ECLASS, "slots") in {(a[1], a[2]) for a in crate.deps(f).atoms_of_local(f, 0) if a[0] == "field"}
            ok = bool(removes) and bool(reads_slots)
            ctx.check(ok, "alloc-path-semified:" + C.fkey(b), "the freshly allocated class's invocation is returned through %s (drops redundant slots)" % C.short(f.id),
                      "%s returns the invocation of a freshly allocated class through %s, which does not drop the slots the class proved redundant" % (C.short(b.id), C.short(f.id)), where_of(host, c.bb))
    ctx.floor("allocating return paths", n, 1)




@rule("P2", doc="touch-after-change (shared with C02): a class-level change re-queues the class's usages, otherwise parents keep stale shapes in the hashcons")
def p2(ctx):
    c02.p2(ctx)


RULES = [i1, i2, i3, i4, i5, i6, p2]


@rule("I2w", doc="compile-fail witnesses: add / union need &mut EGraph; lookup / eq work through &EGraph", thorough_only=True, once=True)
def i2w(ctx):
    from salib import witness
    witness.check(ctx, ['c09_add_through_shared', 'c09_union_through_shared'])


RULES.append(i2w)


@rule("I7", doc="lookup_rec_expr mirrors add_expr: children first, in order, then the node itself")
def i7(ctx):
    crate = ctx.lib()
    lr = crate.free_fn("lookup_rec_expr")
    ae = crate.method("egraph::EGraph", "add_expr")
    if len(lr) != 1 or len(ae) != 1:
        raise mir.AnchorMissing("lookup_rec_expr / EGraph::add_expr")
    lr, ae = lr[0], ae[0]
    for b, fin, what in ((lr, "lookup", "lookup_rec_expr"), (ae, "add", "add_expr")):
        b = C.unwrap_delegation(crate, b)       # `add_expr(re) = add_expr_with(re, Semantic)`: look at the worker
        rec = [c for c in b.calls if c.callee and c.callee.target == b.id and not b.blocks[c.bb]["cleanup"]]
        last = [c for c in b.calls if c.callee and c.callee.name == fin and c.callee.target != b.id and not b.blocks[c.bb]["cleanup"]]

        def re_arg(c, b=b, what=what):
            """the term argument of the recursive call, by type (free function (re, eg) or method (self, re))"""
            for a in c.args:
                pl = mir.op_place(a)
                if pl is not None and not pl["p"] and "RecExpr" in b.local_ty(pl["l"]):
                    return a
            return c.args[0 if what == "lookup_rec_expr" else 1]
        if not rec:
            # higher-order form: the recursion lives in a closure handed to a node-rebuilding helper together with the node and
            # its children; the helper walks the children in order (its own loop), the node is handled afterwards
            crec = [c for cb in b.closures for c in cb.calls if c.callee and c.callee.target == b.id and not cb.blocks[c.bb]["cleanup"]]
            cons = []
            for c in crec:
                pc = c.body.creation
                if pc is None:
                    continue
                parent, cbb, csi, _ = pc
                cl_local = parent.blocks[cbb]["stmts"][csi]["lhs"]["l"]
                for x in parent.calls:
                    if x.callee and x.callee.target in crate.bodies and any((mir.op_place(a) or {}).get("l") == cl_local for a in x.args) and not parent.blocks[x.bb]["cleanup"]:
                        cons.append(x)
            ok = len(crec) == 1 and len(cons) == 1 and len(last) == 1
            if ok:
                x = cons[0]
                argr = [b.role_of_operand(a) for a in x.args]
                ok = any(role_mentions_field(r, "children") for r in argr) and any(role_mentions_field(r, "node") or role_mentions_param(r, "n") for r in argr)
                helper = crate.bodies[x.callee.target]
                hl = [l for l in C.iterator_loops(helper)]
                ok = ok and len(hl) == 1 and b.dominated_by(last[0].bb, [x.bb]) and role_mentions_call(b.role_of_operand(last[0].args[1]), helper.name)
            ctx.check(ok, "shape:" + what, "%s rebuilds the node through a helper that walks the children in order (recursing on each), then handles the node" % what,
                      "%s no longer has one recursive call and one final %s" % (what, fin), where_of(b))
            continue
        ctx.check(len(rec) == 1 and len(last) == 1, "shape:" + what, "%s recurses on the children and finishes with %s(node)" % (what, fin), "%s no longer has one recursive call and one final %s" % (what, fin), where_of(b))
        if len(rec) != 1 or len(last) != 1:
            continue
        loops = C.iterator_loops(b)
        inl = [l for l in loops if rec[0].bb in b.reach(l[3], avoid=l[2])]
        ok = len(inl) == 1
        if ok and what == "add_expr":
            ok = C.loop_exhaustive(b, inl[0])
        ctx.check(ok, "children-loop:" + what, "%s visits the children in one loop%s" % (what, " exhaustively" if what == "add_expr" else " (leaving it only when a child is not represented)"),
                  "%s does not visit all children" % what, where_of(b))
        # the i-th child result is written to the i-th applied-id occurrence of the node
        st = [s for bi, si, s in b.statements() if s["k"] == "assign" and s["lhs"]["p"] == ["*"] and role_mentions_call(b.role_of_rvalue(s["rv"]), b.name)]
        idx_ok = False
        for c in b.calls:
            if c.callee and c.callee.name == "index_mut" and role_mentions_call(b.role_of_operand(c.args[0]), "applied_id_occurrences_mut"):
                i_w = role_str(b.role_of_operand(c.args[1]))
                child = role_str(b.role_of_operand(re_arg(rec[0])))
                # same loop counter drives the child index and the occurrence index: the child is `children[i]` for exactly
                # the `i` that indexes the occurrence vector (no arithmetic on it: `children[len - 1 - i]` is another child)
                idx_ok = ("next(" in i_w) and ("next(" in child)
                cr = strip_role(b.role_of_operand(re_arg(rec[0])))
                if idx_ok and isinstance(cr, tuple) and cr[0] == "call" and cr[1] == "index" and len(cr[3]) == 2:
                    idx_ok = role_str(strip_role(cr[3][1]), 12) == role_str(strip_role(b.role_of_operand(c.args[1])), 12)
        if not idx_ok:
            # zipped form: `for (i, r) in refs.iter_mut().enumerate() { **r = rec(children[i]) }`
            child = b.role_of_operand(re_arg(rec[0]))
            for s_ in st:
                tgt = b.role_of_local(s_["lhs"]["l"])
                if role_mentions_call(tgt, "enumerate") and role_mentions_call(tgt, "applied_id_occurrences_mut") and role_mentions_call(child, "enumerate"):
                    idx_ok = True
        ctx.check(bool(st) and idx_ok, "child-to-occurrence:" + what, "the i-th child's result replaces the i-th applied-id occurrence",
                  "%s does not store the i-th child's result into the i-th applied-id occurrence of the node" % what, where_of(b))
        # the final call dominates nothing else and gets the patched node
        ctx.check(b.dominated_by(last[0].bb, inl[0][2]) if inl else False, "node-after-children:" + what, "the node is looked up / added only after all children were processed",
                  "%s handles the node before its children are done" % what, where_of(b, last[0].bb))
    # lookup_rec_expr gives up as soon as a child is missing (returns None), never inserts
    muts = [c.callee.name for c in lr.all_calls() if c.callee and any((mir.op_place(a) or {}).get("l") is not None and not (mir.op_place(a) or {}).get("p") and lr.local_ty(mir.op_place(a)["l"]).startswith("&mut egraph::EGraph<") for a in c.args)]
    ctx.check(not muts, "lookup-rec-read-only", "lookup_rec_expr passes the e-graph mutably to nothing", "lookup_rec_expr calls %s with &mut EGraph" % muts, where_of(lr))


RULES.append(i7)


@rule("I8", doc="a freshly allocated class: the invocation handed back renames the class's slots by the inverse of the renaming that was applied to the stored node")
def i8(ctx):
    crate = ctx.lib()
    allocs = [b.id for b in crate.fns() if any(s["k"] == "assign" and s["rv"]["k"] == "agg" and s["rv"].get("adt") == C.ECLASS for bi, si, s in b.statements())]
    C.need("class allocator (constructs an EClass)", allocs)
    n = 0
    for b in crate.fns():
        for c in C.calls_to(crate, b, set(allocs)):
            if c.body is not b or len(c.args) < 3:
                continue
            node = strip_role(b.role_of_operand(c.args[2]))
            if not (isinstance(node, tuple) and node[0] == "call" and node[1].startswith("apply_slotmap") and len(node[3]) == 2):
                continue
            Y = strip_role(node[3][1])
            # invocations of the new class built in this function
            for x in b.calls:
                if x.callee and x.callee.name in ("mk_syn_applied_id", "mk_sem_applied_id") and len(x.args) == 3 and not b.blocks[x.bb]["cleanup"]:
                    idr = strip_role(b.role_of_operand(x.args[1]))
                    if not (isinstance(idr, tuple) and idr[0] == "call" and idr[4] == c.bb):
                        continue
                    X = strip_role(b.role_of_operand(x.args[2]))
                    n += 1
                    inv = lambda r: isinstance(r, tuple) and r[0] == "call" and r[1] == "inverse" and r[3]
                    ok = (inv(Y) and strip_role(Y[3][0]) == X) or (inv(X) and strip_role(X[3][0]) == Y)
                    ctx.check(ok, "invocation-inverts-node-renaming:" + C.fkey(b),
                              "%s: the stored node is renamed by %s, the invocation handed back by its inverse" % (C.short(b.id), role_str(Y)[:60]),
                              "%s renames the node it stores in the new class with %s and hands back an invocation with map %s: these must be inverse to each other (old -> fresh for the node, fresh -> old for the invocation). Otherwise the class's slots are unrelated to the slots of the term the caller added" % (C.short(b.id), role_str(Y)[:70], role_str(X)[:70]),
                              where_of(b, x.bb))
    ctx.floor("allocation sites with a renamed node and a returned invocation", n, 1)


RULES.append(i8)


@rule("P5", doc="work-list handler pairing and self-symmetry derivation (shared with C02.P5 / P6): a re-canonicalised node that collides with an existing one is handed to the congruence step — also inside one class, where the collision is the evidence for a symmetry that decides whether a later term is already represented")
def p5(ctx):
    c02.p5(ctx)
    c02.p6(ctx)


RULES.append(p5)


@rule("I9", doc="the canonical group variant of a node is well defined: minimisation key is name-free and separates distinct variants (C11.N1)")
def i9(ctx):
    from . import c11
    c11.n1(ctx)


RULES.append(i9)


@rule("MC", doc="must-call census: no function of this property's files has gained an early exit in front of work it always did (every crate-local call that lay on all paths to a normal return in the reviewed tree still does)")
def mc(ctx):
    C.must_call_census(ctx, ctx.lib(), ['src/egraph/add.rs', 'src/egraph/mod.rs', 'src/lang.rs', 'src/egraph/find.rs'])


RULES.append(mc)


@rule("I10", doc="a queued request for full re-processing is never downgraded: PendingType::merge is the join with Full on top (C02.P4) — otherwise a known node keeps a stale hashcons key and insertion creates a duplicate class")
def i10(ctx):
    from . import c02
    c02.p4(ctx)


RULES.append(i10)


@rule("I11", doc="the variant enumeration behind the strong shape is the full product of the children's groups; its only shortcut is 'every child's group is trivial' (C04.M3b/M3c)")
def i11(ctx):
    from . import c04
    c04.m3b(ctx)
    c04.m3c(ctx)


RULES.append(i11)


@rule("I12", doc="the bound slots of a new class's e-node are refreshed one fresh name per bound slot (C03.H6): sharing one name lets an inner binder capture the outer one, the node is stored under the wrong shape and a term just inserted is not found again")
def i12(ctx):
    from . import c03
    c03.h6(ctx)


RULES.append(i12)


@rule("I13", doc="the invocation add / lookup hand back carries the class's own slots and no others: semify_app_id removes a key exactly when it is not among slots(app.id) — of that very class")
def i13(ctx):
    crate = ctx.lib()
    bs = [b for b in crate.by_name.get("semify_app_id", []) if b.kind != "Closure"]
    if len(bs) != 1:
        raise mir.AnchorMissing("EGraph::semify_app_id")
    b = mir.inline_view(crate, bs[0])
    p_app = [b.var_names.get(l) for l in range(1, b.argc + 1) if "AppliedId" in b.local_ty(l)]
    rem = [c for c in b.calls if c.callee and c.callee.name in ("remove", "retain") and not b.blocks[c.bb]["cleanup"]]
    chains = [c for c in b.calls if c.callee and c.callee.name in ("filter", "collect") and not b.blocks[c.bb]["cleanup"]]
    if not rem and not chains:
        raise mir.AnchorMissing("the key removal in semify_app_id")
    for c in rem:
        if c.callee.name != "remove":
            continue
        conds = [cond for e, cond in C.conditions_at(b, c.bb) if isinstance(strip_role(cond[1]) if len(cond) > 1 else None, tuple) and strip_role(cond[1])[0] == "call" and strip_role(cond[1])[1] == "contains"]
        ok = False
        why = "no membership test in front of the removal"
        for cond in conds:
            r = strip_role(cond[1])
            setr = strip_role(r[3][0])
            own = isinstance(setr, tuple) and setr[0] == "call" and setr[1] == "slots" and any(role_str(strip_role(a)) == "%s.id" % p for a in setr[3] for p in p_app if p)
            samekey = strip_role(r[3][1]) == strip_role(b.role_of_operand(c.args[1])) if len(r[3]) > 1 and len(c.args) > 1 else False
            if cond[0] == "false" and own and samekey:
                ok = True
            else:
                why = "tested: %s %s" % (cond[0], role_str(r)[:70])
        ctx.check(ok, "semify-removes-non-class-slots", "a key is removed exactly when slots(app.id) does not contain it", "semify_app_id removes a key of the invocation without `!slots(app.id).contains(key)` for that key and that class (%s): redundant slots stay in returned invocations, or class slots are stripped" % why, where_of(b, c.bb))
    if not [c for c in rem if c.callee.name == "remove"]:
        # filter form: app.m = app.m.iter().filter(|(k, _)| slots.contains(k)).collect()
        okf = False
        for c in b.calls:
            if c.callee and c.callee.name in ("filter", "retain") and not b.blocks[c.bb]["cleanup"] and len(c.args) == 2:
                cl = C._closure_of_role(crate, b.role_of_operand(c.args[1]))
                if hasattr(cl, "calls"):
                    r_ = strip_role(cl.role_of_local(0))
                    if isinstance(r_, tuple) and r_[0] == "call" and r_[1] == "contains" and r_[3]:
                        setr = strip_role(r_[3][0])
                        while isinstance(setr, tuple) and setr[0] == "upvar":
                            setr = strip_role(setr[2])
                        if isinstance(setr, tuple) and setr[0] == "call" and setr[1] == "slots" and any(role_str(strip_role(a)) == "%s.id" % p for a in setr[3] for p in p_app if p):
                            okf = True
        ctx.check(okf, "semify-removes-non-class-slots", "exactly the keys in slots(app.id) are kept", "semify_app_id keeps keys by a test other than `slots(app.id).contains(key)`", where_of(b))
    for l in C.iterator_loops(b):
        ctx.check(C.loop_exhaustive(b, l), "semify-visits-all-keys", "every key of the invocation is examined", "semify_app_id can stop before it has examined every key", where_of(b, l[0]))


RULES.append(i13)


@rule("I14", doc="every class slot occurs in each of the class's e-nodes when the work-list handler is done with a node: the inclusion test is repeated after every shrink against the re-canonicalised node (C08.SI), and the self-symmetry derivation examines every variant, the node itself included (C02.P6) — a class that owns a slot one of its nodes lacks hands out malformed invocations for terms it already represents")
def i14(ctx):
    C.slot_inclusion(ctx, ctx.lib())
    from . import c02
    c02.p6(ctx)


RULES.append(i14)


@rule("I15", doc="an e-node is stored with an injective completion of its class's argument map (C03.H10 fresh-per-completed-slot): with a shared placeholder for two redundant slots the stored node changes shape at its next re-canonicalisation and a term that is represented is inserted again as a new class")
def i15_h10(ctx):
    from . import c03
    c03.h10(ctx)


RULES.append(i15_h10)

"""C18 — printing / parsing round-trip; parsing never panics (panic audit of the parser, arity, literal agreement)."""
import re
from salib import mir
from salib.mir import role_str, role_walk, strip_role, role_mentions_field, role_mentions_call, role_mentions_param
from salib.runner import rule, where_of
from . import common as C
from . import c17

META = {
    "level": "other",
    "explanation": "L1: panic audit of everything reachable from Pattern::parse, RecExpr::parse and MultiPattern::parse in the library, and "
                   "of the generated from_syntax of every language in the test crate: every bounds check, range index, overflow check, "
                   "unwrap/expect and explicit panic must be discharged by one of the repository's guard idioms (Some-edge of slice.get(k) "
                   "on the same slice value; starts_with(literal) of sufficient byte length on the same string value; index taken from "
                   "char_indices of the same string; len() == n test; constant shifts; the overflow obligations of C17; the "
                   "is_ground guard in front of pattern_to_re) or is reported. L2: a node is built only after the consumed syntax was "
                   "compared with the node's own arity. L3: the structural literals written by the printers are exactly those the "
                   "tokenizer / multi-pattern parser dispatch on, and identifier characters exclude exactly whitespace and brackets. "
                   "L4: pattern_to_re / re_to_pattern are structural mirrors.",
    "not_decided": "round-trip equality of values for all terms and payload types",
    "assumptions": ["std slice/str indexing panics exactly when out of bounds / not on a char boundary", "user payload types' FromStr does not panic"],
}

PARSE_FILE = "src/parse.rs"


def entries(crate):
    es = [b for b in crate.by_name.get("parse", []) if (b.file or "").endswith("parse.rs") and b.kind != "Closure"]
    if len(es) < 3:
        raise mir.AnchorMissing("Pattern::parse / RecExpr::parse / MultiPattern::parse", "found %d" % len(es))
    return es


def panic_sites(crate, b):
    """[(body, bb, kind, callsite or None)] in b and its closures"""
    out = []
    for sub in b.all_bodies():
        for bi, blk in enumerate(sub.blocks):
            if blk["cleanup"]:
                continue
            t = blk["term"]
            if t["k"] == "assert":
                if t["akind"] in ("misaligned", "nullptr"):
                    continue    # debug-build pointer checks on references rustc itself produced
                out.append((sub, bi, "assert:" + t["akind"], None))
            elif t["k"] == "call":
                cs = sub.call_at[bi]
                if cs.callee is None:
                    continue
                n, tg = cs.callee.name, cs.callee.target or ""
                if n in ("unwrap", "expect", "unwrap_err", "expect_err"):
                    out.append((sub, bi, n, cs))
                elif t["target"] is None and (tg.startswith("core::panicking") or tg.startswith("std::rt::") or tg.startswith("std::panicking")):
                    out.append((sub, bi, "panic", cs))
                elif n in ("index", "index_mut") and cs.callee.trait and "Index" in cs.callee.trait:
                    out.append((sub, bi, "index", cs))
                elif n in ("split_at", "split_at_mut", "remove", "swap_remove", "split_off", "drain", "truncate_front", "char_at", "slice_unchecked") and n != "insert" \
                        and any(k in (cs.callee.impl_self or cs.callee.target or "") for k in ("Vec", "str", "[T]", "String", "slice")):
                    out.append((sub, bi, n, cs))
    return out


def const_int(text):
    m = re.match(r"^(-?\d+)(_[iu](8|16|32|64|128|size))?$", text or "")
    return int(m.group(1)) if m else None


def lit_len(text):
    """byte length of a char or str literal as rendered by rustc: const '(' / const ":=" """
    m = re.match(r"^'(.*)'$", text or "")
    if m:
        s = m.group(1)
        s = {"\\'": "'", "\\\\": "\\", "\\n": "\n", "\\t": "\t"}.get(s, s)
        return len(s.encode("utf8"))
    m = re.match(r'^"(.*)"$', text or "")
    if m:
        return len(m.group(1).encode("utf8").decode("unicode_escape").encode("utf8")) if "\\" in m.group(1) else len(m.group(1).encode("utf8"))
    return None


def discharge(crate, sub, bi, kind, cs):
    """returns a reason string if the site is discharged, else None"""
    blk = sub.blocks[bi]
    t = blk["term"]
    if kind == "index":
        self_ty = cs.callee.gargs[0] if cs.callee.gargs else ""
        idx_ty = cs.callee.gargs[1] if len(cs.callee.gargs) > 1 else ""
        idx = strip_role(sub.role_of_operand(cs.args[1]))
        if "Range" in idx_ty and (self_ty.startswith("[") or self_ty == "str"):
            lo = None
            frm = None
            if idx[0] == "agg" and "RangeFrom" in idx[1]:
                frm = idx[2][0]
            elif idx[0] == "agg" and "RangeTo" in idx[1]:
                frm = idx[2][0]
            if frm is not None and frm[0] == "const":
                lo = const_int(frm[1])
            if lo is not None:
                if lo == 0:
                    return "range from 0"
                if lo == 1:
                    # `if let Some(tok) = classify(s.chars().next()?)` with classify matching ASCII literals only: the first char is 1 byte
                    for e, cond in C.conditions_at(sub, bi):
                        r_ = strip_role(cond[1]) if len(cond) > 1 else None
                        inner_ = strip_role(r_[1]) if isinstance(r_, tuple) and r_[0] == "discr" else r_
                        if isinstance(inner_, tuple) and inner_[0] == "call" and inner_[4] in sub.call_at and sub.call_at[inner_[4]].callee and sub.call_at[inner_[4]].callee.target in crate.bodies:
                            f_ = crate.bodies[sub.call_at[inner_[4]].callee.target]
                            cs_ = char_cases(f_) if f_.argc == 1 else set()
                            arg_ = inner_[3][0] if inner_[3] else None
                            if cs_ and all(ord(ch) < 128 for ch in cs_) and arg_ is not None and role_mentions_call(arg_, "chars") and role_mentions_call(arg_, "next") \
                                    and e in C.variant_edges(sub, e[1], 1):
                                src_ = [x for x in role_walk(arg_) if isinstance(x, tuple) and x[0] == "call" and x[1] == "chars"]
                                if src_ and strip_role(src_[0][3][0]) == strip_role(sub.role_of_operand(cs.args[0])):
                                    return "the first char of the same string was classified as one of the ASCII delimiters %s (1 byte)" % sorted(cs_)
                for e, role, truth in sub.guards_dominating(bi):
                    r = strip_role(role)
                    sb = e[1]
                    # Some-edge of slice.get(k), k >= lo-1
                    if r[0] == "discr":
                        inner = strip_role(r[1])
                        via_try = False
                        if inner[0] == "call" and inner[1] == "branch" and inner[3]:
                            inner = strip_role(inner[3][0])      # the `?` operator: Continue edge == Some
                            via_try = True
                        if inner[0] == "call" and inner[1] == "get" and len(inner[3]) == 2 and inner[3][1][0] == "const" and const_int(inner[3][1][1]) is not None:
                            k = const_int(inner[3][1][1])
                            if k + 1 >= lo and e in C.variant_edges(sub, sb, 0 if via_try else 1):
                                g = sub.call_at.get(inner[4])
                                if g is not None and sub.same_value(g.args[0], [e], cs.args[0], bi):
                                    return "guarded by Some-edge of get(%d) on the same slice" % k
                    # starts_with(literal) true edge
                    if r[0] == "call" and r[1] == "starts_with" and truth is True and len(r[3]) == 2 and r[3][1][0] == "const":
                        ll = lit_len(r[3][1][1])
                        g = sub.call_at.get(r[4])
                        if ll is not None and ll == lo and g is not None and sub.same_value(g.args[0], [e], cs.args[0], bi):
                            return "guarded by starts_with(%s) (%d byte(s), a char boundary) on the same string" % (r[3][1][1], ll)
                return None
            # bound is the parameter of a closure mapped over 0..=len(x) of the same slice x (generated from_syntax)
            if frm is not None and frm[0] == "param" and sub.kind == "Closure" and sub.creation is not None and frm[1] != "_closure":
                parent, cbb, csi, ops = sub.creation
                cl_local = parent.blocks[cbb]["stmts"][csi]["lhs"]["l"]
                # which captured variable is indexed?
                ipl = mir.op_place(cs.args[0])
                root = sub.root_local(cs.args[0])
                upi = None
                if root is not None and root[0] == 1:
                    for sg in root[1]:
                        if isinstance(sg, str) and sg.startswith("upvar#"):
                            upi = int(sg.split("#")[1])
                if upi is not None and upi < len(ops):
                    for c2 in parent.calls:
                        if c2.callee and c2.callee.name in ("filter_map", "map", "find_map", "for_each", "filter", "flat_map") and len(c2.args) == 2:
                            pl2 = mir.op_place(c2.args[1])
                            if pl2 is None or pl2["l"] != cl_local:
                                continue
                            rng = strip_role(parent.role_of_operand(c2.args[0]))
                            lens = [x for x in role_walk(rng) if isinstance(x, tuple) and x[0] == "call" and x[1] == "len"]
                            isrange = (rng[0] == "call" and rng[1] == "new" and "RangeInclusive" in (rng[2] or "")) or (rng[0] == "agg" and "Range" in str(rng[1]))
                            if isrange and len(lens) == 1:
                                lc = parent.call_at.get(lens[0][4])
                                if lc is not None and parent.same_value(lc.args[0], parent.after(lc.bb), ops[upi], cbb):
                                    return "bound ranges over 0..=len(x) of the same slice x (closure parameter of %s)" % c2.callee.name
            # index derived from char_indices of the same string
            if frm is not None and role_mentions_call(frm, "char_indices"):
                ci = [x for x in role_walk(frm) if isinstance(x, tuple) and x[0] == "call" and x[1] == "char_indices"]
                if ci and strip_role(ci[0][3][0]) == strip_role(sub.role_of_operand(cs.args[0])):
                    # the index is component .0 of a char_indices item and the string is not reassigned in between (it is a parameter)
                    if strip_role(sub.role_of_operand(cs.args[0]))[0] == "param":
                        return "index is a char_indices() offset of the same (parameter) string"
            return None
        return None
    if kind in ("split_at", "split_at_mut") and cs is not None and len(cs.args) == 2:
        # s.split_at(i) with i = s.find(..).unwrap_or(s.len()) / a char_indices offset / s.len() of the SAME string: a char boundary within bounds
        recv = strip_role(sub.role_of_operand(cs.args[0]))
        idx = strip_role(sub.role_of_operand(cs.args[1]))

        def boundary_of(r, depth=0):
            r = strip_role(r)
            if not isinstance(r, tuple) or depth > 6:
                return False
            if r[0] == "call" and r[1] in ("find", "rfind", "len") and r[3] and strip_role(r[3][0]) == recv:
                return True
            if r[0] == "call" and r[1] in ("unwrap_or", "unwrap_or_else", "unwrap_or_default") and r[3]:
                alt_ok = len(r[3]) < 2 or boundary_of(r[3][1], depth + 1) or (isinstance(strip_role(r[3][1]), tuple) and strip_role(r[3][1])[0] == "const" and const_int(strip_role(r[3][1])[1]) == 0)
                return boundary_of(r[3][0], depth + 1) and alt_ok
            if r[0] == "call" and r[1] == "map_or" and len(r[3]) >= 3:
                # `find(..).map_or(s.len(), |(i, _)| i)`: the offset component of the found item, or the length
                cl_ = strip_role(r[3][2])
                cb_ = crate.bodies.get(cl_[1]) if isinstance(cl_, tuple) and cl_[0] == "agg" else None
                if cb_ is None:
                    return False
                rr_ = strip_role(cb_.role_of_local(0))
                comp0 = isinstance(rr_, tuple) and rr_[0] == "field" and rr_[2] == "0" and isinstance(rr_[1], tuple) and rr_[1][0] == "param"
                return comp0 and boundary_of(r[3][0], depth + 1) and boundary_of(r[3][1], depth + 1)
            if r[0] in ("variant", "field"):
                return boundary_of(r[1], depth + 1)
            if r[0] == "phi":
                return all(boundary_of(x, depth + 1) for x in r[1])
            if r[0] == "call" and r[1] == "char_indices":
                return r[3] and strip_role(r[3][0]) == recv
            if r[0] == "call" and r[1] in ("next", "find", "position") and r[3]:
                return boundary_of(r[3][0], depth + 1) if r[1] != "position" else False
            return False
        if recv[0] == "param" and boundary_of(idx):
            return "split index is a find()/char_indices()/len() offset of the same (parameter) string: a char boundary within bounds"
        return None
    if kind == "assert:bounds":
        ln, ix = t["aops"][0], t["aops"][1]
        ixr = sub.role_of_operand(ix)
        if ixr[0] == "const" and const_int(ixr[1]) is not None:
            k = const_int(ixr[1])
            lr = strip_role(sub.role_of_operand(ln))
            for e, cond in C.conditions_at(sub, bi):
                if cond[0] == "eq":
                    x, y = strip_role(cond[1]), strip_role(cond[2])
                    for a, b_ in ((x, y), (y, x)):
                        if b_[0] == "const" and role_mentions_call(a, "len") and const_int(b_[1]) is not None:
                            n = const_int(b_[1])
                            if k < n:
                                return "guarded by len() == %d" % n
        return None
    if kind.startswith("assert:overflow_shl"):
        ops = [sub.role_of_operand(o) for o in t["aops"]]
        if all(o[0] == "const" for o in ops):
            return "constant shift"
        return None
    if kind == "panic" and cs is not None:
        return None
    return None


@rule("L1", doc="panic audit of the parser")
def l1(ctx):
    crate = ctx.lib()
    es = entries(crate)
    reach = [crate.bodies[r] for r in crate.reachable_from([e.id for e in es]) if r in crate.bodies and crate.bodies[r].kind != "Closure"]
    ctx.roleset("parser-reachable", sorted(C.short(b.id) for b in reach))
    ctx.floor("functions reachable from the parse entry points", len(reach), 15)
    n = nd = 0
    slot_sites = 0
    ground_guard = None
    for b in reach:
        in_slot = (b.file or "").endswith("src/slot.rs")
        for sub, bi, kind, cs in panic_sites(crate, b):
            n += 1
            key = "%s:%s:%d" % (C.fkey(b), kind, sum(1 for s2, b2, k2, _ in panic_sites(crate, b) if k2 == kind and (s2.id, b2) < (sub.id, bi)))
            w = where_of(sub, bi)
            if in_slot and kind.startswith("assert:overflow") and not kind.endswith("shl"):
                slot_sites += 1
                continue     # discharged by the C17 interpreter below (O9)
            why = discharge(crate, sub, bi, kind, cs)
            if why is None and kind == "panic" and b.name == "pattern_to_re":
                # callers inside the parser must be guarded by is_ground on the same pattern
                okc = True
                callers = [x for x in reach if C.calls_to(crate, x, {b.id}) and x.id != b.id]
                for cal in callers:
                    for c in C.calls_to(crate, cal, {b.id}):
                        g = False
                        for e, role, truth in c.body.guards_dominating(c.bb):
                            r = strip_role(role)
                            if r[0] == "call" and r[1] == "is_ground" and truth is True:
                                gc = c.body.call_at.get(r[4])
                                if gc is not None and c.body.same_value(gc.args[0], [e], c.args[0], c.bb):
                                    g = True
                            if r[0] == "un" and r[1] == "Not" and truth is False:
                                rr = strip_role(r[2])
                                if rr[0] == "call" and rr[1] == "is_ground":
                                    gc = c.body.call_at.get(rr[4])
                                    if gc is not None and c.body.same_value(gc.args[0], [e], c.args[0], c.bb):
                                        g = True
                        okc = okc and g
                ig = crate.free_fn("is_ground")
                if len(ig) != 1:
                    # (moved into an impl block / another module: whatever non-closure function of the library bears the name)
                    ig = [x for x in crate.by_name.get("is_ground", []) if x.kind != "Closure" and (x.file or "").startswith("src/")]
                okg = False
                if len(ig) == 1:
                    g_ = ig[0]
                    falses = [d for d in g_.defs().get(0, []) if d["kind"] == "assign" and g_.role_of_rvalue(d["rv"]) == ("const", "false")]
                    alls = [c for c in g_.calls if c.callee and c.callee.name == "all"]
                    rec = any(x[0] == "fnconst" and str(x[1]).endswith("is_ground") for c in alls for a in c.args for x in role_walk(g_.role_of_operand(a)))
                    okg = len(falses) == 1 and bool(alls) and rec
                    if not okg:
                        # loop form: `let ENode(_, children) = p else { return false }; for c in children { if !c.is_ground() { return false } } true`
                        lps_ = C.iterator_loops(g_)
                        if len(lps_) == 1:
                            sb_, it_, none_e, some_e, _cs = lps_[0]
                            okl = True
                            seen_t = False
                            for d in g_.defs().get(0, []):
                                v_ = C.const_bool(d["rv"]) if d["kind"] == "assign" else None
                                if v_ is True:
                                    seen_t = True
                                    okl = okl and g_.dominated_by(d["bb"], none_e)        # `true` only once every child was examined
                                elif v_ is not False:
                                    okl = False                                             # (false is the safe answer anywhere)
                            recs = [c for c in g_.calls if c.callee and c.callee.target == g_.id and not g_.blocks[c.bb]["cleanup"] and c.bb in C.loop_body(g_, lps_[0])]
                            okl = okl and seen_t and len(recs) == 1 and g_.must_pass(some_e, [sb_], {recs[0].bb})
                            if okl:
                                # after a child that is not ground the loop is never continued
                                for swb in g_.switch_blocks():
                                    rr_ = strip_role(g_.role_of_operand(g_.blocks[swb]["term"]["discr"]))
                                    neg = isinstance(rr_, tuple) and rr_[0] == "un" and rr_[1] == "Not"
                                    if neg:
                                        rr_ = strip_role(rr_[2])
                                    if isinstance(rr_, tuple) and rr_[0] == "call" and len(rr_) > 4 and rr_[4] == recs[0].bb:
                                        bad_edges = C.variant_edges(g_, swb, 1 if neg else 0)
                                        okl = okl and bool(bad_edges) and sb_ not in g_.reach(bad_edges)
                                        okg = okl
                if okc and okg and callers:
                    why = "every parser caller is guarded by is_ground(pattern) (which is false for PVar/Subst and recurses over all children)"
            if why is not None:
                nd += 1
                ctx.ok("site:" + key, "%s at line %s: %s" % (kind, sub.blocks[bi]["term"].get("line"), why), w)
            else:
                detail = ""
                if cs is not None and cs.args:
                    detail = " on %s" % role_str(sub.role_of_operand(cs.args[0]))[:80]
                ctx.bad("site:" + key, "undischarged panic-capable site in the parser: %s%s in %s (line %s) — no guard idiom establishes that it cannot fire on arbitrary input text" % (
                    kind, detail, C.short(b.id), sub.blocks[bi]["term"].get("line")), w)
    ctx.extra["parser_panic_sites"] = {"total": n, "discharged_by_guard_idioms": nd, "slot_rs_overflow_sites_delegated_to_C17_O9": slot_sites}
    ctx.floor("panic-capable sites in the parser", n, 20)


@rule("L1s", doc="overflow obligations of slot.rs (reachable from every parser through `$name`) — C17.O9", once=True)
def l1s(ctx):
    c17.o2(ctx)


@rule("L1d", doc="panic audit of the generated from_syntax / to_syntax of every language in the test crate and of the LanguageChildren impls")
def l1d(ctx):
    lib = ctx.lib()
    tests = ctx.tests()
    n = 0
    bodies = []
    for b in tests.fns():
        if b.name in ("from_syntax", "to_syntax") and (b.impl_trait or "").split("::")[-1] == "Language":
            bodies.append((tests, b))
    nlang = len(bodies)
    ctx.floor("generated from_syntax/to_syntax bodies in the test crate", nlang, 8)
    for b in lib.fns():
        if b.name in ("from_syntax", "to_syntax") and (b.impl_trait or "").endswith("lang::LanguageChildren"):
            bodies.append((lib, b))
    ctx.floor("from_syntax/to_syntax bodies (7 languages x 2 + LanguageChildren impls)", len(bodies), 20)
    for crate, b in bodies:
        sites = panic_sites(crate, b)
        for sub, bi, kind, cs in sites:
            n += 1
            why = discharge(crate, sub, bi, kind, cs)
            key = "%s:%s:%d" % (C.fkey(b), kind, sum(1 for s2, b2, k2, _ in sites if k2 == kind and (s2.id, b2) < (sub.id, bi)))
            if why is None and b.name == "to_syntax":
                continue      # printing is not on the never-panic clause
            ctx.check(why is not None, "site:" + key, "%s in %s: %s" % (kind, C.short(b.id), why),
                      "undischarged panic-capable site %s in %s (line %s): reachable from every parser through Language::from_syntax" % (kind, C.short(b.id), sub.blocks[bi]["term"].get("line")), where_of(sub, bi))
    ctx.extra["from_syntax_panic_sites_%s" % ctx.cur_cfg] = n
    if n == 0:
        ctx.ok("no-sites", "the generated from_syntax bodies and the LanguageChildren impls contain no panic-capable site at all (they pattern-match slices)")


@rule("L2", doc="arity: a node is built only after the consumed syntax was compared with the node's own arity")
def l2(ctx):
    crate = ctx.lib()
    n = 0
    for b in crate.fns():
        if not (b.file or "").endswith("parse.rs"):
            continue
        for bi, si, s in b.statements():
            rv = s["rv"] if s["k"] == "assign" else None
            if rv and rv["k"] == "agg" and rv.get("adt") == "rewrite::pattern::Pattern" and rv.get("variant") == "ENode":
                node = b.role_of_operand(rv["ops"][0])
                if not role_mentions_call(node, "from_syntax"):
                    continue
                n += 1
                fs = [x for x in role_walk(node) if isinstance(x, tuple) and x[0] == "call" and x[1] == "from_syntax"][0]
                src = strip_role(fs[3][0])
                # a one-element literal array is arity-checked by construction if from_syntax returns a node whose to_syntax has length 1;
                # require the explicit comparison whenever the element list is built dynamically
                dynamic = not (src[0] == "agg" and src[1] == "array" and len(src[2]) == 1)
                ok = False
                for e, cond in C.conditions_at(b, bi):
                    if cond[0] == "eq":
                        x, y = cond[1], cond[2]
                        if (role_mentions_call(x, "to_syntax") and role_mentions_call(x, "len") and role_mentions_call(y, "len")) or (role_mentions_call(y, "to_syntax") and role_mentions_call(y, "len") and role_mentions_call(x, "len")):
                            ok = True
                if dynamic:
                    ctx.check(ok, "arity-checked:%s:%d" % (C.fkey(b), n), "Pattern::ENode is built only after len(node.to_syntax()) == len(consumed syntax elements)",
                              "%s builds Pattern::ENode from from_syntax(..) without comparing the node's arity with the number of syntax elements consumed: (app 1 2 3) parses to a binary node with three children" % C.short(b.id),
                              where_of(b, bi, s.get("line")))
                else:
                    ctx.ok("arity-atom:%s:%d" % (C.fkey(b), n), "atom: a single identifier is handed to from_syntax", where_of(b, bi, s.get("line")))
                # children = exactly the Pattern elements, in order
                ch = b.role_of_operand(rv["ops"][1])
                if dynamic:
                    ctx.check(role_mentions_call(ch, "filter_map") or role_mentions_call(ch, "collect"), "children-from-elements:%s:%d" % (C.fkey(b), n), "children are the nested patterns among the consumed elements, in order",
                              "the children of the node are %s" % role_str(ch)[:100], where_of(b, bi))
    ctx.floor("Pattern::ENode constructions from from_syntax", n, 2)


def templates(crate, b):
    out = []
    for sub in b.all_bodies():
        for c in sub.calls:
            if c.callee and c.callee.name == "new" and "Arguments" in (c.callee.impl_self or "") and not sub.blocks[c.bb]["cleanup"]:
                r = sub.role_of_operand(c.args[0])
                if r[0] == "const":
                    t = c17.decode_fmt("const " + r[1])
                    if t is not None:
                        out.append(t)
            if c.callee and c.callee.name == "from_str" and "Arguments" in (c.callee.impl_self or ""):
                r = sub.role_of_operand(c.args[0])
                if r[0] == "const":
                    m = re.match(r'^"(.*)"$', r[1])
                    if m:
                        out.append([m.group(1)])
            if c.callee and c.callee.name == "write_str" and c.args and len(c.args) > 1:
                r = sub.role_of_operand(c.args[1])
                if r[0] == "const":
                    m = re.match(r'^"(.*)"$', r[1])
                    if m:
                        out.append([m.group(1)])
    return out


def char_cases(b):
    """characters a function dispatches on with `match c { '(' => .., ')' => .. }` (switches whose discriminant is a char)"""
    out = set()
    for sb in b.switch_blocks():
        t = b.blocks[sb]["term"]
        pl = mir.op_place(t["discr"])
        if pl is None:
            continue
        ty = b.local_ty(pl["l"])
        if ty.replace("&", "").strip() != "char" and "char" not in role_str(b.role_of_operand(t["discr"])):
            r = strip_role(b.role_of_operand(t["discr"]))
            if not (isinstance(r, tuple) and r[0] == "param" and b.local_ty(b.param_index(r[1]) or 0).replace("&", "").strip() == "char"):
                continue
        for val, _ in t["cases"]:
            try:
                out.add(chr(int(val)))
            except Exception:
                pass
    return out


def char_table_helpers(crate, b):
    """private functions of parse.rs called from b that classify a single char by a match on literals: {fn id: chars}"""
    out = {}
    for c in b.all_calls():
        if c.callee and c.callee.target in crate.bodies:
            f = crate.bodies[c.callee.target]
            if (f.file or "").endswith("parse.rs") and f.argc == 1 and f.local_ty(1).replace("&", "").strip() == "char":
                cs = char_cases(f)
                if cs:
                    out[f.id] = cs
    return out



@rule("L3", doc="printer / tokenizer literal agreement", once=True)
def l3(ctx):
    crate = ctx.lib("default")
    # what the tokenizer dispatches on
    tk = crate.free_fn("tokenize")
    if len(tk) != 1:
        raise mir.AnchorMissing("parse::tokenize")
    t = mir.inline_view(crate, tk[0], keep=("crop_ident", "named", "ident_char"))       # (the per-token part may live in a `next_token` helper)
    tok_lits = set()
    for c in t.calls:
        if c.callee and c.callee.name in ("starts_with", "strip_prefix", "split_once", "eq") and len(c.args) > 1 and c.args[1]["k"] == "const" and "text" in c.args[1]:
            tok_lits.add(re.sub(r"^['\"]|['\"]$", "", c.args[1]["text"]))
    raws = [tk[0]] + [crate.bodies[c.callee.target] for c in tk[0].all_calls() if c.callee and c.callee.target in crate.bodies and (crate.bodies[c.callee.target].file or "").endswith("parse.rs")]
    for b_ in [t] + raws:            # (the view has the small helpers inlined: look for the table helper from the raw bodies as well)
        for cs_ in char_table_helpers(crate, b_).values():
            tok_lits |= cs_              # single-character delimiters classified by a table helper
    ctx.check(tok_lits >= {"(", ")", "[", "]", ":=", "?", "$"}, "tokenizer-literals", "the tokenizer dispatches on %s" % sorted(tok_lits), "the tokenizer no longer dispatches on all of ( ) [ ] := ? $ (has %s)" % sorted(tok_lits), where_of(t))
    mp = [b for b in crate.by_name.get("parse", []) if "MultiPattern" in (b.impl_self or "") and (b.file or "").endswith("parse.rs")]
    mp_lits = set()
    for b0 in mp:
        b = mir.inline_view(crate, b0)        # the per-equation part may be a helper
        for c in b.calls:
            if c.callee and c.callee.name in ("split", "split_once", "splitn") and c.args[-1]["k"] == "const" and not b.blocks[c.bb]["cleanup"]:
                mp_lits.add(re.sub(r"^['\"]|['\"]$", "", c.args[-1]["text"]))
                continue
            if c.callee and c.callee.name == "split" and c.args[1]["k"] == "const":
                mp_lits.add(re.sub(r"^['\"]|['\"]$", "", c.args[1]["text"]))
    ctx.check(mp_lits == {",", "=="}, "multipattern-separators", "MultiPattern::parse splits on %s" % sorted(mp_lits), "MultiPattern::parse splits on %s, expected ',' and '=='" % sorted(mp_lits))
    # identifier characters: everything except whitespace and ()[]
    ic = crate.free_fn("ident_char")
    if len(ic) == 1:
        b = ic[0]
        ws = any(c.callee and c.callee.name == "is_whitespace" for c in b.calls)
        cont = [c for c in b.calls if c.callee and c.callee.name == "contains" and b.role_of_operand(c.args[0])[0] == "const"]
        chars = set(re.sub(r'^"|"$', "", b.role_of_operand(cont[0].args[0])[1])) if cont else set()
        if not cont:
            for cs_ in char_table_helpers(crate, b).values():
                chars |= cs_
        ctx.check(ws and chars == set("()[]"), "ident-chars", "identifier characters exclude exactly whitespace and ( ) [ ]", "ident_char excludes whitespace=%s and %s" % (ws, sorted(chars)), where_of(b))
    # what the printers write
    disp = {}
    for b in crate.fns():
        if b.name == "fmt" and (b.impl_trait or "").endswith("fmt::Display") and (b.file or "").endswith("parse.rs"):
            disp[b.impl_self] = templates(crate, mir.inline_view(crate, b))       # an arm may have been split off into a helper
    ctx.floor("Display impls in parse.rs", len(disp), 2)
    pat = [v for k, v in disp.items() if "pattern::Pattern" in k]
    mpd = [v for k, v in disp.items() if "MultiPattern" in k]
    if pat:
        lits = {p for t_ in pat[0] for p in t_ if p != "{}"}
        ctx.info("Pattern printer templates: %s" % pat[0])
        want = {"(", ")", " ", "?"}
        ctx.check(want <= lits, "pattern-printer-literals", "the pattern printer writes ( ) space and ?", "the pattern printer writes %s" % sorted(lits))
        subst = [t_ for t_ in pat[0] if "[" in "".join(t_)]
        ok = any(t_ == ["{}", "[", "{}", " := ", "{}", "]"] for t_ in subst)
        ctx.check(ok, "subst-template", "substitution patterns print as {b}[{x} := {t}] — the tokens [ := ] the parser expects", "substitution patterns print with templates %s" % subst)
        extra = {p.strip() for p in lits if p.strip()} - {"(", ")", "?", "[", "]", ":="}
        ctx.check(not extra, "pattern-printer-no-foreign-literal", "every structural literal the pattern printer writes is a token of the tokenizer", "the pattern printer writes %s which the tokenizer does not treat as structure" % sorted(extra))
    if mpd:
        lits = {p for t_ in mpd[0] for p in t_ if p != "{}"}
        ws_ = {x for p in lits for x in re.split(r"\s+|(?<=\?)|(?=\?)", p) if x}
        ctx.check({"==", ","} <= ws_ <= {"==", ",", "?"}, "multipattern-printer-literals", "the multi-pattern printer writes == and , — the separators its parser splits on", "the multi-pattern printer writes %s" % sorted(lits))
    # RecExpr prints through re_to_pattern
    re_disp = [b for b in crate.fns() if b.name == "fmt" and (b.impl_trait or "").endswith("fmt::Display") and "RecExpr" in (b.impl_self or "")]
    ok = bool(re_disp) and any(c.callee and c.callee.name == "re_to_pattern" for c in re_disp[0].calls)
    ctx.check(ok, "recexpr-prints-as-pattern", "a term prints through re_to_pattern (same printer as patterns)", "Display for RecExpr no longer goes through re_to_pattern")


@rule("L4", doc="pattern_to_re / re_to_pattern are structural mirrors", once=True)
def l4(ctx):
    crate = ctx.lib("default")
    p2r = crate.free_fn("pattern_to_re")
    r2p = crate.free_fn("re_to_pattern")
    if len(p2r) != 1 or len(r2p) != 1:
        raise mir.AnchorMissing("pattern_to_re / re_to_pattern")
    a, b = p2r[0], r2p[0]
    # RecExpr{node: clone(n), children: map(children, pattern_to_re)}
    for fn_, adt, nodef, chf in ((a, "types::RecExpr", "node", "children"), (b, "rewrite::pattern::Pattern", None, None)):
        aggs = [(bi, s["rv"]) for bi, si, s in fn_.statements() if s["k"] == "assign" and s["rv"]["k"] == "agg" and s["rv"].get("adt") == adt]
        ctx.check(len(aggs) == 1, "one-construction:" + fn_.name, "%s builds one %s" % (fn_.name, adt), "%s builds %d values of %s" % (fn_.name, len(aggs), adt), where_of(fn_))
        for bi, rv in aggs:
            ops = [fn_.role_of_operand(o) for o in rv["ops"]]
            rec = any(C.role_calls_deep(crate, o, fn_.name) for o in ops)
            cl = any(role_mentions_call(o, "clone") for o in ops)
            ctx.check(rec and cl, "node-and-children:" + fn_.name, "%s copies the node and maps itself over the children in order" % fn_.name, "%s no longer copies the node and recurses over all children" % fn_.name, where_of(fn_, bi))
            bad = any(isinstance(x, tuple) and x[0] == "call" and x[1] in ("rev", "filter", "skip", "take") for o in ops for x in role_walk(o))
            ctx.check(not bad, "children-order:" + fn_.name, "children keep their order", "%s reorders or drops children" % fn_.name, where_of(fn_, bi))


RULES = [l1, l1s, l1d, l2, l3, l4]


@rule("L5", doc="the parser accepts in every position of `b[x := t]` what the printer can print there: all three parts come from the substitution-level pattern parser")
def l5(ctx):
    crate = ctx.lib()
    SUB = "rewrite::pattern::Pattern"
    makers = []
    for b in crate.fns():
        if not (b.file or "").endswith("parse.rs"):
            continue
        for bi, si, s in b.statements():
            if s["k"] == "assign" and s["rv"]["k"] == "agg" and s["rv"].get("adt") == SUB and s["rv"].get("variant") == "Subst":
                makers.append(b)
                break
    C.need("function of parse.rs that builds Pattern::Subst", [b.id for b in makers])
    top = {b.id for b in makers}
    n = 0
    for b0 in makers:
        b = mir.inline_view(crate, b0)
        for bi, si, s in b.statements():
            if not (s["k"] == "assign" and s["rv"]["k"] == "agg" and s["rv"].get("adt") == SUB and s["rv"].get("variant") == "Subst"):
                continue
            n += 1
            ops = s["rv"]["ops"]
            for idx, what in ((1, "the substituted pattern x"), (2, "the replacement t")):
                r = b.role_of_operand(ops[idx])
                # the outermost parser call that produces the value (calls inside its token-cursor argument do not count)
                parsers = set()

                def producer(x, depth=0):
                    x = strip_role(x)
                    if not isinstance(x, tuple) or depth > 20:
                        return
                    if x[0] == "call":
                        cs = b.call_at.get(x[4])
                        tgt = cs.callee.target if cs is not None and cs.callee else None
                        if tgt in crate.bodies and (crate.bodies[tgt].file or "").endswith("parse.rs") and "Pattern" in crate.bodies[tgt].local_ty(0):
                            parsers.add(tgt)
                            return
                        if x[3]:
                            producer(x[3][0], depth + 1)
                    elif x[0] in ("field", "variant", "index"):
                        producer(x[1], depth + 1)
                    elif x[0] == "phi":
                        for y in x[1]:
                            producer(y, depth + 1)
                    elif x[0] == "agg" and x[2]:
                        producer(x[2][0], depth + 1)
                producer(r)
                ok = bool(parsers) and parsers <= top
                ctx.check(ok, "subst-part-from-full-parser:%d" % idx, "%s of b[x := t] is parsed by the substitution-level parser (%s)" % (what, sorted(C.short(p) for p in parsers)),
                          "%s of `b[x := t]` is parsed by %s, which cannot produce a substitution pattern, while Display prints any pattern there: `?b[?x[?y := ?z] := ?t]` is printed and then rejected by the parser (print/parse round-trip broken for well-formed patterns)" % (what, sorted(C.short(p) for p in parsers)),
                          where_of(b, bi, s.get("line")))
    ctx.floor("Pattern::Subst constructions in parse.rs", n, 1)
    # postfix brackets chain: the printer writes `b[x := t]` for ANY b, a substitution included (`?b[..][..]`), so after one
    # bracket group was folded into a Pattern::Subst the parser has to look for the next one — the construction lies on a cycle
    # of the control flow that leads back to the test for an opening bracket
    for b0 in makers:
        b = mir.inline_view(crate, b0)
        for bi, si, s in b.statements():
            if not (s["k"] == "assign" and s["rv"]["k"] == "agg" and s["rv"].get("adt") == SUB and s["rv"].get("variant") == "Subst"):
                continue
            again = bi in b.reach(b.succs(bi)) if hasattr(b, "succs") else None
            if again is None:
                nxt = []
                t = b.blocks[bi]["term"]
                if t["k"] == "goto":
                    nxt = [t["target"]]
                elif t["k"] == "call" and t.get("target") is not None:
                    nxt = [t["target"]]
                elif t["k"] == "switch":
                    nxt = [x for _, x in t["cases"]] + [t["otherwise"]]
                again = bi in b.reach(nxt)
            ctx.check(again, "subst-brackets-chain:" + C.fkey(b0), "after folding one `[x := t]` group the parser looks for a further one (loop)",
                      "%s folds at most one `[x := t]` group behind a pattern: the text `?b[?x := ?t][?y := ?u]`, which Display prints for a substitution applied to a substitution, is no longer accepted (print/parse round-trip broken for well-formed patterns)" % C.short(b0.id),
                      where_of(b, bi, s.get("line")))


RULES.append(l5)


@rule("L6", doc="a multi-pattern prints every variable with its `?`: a raw name reaches the text only behind a literal `?` or through the pattern printer", once=True)
def l6(ctx):
    crate = ctx.lib("default")
    fmts = [b for b in crate.fns() if b.name == "fmt" and (b.impl_trait or "").endswith("fmt::Display") and "MultiPattern" in (b.impl_self or "")]
    C.need("Display for MultiPattern", [b.id for b in fmts])
    n = 0
    for b0 in fmts:
        b = mir.inline_view(crate, b0)
        for sub in b.all_bodies():
            for c in sub.calls:
                if sub.blocks[c.bb]["cleanup"] or not (c.callee and c.callee.name == "new" and "Arguments" in (c.callee.impl_self or "")):
                    continue
                r = sub.role_of_operand(c.args[0])
                t = c17.decode_fmt("const " + r[1]) if r[0] == "const" else None
                if t is None:
                    continue
                # the displayed values, in order: the `Argument::new_*` calls that feed this Arguments::new
                ra = strip_role(sub.role_of_operand(c.args[1]))
                holes = []
                for x in role_walk(ra):
                    if isinstance(x, tuple) and x[0] == "call" and x[1].startswith("new_") and len(x) > 4:
                        cs = sub.call_at.get(x[4]) if isinstance(sub.call_at, dict) else sub.call_at[x[4]]
                        pl = mir.op_place(cs.args[0]) if cs is not None and cs.args else None
                        holes.append(sub.local_ty(pl["l"]) if pl else "?")
                if holes and len(holes) != t.count("{}"):
                    ctx.info("template %s: %d holes but %d displayed values recognised; skipped" % (t, t.count("{}"), len(holes)))
                    continue
                k = 0
                prev = ""
                for piece in t:
                    if piece != "{}":
                        prev = piece
                        continue
                    ty = holes[k] if k < len(holes) else "?"
                    k += 1
                    bare = ty.replace("&", "").strip()
                    if bare in ("std::string::String", "str") or bare.endswith("::PVar"):
                        n += 1
                        ctx.check(prev.endswith("?"), "variable-sigil:%d" % n, "the name in template %s is written behind a literal `?`" % t,
                                  "Display for MultiPattern writes a variable name (a %s) without the `?` its parser requires (template %s): the printed text is rejected by MultiPattern::parse, or read as a constant" % (bare.split("::")[-1], t), where_of(sub, c.bb))
                    elif "pattern::Pattern" in bare:
                        n += 1
                        ctx.ok("pattern-hole:%d" % n, "a Pattern value is written by the pattern printer (variables print as ?name)")
                    prev = ""
    ctx.floor("displayed values in the multi-pattern printer", n, 2)


RULES.append(l6)


@rule("MC", doc="must-call census: no function of this property's files has gained an early exit in front of work it always did (every crate-local call that lay on all paths to a normal return in the reviewed tree still does)")
def mc(ctx):
    C.must_call_census(ctx, ctx.lib(), ['src/parse.rs', 'src/lang.rs', 'src/rewrite/pattern.rs'])


RULES.append(mc)


@rule("L7", doc="the printers' separator arithmetic cannot underflow: `len(x) - 1` is evaluated only inside the loop over x (where x is non-empty), so an empty multi-pattern / a node without elements prints instead of panicking")
def l7(ctx):
    crate = ctx.lib()
    n = 0
    for b0 in crate.fns():
        if not (b0.name == "fmt" and (b0.impl_trait or "").endswith("fmt::Display") and (b0.file or "").endswith("parse.rs")):
            continue
        b = mir.inline_view(crate, b0)
        loops = C.iterator_loops(b)
        for bi, blk in enumerate(b.blocks):
            t = blk["term"]
            if blk["cleanup"] or t["k"] != "assert" or "overflow_sub" not in str(t.get("akind")):
                continue
            # the checked subtraction feeding this assert
            subs = [s for s in blk["stmts"] if s["k"] == "assign" and s["rv"]["k"] == "bin" and s["rv"].get("op") == "SubWithOverflow"]
            if not subs:
                continue
            n += 1
            a = strip_role(b.role_of_operand(subs[-1]["rv"]["a"]))
            c_ = strip_role(b.role_of_operand(subs[-1]["rv"]["b"]))
            ok = False
            why = "not of the form len(x) - 1"
            if isinstance(a, tuple) and a[0] == "call" and a[1] == "len" and a[3] and c_[0] == "const" and str(c_[1]).startswith("1_"):
                x = role_str(strip_role(a[3][0]), 6)
                why = "len(%s) - 1 is evaluated outside every loop over %s" % (x, x)
                for lp in loops:
                    sb_, it, none_e, some_e, cs_ = lp
                    inside = bi in b.reach(some_e, avoid=none_e) and b.dominated_by(bi, some_e)
                    if inside and x in role_str(it, 12):
                        ok = True
            ctx.check(ok, "separator-arithmetic-in-loop:%s:%d" % (C.fkey(b0), n), "%s computes len - 1 only while it iterates the (non-empty) collection" % C.short(b0.id),
                      "%s can underflow: %s — printing an empty value (the multi-pattern parsed from \"\", a node without syntax elements) panics with 'attempt to subtract with overflow' instead of producing text that parses back" % (C.short(b0.id), why),
                      where_of(b, bi))
    # ... and the separator is written between elements, not after the last one only: where the loop index is compared with
    # len - 1, text is written on the `index != len - 1` side and nothing on the other (a separator after the single / last element,
    # or none between the others, does not parse back)
    for b0 in crate.fns():
        if not (b0.name == "fmt" and (b0.impl_trait or "").endswith("fmt::Display") and (b0.file or "").endswith("parse.rs")):
            continue
        b = mir.inline_view(crate, b0)
        for lp in C.iterator_loops(b):
            sb_, it, none_e, some_e, cs_ = lp
            body = b.reach(some_e, avoid=none_e)
            for sb in b.switch_blocks():
                if sb not in body:
                    continue
                t = b.blocks[sb]["term"]
                r = strip_role(b.role_of_operand(t["discr"]))
                if not (isinstance(r, tuple) and r[0] == "bin" and r[1] in ("Ne", "Eq")):
                    continue
                sides = [strip_role(r[2]), strip_role(r[3])]
                if not any(isinstance(x, tuple) and x[0] == "bin" and x[1].startswith("Sub") and role_mentions_call(x, "len") for sd in sides for x in role_walk(sd)):
                    continue
                zero = [("e", sb, v) for v, _ in t["cases"] if v == "0"]
                other = [("e", sb, "otherwise")]
                last_e, more_e = (zero, other) if r[1] == "Ne" else (other, zero)       # Ne is false (0) on the last element
                def writes(edges):
                    reg = b.reach(edges, avoid=[sb_])
                    return [c for c in b.calls if c.bb in reg and c.callee and c.callee.name in ("write_fmt", "write_str", "write_char", "fmt") and not b.blocks[c.bb]["cleanup"]]
                ctx.check(bool(writes(more_e)) and not writes(last_e), "separator-between-elements:" + C.fkey(b0), "%s writes the separator after every element but the last" % C.short(b0.id),
                          "%s writes its separator on the wrong side of the `index != len - 1` test (text after the last element: %s, after the others: %s): the printed list does not parse back" % (C.short(b0.id), bool(writes(last_e)), bool(writes(more_e))),
                          where_of(b, sb))
    # (no floor: a printer without any subtraction has nothing to underflow)
    ctx.info("checked subtractions in the printers: %d" % n)
    if n == 0:
        ctx.ok("separator-arithmetic-in-loop:none", "the printers contain no checked subtraction")
    fm = [b0 for b0 in crate.fns() if b0.name == "fmt" and (b0.impl_trait or "").endswith("fmt::Display") and (b0.file or "").endswith("parse.rs")]
    ctx.floor("printers in parse.rs", len(fm), 2)


RULES.append(l7)


@rule("L8", doc="a payload the printer can print reads back: from_syntax of the payload types puts no condition on the text in front of parse() (C16.D7)", once=True)
def l8(ctx):
    from . import c16
    c16.d7(ctx)


RULES.append(l8)


@rule("L9", doc="`$name` / `?name` read back as printed: the tokenizer removes exactly the one sigil character in front of a slot or variable name (`$` and `?` are identifier characters after the first position, and Display prints the name verbatim behind one sigil) — C17.O7 sigil-dropped-exactly-once", once=True)
def l9(ctx):
    from . import c17
    crate = ctx.lib("default")
    tk = [b for b in crate.free_fn("tokenize") if (b.file or "").endswith("parse.rs")]
    if len(tk) != 1:
        raise mir.AnchorMissing("parse::tokenize")
    c17.sigil_dropped_once(ctx, mir.inline_view(crate, tk[0], keep=("named", "crop_ident")))


RULES.append(l9)


@rule("L10", doc="every pattern position accepts the substitution suffix: parse_pattern_nosubst — the parser WITHOUT the `[x := t]` loop — is reached from parse_pattern only (a who-may-call rule: an argument position or multi-pattern side parsed by it directly cannot read back `nil[(var $x) := ?t]`, which the printer writes for a substitution on a leaf)", once=True)
def l10(ctx):
    crate = ctx.lib("default")
    ns = [b for b in crate.free_fn("parse_pattern_nosubst") if (b.file or "").endswith("parse.rs")]
    if not ns:
        ctx.ok("nosubst-only-from-parse-pattern:absent", "there is no separate suffix-less pattern parser")
        return
    known = C._anchor_names(crate)
    ids = {b.id for b in ns}
    def callers_of(target_ids):
        out = []
        for b in crate.bodies.values():
            for c in b.calls:
                if c.callee and c.callee.target in target_ids and not b.blocks[c.bb]["cleanup"]:
                    out.append((crate.root_of(b), b, c))
        return out
    n = 0
    for root, b, c in callers_of(ids):
        n += 1
        ok = root.name in ("parse_pattern", "parse_pattern_nosubst")
        if not ok and root.name not in known:
            # a new private helper: fine if it is itself only used by parse_pattern
            cs = callers_of({root.id})
            ok = bool(cs) and all(r2.name in ("parse_pattern", "parse_pattern_nosubst") or r2.id == root.id for r2, _, _ in cs)
        ctx.check(ok, "nosubst-only-from-parse-pattern:" + (root.name or "?"), "parse_pattern_nosubst is called from %s" % root.name,
                  "%s calls parse_pattern_nosubst directly: what it parses there cannot carry a `[x := t]` suffix, although the printer writes one for a substitution pattern in that position — printing and parsing back fails with a ParseError" % C.short(root.id),
                  where_of(b, c.bb))
    ctx.floor("call sites of parse_pattern_nosubst", n, 1)


RULES.append(l10)

"""C15 — saturation and stop reasons are reported truthfully (structural necessary conditions)."""
from salib import mir
from salib.mir import role_str, role_walk, strip_role, role_mentions_field, role_mentions_call, role_mentions_param
from salib.runner import rule, where_of
from . import common as C
from . import c13

META = {
    "level": "other",
    "explanation": "S1: apply_rewrites returns the comparison of a progress measure taken before any searcher or applier runs with one taken "
                   "after all of them; S2: the measure's equality is the derived one over all four fields, each computed from its source "
                   "(C13.T3); S3: every construction of a StopReason variant sits under its own condition (iteration counter vs. limit with "
                   "the counter on the greater side, node count vs. node limit, elapsed vs. time limit, Saturated only when this iteration's "
                   "apply_rewrites returned false, Other only from the hook's error); S4: hooks and limits are consulted on every iteration "
                   "and the loop ends only with a stop reason; S5: the report's node count is total_number_of_nodes() read after the loop.",
    "not_decided": "'measure unchanged => nothing observable changed' is argued (every e-node insertion allocates a class; every union lowers "
                   "live classes or slots or raises symmetries), not decided",
    "assumptions": ["Result::and_then calls its closure iff the receiver is Ok"],
}


def iteration_view(crate):
    """Runner::run_one with its single-use helpers (limit wrappers, a split-off stop check) inlined"""
    ro = crate.method("run::runner::Runner", "run_one")
    if len(ro) != 1:
        raise mir.AnchorMissing("Runner::run_one")
    return mir.inline_view(crate, ro[0], keep=("apply_rewrites", "check_limits"))


def reason_sites(crate):
    out = []
    view = iteration_view(crate)
    skip = set(getattr(view, "inlined", []))
    bodies = [b for b in crate.bodies.values() if b.id not in skip and b.id != view.id] + [view]
    for b in bodies:
        if not (b.file or "").startswith("src/run/"):
            continue
        for bi, si, s in b.statements():
            rv = s["rv"] if s["k"] == "assign" else None
            if rv and rv["k"] == "agg" and rv.get("adt") == "run::report::StopReason" and not crate.root_of(b).auto_derived:
                out.append((crate.root_of(b), b, bi, s, rv["variant"], rv))
    return out


@rule("S1", doc="apply_rewrites returns before != after, with `before` ahead of every searcher/applier and `after` behind all of them")
def s1(ctx):
    crate = ctx.lib()
    bs = crate.free_fn("apply_rewrites")
    if len(bs) != 1:
        raise mir.AnchorMissing("apply_rewrites")
    b = bs[0]
    prog = [c for c in b.calls if c.callee and c.callee.name == "progress" and not b.blocks[c.bb]["cleanup"]]
    if not ctx.floor("progress() calls in apply_rewrites", len(prog), 2):
        return
    r = strip_role(b.role_of_local(0))
    ok = isinstance(r, tuple) and r[0] == "call" and r[1] in ("ne", "eq") and len(r[3]) == 2
    sites = set()
    if ok:
        for a in r[3]:
            a = strip_role(a)
            if a[0] == "call" and a[1] == "progress":
                sites.add(a[4])
    ctx.check(ok and len(sites) == 2 and r[1] == "ne", "returns-before-ne-after", "apply_rewrites returns progress_before != progress_after (two distinct measurements)",
              "apply_rewrites returns %s: it must compare two different progress measurements with !=" % role_str(r), where_of(b))
    if len(sites) != 2:
        return
    first, last = sorted(sites, key=lambda bb: 0 if b.dominated_by(max(sites), [bb]) and bb != max(sites) else 1)[0], None
    before = [s for s in sites if all(b.dominated_by(o, [s]) for o in sites if o != s)]
    if not before:
        ctx.bad("measurement-order", "neither progress measurement dominates the other", where_of(b))
        return
    before = before[0]
    after = [s for s in sites if s != before][0]
    # every indirect call (searcher / applier), also inside closures created here
    ind = []
    for sub in b.all_bodies():
        for c in sub.calls:
            if sub.blocks[c.bb]["cleanup"]:
                continue
            isind = c.callee is None or (c.callee.name in ("call", "call_mut", "call_once") and (c.callee.trait or "").startswith("std::ops::Fn"))
            if isind:
                what = role_str(sub.role_of_operand(c.args[0])) if c.args else "?"
                # a callee that only receives `&EGraph` cannot change anything observable: no ordering obligation against `before`
                tys = [sub.local_ty((mir.op_place(a) or {}).get("l")) for a in c.args[1:] if mir.op_place(a)]
                if tys and all("&mut" not in t for t in tys):
                    what += " (read-only)"
                if sub is b:
                    ind.append((c.bb, what))
                else:
                    top = sub
                    while top.parent_body is not None and top.parent_body is not b:
                        top = top.parent_body
                    # the closure runs where it is consumed: every call in b that receives it
                    cl_local = b.blocks[top.creation[1]]["stmts"][top.creation[2]]["lhs"]["l"]
                    used = [x.bb for x in b.calls if any((mir.op_place(a) or {}).get("l") == cl_local for a in x.args)]
                    lazy = [x for x in b.calls if x.callee and x.callee.name in ("map", "filter", "filter_map", "flat_map") and x.bb in used]
                    consume = [x.bb for x in b.calls if x.callee and x.callee.name in ("collect", "for_each", "count", "sum", "fold", "last", "extend")]
                    for u in used:
                        ind.append((u, what))
                    if lazy:
                        for cb in consume:
                            ind.append((cb, what + " (consumed)"))
    # the search / apply phases may live in private helpers (`search_rewrites(&eg, rules)`, `apply_found(&mut eg, rules, found)`):
    # a call of a library function that itself invokes a stored searcher / applier is an invocation site, mutating iff it gets
    # the e-graph mutably; the applier loop is then looked for inside the helper
    def invokes_stored_fn(f, depth=0):
        for sub2 in f.all_bodies():
            for c2 in sub2.calls:
                if sub2.blocks[c2.bb]["cleanup"]:
                    continue
                if c2.callee is None or (c2.callee.name in ("call", "call_mut", "call_once") and (c2.callee.trait or "").startswith("std::ops::Fn")):
                    return True
                if depth < 2 and c2.callee.target in crate.bodies and crate.bodies[c2.callee.target].kind != "Closure" and invokes_stored_fn(crate.bodies[c2.callee.target], depth + 1):
                    return True
        return False
    helper_loops = []
    for c in b.calls:
        if b.blocks[c.bb]["cleanup"] or not c.callee or c.callee.target not in crate.bodies:
            continue
        hb = crate.bodies[c.callee.target]
        if hb.kind == "Closure" or hb.id == b.id or not invokes_stored_fn(hb):
            continue
        mut = any(hb.local_ty(l).startswith("&mut") for l in range(1, hb.argc + 1))
        ind.append((c.bb, "%s(..)%s" % (hb.name, "" if mut else " (read-only)")))
        if mut:
            helper_loops.append(hb)
    ctx.floor("searcher/applier invocation sites", len(ind), 2)
    ctx.floor("mutating invocation sites (appliers)", len([1 for _, w in ind if "(read-only)" not in w]), 1)
    for bb_, what in ind:
        if "(read-only)" in what:
            continue
        ctx.check(b.dominated_by(bb_, [before]) and bb_ != before, "before-precedes:%d" % bb_, "the first measurement dominates the invocation of %s" % what[:60],
                  "apply_rewrites can run %s before the 'before' progress measurement is taken: a change made there is not counted and saturation is reported although the e-graph changed" % what[:80], where_of(b, bb_))
        ctx.check(b.must_pass(b.after(bb_), b.return_blocks(), [after]), "after-follows:%d" % bb_, "every path from the invocation of %s to return passes the second measurement" % what[:60],
                  "apply_rewrites can return after running %s without taking the 'after' measurement afterwards" % what[:80], where_of(b, bb_))
    lp = C.iterator_loops(b)
    for l in lp:
        ctx.check(C.loop_exhaustive(b, l), "all-appliers-run:%d" % l[0], "the applier loop runs for every rule", "the applier loop can stop early: later rules are never applied in this iteration", where_of(b, l[0]))
    for hb in helper_loops:
        for l in C.iterator_loops(hb):
            ctx.check(C.loop_exhaustive(hb, l), "all-appliers-run:" + C.fkey(hb), "the applier loop of %s runs for every rule" % hb.name, "the applier loop of %s can stop early: later rules are never applied in this iteration" % hb.name, where_of(hb, l[0]))
    # searchers see the e-graph before any applier of this round (observed, not armed)
    ctx.info("searcher results are collected before the applier loop: %s" % any(w.endswith("(consumed)") for _, w in ind))


@rule("S2", doc="ProgressMeasure equality is derived over all four fields; fields come from their sources (C13.T3)")
def s2(ctx):
    crate = ctx.lib()
    imps = [i for i in crate.impls if str(i.get("self_adt", "")).split("::")[-1] == "ProgressMeasure" and i.get("trait") == "std::cmp::PartialEq"]
    ctx.check(len(imps) == 1 and imps[0]["auto_derived"], "derived-partial-eq", "PartialEq for ProgressMeasure is #[derive]d (compares every field)",
              "PartialEq for ProgressMeasure is hand-written (%d impls): a field may be left out of the saturation test" % len(imps))
    adt = crate.adt_named("rewrite::ProgressMeasure")
    fs = [f["name"] for f in adt["variants"][0]["fields"]] if adt else []
    ctx.check(sorted(fs) == sorted(["number_of_classes", "number_of_live_classes", "sum_of_slots", "sum_of_symmetries"]), "four-fields", "the measure has the four documented fields", "the measure's fields are %s" % fs)
    c13.t3(ctx)


def _cmp_cond(cond):
    """normalise a condition to ('gt'|'ge', big_role, small_role) if it is an order comparison that holds on the edge"""
    kind = cond[0]
    if kind not in ("true", "false"):
        return None
    r = cond[1]
    val = kind == "true"
    if isinstance(r, tuple) and r[0] == "bin" and r[1] in ("Gt", "Ge", "Lt", "Le"):
        op, a, b = r[1], r[2], r[3]
    elif isinstance(r, tuple) and r[0] == "call" and r[1] in ("gt", "ge", "lt", "le") and len(r[3]) == 2:
        op, a, b = r[1].capitalize(), r[3][0], r[3][1]
    else:
        return None
    if not val:
        op = {"Gt": "Le", "Ge": "Lt", "Lt": "Ge", "Le": "Gt"}[op]
    if op == "Gt":
        return ("gt", a, b)
    if op == "Ge":
        return ("ge", a, b)
    if op == "Lt":
        return ("gt", b, a)
    return ("ge", b, a)


@rule("S3", doc="every StopReason variant is constructed only under its own condition")
def s3(ctx):
    crate = ctx.lib()
    sites = reason_sites(crate)
    ctx.floor("StopReason constructions", len(sites), 5)
    seen = set()
    for root, b, bi, s, variant, rv in sites:
        key = "%s:%s" % (C.fkey(root), variant)
        seen.add(variant)
        w = where_of(b, bi, s.get("line"))
        # conditions dominating the construction; for closures add the conditions dominating the place the closure is handed over
        conds = [cond for e, cond in C.conditions_at(b, bi)]
        hop = b
        while hop.kind == "Closure" and hop.creation is not None:
            parent, cbb, csi, _ = hop.creation
            cl_local = parent.blocks[cbb]["stmts"][csi]["lhs"]["l"]
            use_bbs = [x.bb for x in parent.calls if any((mir.op_place(a) or {}).get("l") == cl_local for a in x.args)] or [cbb]
            for ub in use_bbs:
                conds += [cond for e, cond in C.conditions_at(parent, ub)]
            hop = parent
        cmps = [x for x in (_cmp_cond(c) for c in conds) if x]
        if variant == "IterationLimit":
            ok = any((role_mentions_param(big, "iteration") or "iterations" in role_str(big) or role_mentions_call(big, "len")) and (role_mentions_field(small, "iter_limit") or role_mentions_param(small, "iter_limit")) for _, big, small in cmps)
            ctx.check(ok, "reason:" + key, "IterationLimit is constructed under `iteration counter >(=) iteration limit`",
                      "StopReason::IterationLimit is constructed in %s without the iteration counter having been found >(=) the limit (conditions: %s)" % (C.short(root.id), [(k, role_str(a)[:40], role_str(c_)[:40]) for k, a, c_ in cmps]), w)
        elif variant == "NodeLimit":
            ok = any(role_mentions_call(big, "total_number_of_nodes") and (role_mentions_field(small, "node_limit") or role_mentions_param(small, "node_limit")) for _, big, small in cmps)
            strict = any(k_ == "gt" and role_mentions_call(big, "total_number_of_nodes") and (role_mentions_field(small, "node_limit") or role_mentions_param(small, "node_limit")) for k_, big, small in cmps)
            if ok and (root.file or "").endswith("runner.rs"):
                ctx.check(strict, "node-limit-strict:" + key, "NodeLimit is reported only when the node count strictly exceeds the limit",
                          "StopReason::NodeLimit is constructed in %s under `total_number_of_nodes() >= node_limit`: a run whose e-graph has exactly node_limit e-nodes stops with a limit reason although the limit was not exceeded" % C.short(root.id), w)
            ctx.check(ok, "reason:" + key, "NodeLimit is constructed under `total_number_of_nodes() > node limit`",
                      "StopReason::NodeLimit is constructed in %s without total_number_of_nodes() having been found above the node limit" % C.short(root.id), w)
        elif variant == "TimeLimit":
            ok = any(role_mentions_call(big, "elapsed") and (role_mentions_field(small, "time_limit") or role_mentions_param(small, "time_limit")) for _, big, small in cmps)
            ctx.check(ok, "reason:" + key, "TimeLimit is constructed under `elapsed >(=) time limit`",
                      "StopReason::TimeLimit is constructed in %s without the elapsed time having been found above the limit" % C.short(root.id), w)
        elif variant == "Saturated":
            ok = any(c[0] == "false" and role_mentions_call(c[1], "apply_rewrites") for c in conds)
            ctx.check(ok, "reason:" + key, "Saturated is constructed only when this iteration's apply_rewrites returned false",
                      "StopReason::Saturated is constructed in %s on a path where apply_rewrites did not return false (conditions: %s)" % (C.short(root.id), [(c[0], role_str(c[1])[:50]) for c in conds if len(c) > 1]), w)
        elif variant == "Other":
            payload = b.role_of_operand(rv["ops"][0])
            from_hook = False
            # inside a map_err closure on the hook's result, or under the Err edge of the hook call
            if b.kind == "Closure" and b.creation is not None:
                parent, cbb, csi, _ = b.creation
                cl_local = parent.blocks[cbb]["stmts"][csi]["lhs"]["l"]
                for x in parent.calls:
                    if x.callee and x.callee.name == "map_err" and any((mir.op_place(a) or {}).get("l") == cl_local for a in x.args):
                        src = parent.role_of_operand(x.args[0])
                        if role_mentions_call(src, "call_mut") or role_mentions_call(src, "call"):
                            from_hook = strip_role(payload)[0] == "param"
            if role_mentions_call(payload, "call_mut") or role_mentions_call(payload, "call"):
                from_hook = any(isinstance(x, tuple) and x[0] == "variant" and x[2] == "Err" for x in role_walk(payload))
            ctx.check(from_hook, "reason:" + key, "Other(e) carries the error returned by the hook", "StopReason::Other is constructed in %s from %s, not from the hook's Err value" % (C.short(root.id), role_str(payload)[:80]), w)
        else:
            ctx.bad("reason:" + key, "unknown StopReason variant %s" % variant, w)
    ctx.check(seen >= {"Saturated", "IterationLimit", "TimeLimit", "NodeLimit", "Other"}, "all-variants-seen", "all five StopReason variants have construction sites", "variants constructed: %s" % sorted(seen))


@rule("S4", doc="hooks and limits are consulted on every iteration; the loop ends only with a stop reason; one Iteration per round")
def s4(ctx):
    crate = ctx.lib()
    ro = crate.method("run::runner::Runner", "run_one")
    rn = crate.method("run::runner::Runner", "run")
    if len(ro) != 1 or len(rn) != 1:
        raise mir.AnchorMissing("Runner::run_one / Runner::run")
    ro_raw, rn = ro[0], rn[0]
    ro = iteration_view(crate)
    # where the limits / the hooks are consulted: a direct call, or a combinator (and_then, try_for_each ..) whose closure does it
    limit_calls = []
    hook_calls = []
    for c in ro.calls:
        if ro.blocks[c.bb]["cleanup"] or not c.callee:
            continue
        names = {c.callee.name}
        for a in c.args:
            cl = strip_role(ro.role_of_operand(a))
            if isinstance(cl, tuple) and cl[0] == "agg" and cl[1] in crate.bodies:
                names |= {x.callee.name for sub in crate.bodies[cl[1]].all_bodies() for x in sub.calls if x.callee}
        if "check_limits" in names or (c.callee.name == "check_limits"):
            limit_calls.append(c)
        if ("call_mut" in names or "try_for_each" in names) and (c.callee.name in ("and_then", "try_for_each", "call_mut", "for_each", "map_err") or "call_mut" == c.callee.name):
            hook_calls.append(c)
    st_blocks = {bi for bi, si, s in ro.statements() if s["k"] == "assign" and mir.place_has_field(s["lhs"], "run::runner::Runner", "stop_reason")
                 and not (s["rv"]["k"] == "agg" and str(s["rv"].get("variant")) == "None")}
    # ... or by producing the Err that `stop-reason-from-result` (below) shows is recorded: `?` / an explicit Err(..)
    for bi, si, s_ in ro.statements():
        if s_["k"] == "assign" and s_["rv"]["k"] == "agg" and s_["rv"].get("adt") == "std::result::Result" and s_["rv"].get("variant") == "Err":
            st_blocks.add(bi)
    st_blocks |= {c.bb for c in ro.calls if c.callee and c.callee.name == "from_residual" and not ro.blocks[c.bb]["cleanup"]}
    hook_loops = [lp for lp in C.iterator_loops(ro) if role_mentions_field(lp[1], "hooks") or any(c.bb in ro.reach(lp[3], avoid=lp[2]) for c in hook_calls)]
    hook_done = {e for lp in hook_loops for e in lp[2]}        # the loop over the hooks ran to its end
    for what, cs, extra in (("limits", limit_calls, set()), ("hooks", hook_calls, hook_done)):
        # a path may skip the check only if it ends by recording a stop reason (an earlier check already failed)
        through = ({c.bb for c in cs} - ({c.bb for lp in hook_loops for c in cs if c.bb in ro.reach(lp[3], avoid=lp[2])} if extra else set())) | extra | st_blocks
        ok = bool(cs) and ro.must_pass([0], ro.return_blocks(), through)
        ctx.check(ok, "every-iteration:" + what, "every path through run_one consults the %s unless a stop reason was already found" % what,
                  "run_one has a path to return on which the %s are not consulted and no stop reason is recorded: the loop can overrun its bound / ignore a failing hook" % what, where_of(ro_raw))
    # a hook loop written out by hand visits every hook unless one fails
    for lp in hook_loops:
        if True:
            sb, it, none_e, some_e, cs_ = lp
            ok = ro.must_pass(some_e, ro.return_blocks(), set(none_e) | st_blocks)
            ctx.check(ok, "every-iteration:all-hooks", "the hook loop is left early only towards recording a stop reason", "the hook loop can be left early without a stop reason: later hooks are skipped silently", where_of(ro, sb))
    ap = [c for c in ro.calls if c.callee and c.callee.name == "apply_rewrites"]
    for c in limit_calls:
        ctx.check(bool(ap) and ro.dominated_by(c.bb, {x.bb for x in ap}), "limits-after-apply", "the limits are evaluated on the e-graph this iteration produced (after apply_rewrites)",
                  "run_one evaluates the limits before apply_rewrites: the verdict (e.g. NodeLimit) describes the previous state, the run does one more iteration, and the reason reported need not be true of the final e-graph", where_of(ro, c.bb))
    ctx.check(len(ap) == 1 and ro.must_pass([0], ro.return_blocks(), {c.bb for c in ap}), "one-apply-per-iteration", "run_one applies the rules exactly once", "run_one does not apply the rules exactly once per iteration", where_of(ro))
    st = [bi for bi, si, s in ro.statements() if s["k"] == "assign" and mir.place_has_field(s["lhs"], "run::runner::Runner", "stop_reason")]
    okst = False
    for bi in st:
        for e, cond in C.conditions_at(ro, bi):
            if cond[0] in ("true", "false", "unknown") and len(cond) > 1 and cond[1][0] == "discr":
                okst = True
    ctx.check(bool(st) and okst, "stop-reason-from-result", "stop_reason is set from the Err of the chained result", "run_one does not record the Err of the chained result as the stop reason", where_of(ro))
    # check_limits wrapper passes iterations.len()
    # the limits are given iterations.len(): look at every call of the limits' own check (RunnerLimits::check_limits), wherever the
    # wrapper around it lives (a method of Runner, or inlined into run_one)
    lim = [b_ for b_ in crate.by_name.get("check_limits", []) if b_.kind != "Closure" and "RunnerLimits" in (b_.impl_self or "")]
    sites_ = [(b_, c) for b_ in crate.bodies.values() for c in b_.calls if lim and c.callee and c.callee.target == lim[0].id and not b_.blocks[c.bb]["cleanup"]]
    if lim:
        ok = bool(sites_) and all(role_mentions_call(b_.role_of_operand(c.args[1]), "len") and role_mentions_field(b_.role_of_operand(c.args[1]), "iterations") for b_, c in sites_)
        ctx.check(ok, "iteration-count-source", "the limit check is given iterations.len()", "the limit check is not given the number of completed iterations", where_of(sites_[0][0], sites_[0][1].bb) if sites_ else where_of(lim[0]))
    # Runner::run: loop exits only when stop_reason is Some; one run_one and one push per round
    exits = []
    for sb in rn.switch_blocks():
        t = rn.blocks[sb]["term"]
        r = rn.role_of_operand(t["discr"])
        if r[0] == "discr" and role_mentions_field(r[1], "stop_reason"):
            exits += C.variant_edges(rn, sb, 1)
    for e, cond in C.all_cond_edges(rn):
        r = strip_role(cond[1]) if len(cond) > 1 else None
        if isinstance(r, tuple) and r[0] == "call" and role_mentions_field(r, "stop_reason"):
            if (r[1] == "is_none" and cond[0] == "false") or (r[1] == "is_some" and cond[0] == "true"):
                exits.append(e)
    ok = bool(exits) and rn.must_pass([0], rn.return_blocks(), exits)
    ctx.check(ok, "run-exits-with-reason", "Runner::run leaves its loop only when stop_reason is Some", "Runner::run can return without a stop reason having been set", where_of(rn))
    r1 = [c for c in rn.calls if c.callee and c.callee.target == ro.id]
    pu = [c for c in rn.calls if c.callee and c.callee.name == "push" and role_mentions_field(rn.role_of_operand(c.args[0]), "iterations")]
    ok = len(r1) == 1 and len(pu) == 1 and rn.must_pass(rn.after(r1[0].bb), [r1[0].bb] + rn.return_blocks(), {pu[0].bb}) and role_mentions_call(rn.role_of_operand(pu[0].args[1]), "run_one")
    ctx.check(ok, "one-iteration-record-per-round", "each round pushes exactly the Iteration produced by run_one", "Runner::run does not push one Iteration per round (the iteration count used by the limit drifts)", where_of(rn))
    # run_eqsat: counter incremented once per round, all exits assign a reason (definite assignment) -- check increment
    re_ = crate.free_fn("run_eqsat")
    if len(re_) == 1:
        e = re_[0]
        incs = [(bi, s) for bi, si, s in e.statements() if s["k"] == "assign" and s["rv"]["k"] == "bin" and s["rv"]["op"].startswith("Add") and s["rv"]["b"].get("int") == "1"]
        ctx.check(len(incs) == 1, "eqsat-counter-step", "run_eqsat increments its iteration counter once per round by 1", "run_eqsat increments its counter %d times per round" % len(incs), where_of(e))
        ap = [c for c in e.calls if c.callee and c.callee.name == "apply_rewrites"]
        ctx.check(len(ap) == 1, "eqsat-one-apply", "run_eqsat applies the rules once per round", "run_eqsat has %d apply_rewrites calls" % len(ap), where_of(e))


@rule("S5", doc="the report's node count is total_number_of_nodes() read after the loop")
def s5(ctx):
    crate = ctx.lib()
    n = 0
    for b in list(crate.method("run::runner::Runner", "run")) + list(crate.free_fn("run_eqsat")):
        for bi, si, s in b.statements():
            rv = s["rv"] if s["k"] == "assign" else None
            if rv and rv["k"] == "agg" and rv.get("adt") == "run::report::Report":
                n += 1
                f = rv["fields"]
                r = strip_role(b.role_of_operand(rv["ops"][f.index("egraph_nodes")]))
                ok = r[0] == "call" and r[1] == "total_number_of_nodes"
                ctx.check(ok, "nodes-source:" + C.fkey(b), "Report.egraph_nodes = total_number_of_nodes()", "Report.egraph_nodes is %s" % role_str(r), where_of(b, bi, s.get("line")))
                if ok:
                    site = r[4]
                    # no &mut EGraph call between the read and the construction
                    between = b.reach(b.after(site), avoid=[bi])
                    muts = []
                    for x in b.calls:
                        if x.bb in between and x.callee:
                            for a in x.args:
                                pl = mir.op_place(a)
                                if pl is not None and not pl["p"] and b.local_ty(pl["l"]).startswith("&mut egraph::EGraph<"):
                                    muts.append(x.callee.name)
                            if x.callee.name in ("apply_rewrites", "run_one"):
                                muts.append(x.callee.name)
                    ctx.check(not muts, "nodes-read-last:" + C.fkey(b), "nothing mutates the e-graph between reading the node count and building the report",
                              "%s mutates the e-graph (%s) after reading the node count that goes into the report" % (C.short(b.id), muts), where_of(b, bi, s.get("line")))
                    # read after the loop: the read is not inside the iteration loop
                    loops_back = site in b.reach(b.after(site))
                    ctx.check(not loops_back, "nodes-read-after-loop:" + C.fkey(b), "the node count is read after the loop", "the node count is read inside the loop (stale by the time the report is built)", where_of(b, site))
                it = strip_role(b.role_of_operand(rv["ops"][f.index("iterations")]))
                ctx.check(role_mentions_call(it, "len") or "iterations" in role_str(it) or it[0] == "phi", "iterations-source:" + C.fkey(b), "Report.iterations comes from the iteration counter", "Report.iterations is %s" % role_str(it), where_of(b, bi))
    ctx.floor("Report constructions", n, 2)
    tn = crate.method("egraph::EGraph", "total_number_of_nodes")
    if len(tn) == 1:
        r = tn[0].role_of_local(0)
        ctx.check(role_mentions_call(r, "len") and role_mentions_field(r, "hashcons"), "node-count-is-hashcons-len", "total_number_of_nodes() = hashcons.len()", "total_number_of_nodes() is %s" % role_str(r), where_of(tn[0]))


RULES = [s1, s2, s3, s4, s5]


@rule("S6", doc="iteration bound: the counter the limit is compared with grows by exactly one per round and nothing else writes it")
def s6(ctx):
    crate = ctx.lib()
    RUN = "run::runner::Runner"
    w = crate.field_writers(RUN, "iterations")
    sites = [(rid, b, bb, kind) for rid, v in w.items() for (b, bb, kind, line) in v]
    roots = sorted({rid for rid, _, _, _ in sites})
    rn = crate.method("run::runner::Runner", "run")
    ctx.check(len(rn) == 1 and roots == [rn[0].id], "single-writer", "Runner.iterations is written only by Runner::run (%s)" % [C.short(r) for r in roots],
              "Runner.iterations is written by %s: the counter the iteration limit is compared with can be reset or skipped" % [C.short(r) for r in roots])
    if len(rn) == 1:
        r = rn[0]
        ops = [c for c in r.calls if c.callee and c.args and role_mentions_field(r.role_of_operand(c.args[0]), "iterations") and c.callee.name in ("push", "pop", "clear", "truncate", "remove", "insert", "extend", "drain", "retain")]
        ok = len(ops) == 1 and ops[0].callee.name == "push"
        ctx.check(ok, "one-push-per-round", "each round changes iterations by exactly one push", "Runner::run changes iterations through %s" % [c.callee.name for c in ops], where_of(r))
        lp_back = ops and ops[0].bb in r.reach(r.after(ops[0].bb))
        ctx.check(bool(lp_back), "push-in-loop", "the push is inside the loop", "the push is not part of the loop", where_of(r))
    # the comparison is strict-or-equal with the counter on the greater side (so it eventually fires): reuse S3's table
    cl = crate.method("run::runner::RunnerLimits", "check_limits")
    if len(cl) == 1:
        b = cl[0]
        found = False
        for sb in b.switch_blocks():
            t = b.blocks[sb]["term"]
            rr = b.role_of_operand(t["discr"])
            if rr[0] == "bin" and rr[1] in ("Gt", "Ge", "Lt", "Le") and (role_mentions_param(rr[2], "iteration") or role_mentions_param(rr[3], "iteration")):
                found = True
                big_left = rr[1] in ("Gt", "Ge")
                counter_left = role_mentions_param(rr[2], "iteration")
                # Err(IterationLimit) must be on the edge where counter > limit
                ctx.ok("limit-comparison", "the iteration counter is compared with the limit by %s" % rr[1], where_of(b, sb))
        ctx.check(found, "limit-comparison-present", "check_limits compares the iteration counter with iter_limit", "check_limits no longer compares the iteration counter with the limit", where_of(b))
    ctx.info("bound: Runner::run stops at the latest in round iter_limit + 2 (the check sees iterations.len() = rounds completed, IterationLimit needs len > limit); run_eqsat at round iter_limit + 1")
    re_ = crate.free_fn("run_eqsat")
    if len(re_) == 1:
        e = re_[0]
        # every path around the loop passes the increment or leaves the loop
        incs = [bi for bi, si, s in e.statements() if s["k"] == "assign" and s["rv"]["k"] == "bin" and s["rv"]["op"].startswith("Add") and s["rv"]["b"].get("int") == "1"]
        ap = [c for c in e.calls if c.callee and c.callee.name == "apply_rewrites"]
        ok = bool(incs) and bool(ap) and e.must_pass(e.after(ap[0].bb), [ap[0].bb], set(incs))
        ctx.check(ok, "eqsat-every-round-counts", "every path from one apply_rewrites to the next passes the counter increment", "run_eqsat can start another round without counting the previous one", where_of(e))
        # every round asks the three questions that end the loop: did anything change, is the iteration limit reached, is the time
        # up.  Each test lies on every path from the rule application back to the next one (a round that is not stopped by the
        # hook), with the parameter it is named after
        if ap:
            tests = {"saturated": [], "iteration-limit": [], "time-limit": []}
            p_iter = [e.var_names.get(l) for l in range(1, e.argc + 1) if e.local_ty(l) == "usize"]
            for sb in e.switch_blocks():
                r = strip_role(e.role_of_operand(e.blocks[sb]["term"]["discr"]))
                txt = role_str(r)
                if role_mentions_call(r, "apply_rewrites") and not role_mentions_call(r, "elapsed"):
                    tests["saturated"].append(sb)
                elif isinstance(r, tuple) and r[0] == "bin" and r[1] in ("Ge", "Gt", "Le", "Lt"):
                    if role_mentions_call(r, "elapsed"):
                        tests["time-limit"].append(sb)
                    elif any(role_mentions_param(r, p_) for p_ in p_iter if p_):
                        tests["iteration-limit"].append(sb)
            for what, sbs in tests.items():
                okt = bool(sbs) and e.must_pass(e.after(ap[0].bb), [ap[0].bb], set(sbs))
                ctx.check(okt, "eqsat-asks-every-round:" + what, "every round of run_eqsat that goes on to another one has asked the `%s` question" % what,
                          "run_eqsat can go from one rule application to the next without the `%s` test: the loop no longer ends when it should (%s)" % (what, {"saturated": "it keeps running although nothing changes", "iteration-limit": "the configured iteration bound is not honoured", "time-limit": "the configured time limit is not honoured"}[what]), where_of(e))


RULES.append(s6)


@rule("MC", doc="must-call census: no function of this property's files has gained an early exit in front of work it always did (every crate-local call that lay on all paths to a normal return in the reviewed tree still does)")
def mc(ctx):
    C.must_call_census(ctx, ctx.lib(), ['src/rewrite/mod.rs', 'src/run/runner.rs', 'src/run/run.rs', 'src/run/report.rs'])


RULES.append(mc)


@rule("S7", doc="a rule's searcher hands every match to its applier, and the applier applies every one of them (C04.M5): 'saturated' cannot be reached by dropping matches")
def s7(ctx):
    from . import c04
    c04.m5(ctx)


RULES.append(s7)


@rule("S8", doc="'saturated' cannot be reached through a matcher that overlooks instances: the single-pattern matcher ranges over all live classes, all e-nodes of a class and all group-compatible variants, and skips only on operator / shape mismatch and slot-bijection conflict (C04.M1-M3)")
def s8(ctx):
    from . import c04
    c04.m1(ctx)
    c04.m2(ctx)
    c04.m3(ctx)


RULES.append(s8)


@rule("S9", doc="the symmetry total of the progress measure is a sum of true group orders: Group::count is 1 for the trivial group and otherwise orbit size x count of the stabiliser, with no shortcut (C10.G3)")
def s9(ctx):
    from . import c10
    c10.g3(ctx)


RULES.append(s9)


@rule("S10", doc="the progress measure and the matchers range over every live class: EGraph::ids() is exactly the set of leaders (C04.M11) — a class missing from it contributes neither matches nor progress, and 'saturated' is reported while a rule still applies")
def s10_m11(ctx):
    from . import c04
    c04.m11(ctx)


RULES.append(s10_m11)

"""C10 — class symmetries are exactly the generated permutation group (convention coherence)."""
from salib import mir
from salib.mir import role_str, role_walk, strip_role, role_mentions_field, role_mentions_call, role_mentions_param
from salib.runner import rule, where_of
from . import common as C

META = {
    "level": "other",
    "explanation": "The stabiliser chain in group/mod.rs is written under the convention 'x y = x.compose(y)' (first x, then y) with "
                   "ot[x] mapping stab to x. G1 checks that every composition in orbit-tree construction, Schreier generators, "
                   "enumeration, sifting and proof-carrying sifting uses operands of the right kind on the right side (frozen role table, "
                   "operand kinds classified by the type of the collection the value is drawn from, not by names). G2-G5 check add_set's "
                   "growth report and rebuild, count, orbit, generators and triviality. G6-G8: the product loops of schreiers_lemma / build_ot / all_perms are exhaustive and insert elements of the right kind with no extra skip; a derived self-symmetry is a permutation of the class's slots (guard slots(a) == slots(b)); on a class merge the deprecated class's generators are renamed by deprecated.m ; survivor.m^-1 and handed to the survivor unconditionally.",
    "not_decided": "Schreier-Sims as mathematics; behaviour on non-permutation input",
    "assumptions": ["the convention stated in group/mod.rs: a.compose(b) = first a, then b"],
}

GRP = "group::Group"


def optype(body, op):
    pl = mir.op_place(op)
    if pl is None:
        return op.get("ty", "")
    t = body.local_ty(pl["l"])
    for p in pl["p"]:
        if isinstance(p, dict) and "ty" in p:
            t = p["ty"]
    return t


def kind_of(crate, body, role, depth=0):
    """OT: drawn from a HashMap<Slot, P> (orbit table); GEN: drawn from a HashSet<P>; SUB: element of
    all_perms() of the sub-group; P: the queried SlotMap parameter; STEP: result of the recursive sift;
    COMP(a,b): a composition; INV(x): inverse"""
    r = strip_role(role)
    if not isinstance(r, tuple):
        return ("?",)
    if r[0] == "param":
        b = body
        l = b.param_index(r[1])
        ty = b.local_ty(l) if l else ""
        if "slotmap::SlotMap" in ty:
            return ("P",)
        if "HashMap<slot::Slot" in ty:
            return ("OTMAP",)
        if "HashSet<" in ty:
            return ("GENSET",)
        # a closure's own parameter: element of the iterator the closure is mapped over
        if b.kind == "Closure" and b.creation is not None:
            parent, cbb, csi, cops = b.creation
            cl_local = parent.blocks[cbb]["stmts"][csi]["lhs"]["l"]
            for c in parent.calls:
                if c.callee and c.callee.name in ("map", "for_each", "filter", "flat_map", "filter_map") and len(c.args) == 2:
                    pl = mir.op_place(c.args[1])
                    if pl is not None and pl["l"] == cl_local:
                        k = kind_of(crate, parent, parent.role_of_operand(c.args[0]), depth + 1)
                        return {("SUBSET",): ("SUB",), ("OTMAP",): ("OT",), ("GENSET",): ("GEN",)}.get(k, k)
        return ("param", r[1])
    if r[0] == "variant" or r[0] == "index":
        return kind_of(crate, body, r[1], depth)
    if r[0] == "field":
        if r[2] in ("0", "1") or r[2] == "pointer":
            return kind_of(crate, body, r[1], depth)
        if r[2] == "ot":
            return ("OTMAP",)
        if r[2] == "identity":
            return ("ID",)
        return kind_of(crate, body, r[1], depth)
    if r[0] == "call":
        name = r[1]
        if name in ("compose",):
            return ("COMP", kind_of(crate, body, r[3][0], depth), kind_of(crate, body, r[3][1], depth))
        if name == "inverse":
            return ("INV", kind_of(crate, body, r[3][0], depth))
        if name == "to_slotmap":
            return kind_of(crate, body, r[3][0], depth)
        if name in ("all_perms",):
            return ("SUBSET",)
        if name in ("proven_contains",):
            return ("STEP",)
        if name in ("next", "into_iter", "iter", "values", "into_values", "values_mut", "iter_mut", "collect", "branch", "get", "index", "deref", "cloned", "map", "clone", "copied"):
            site = None
            # find the body owning this call site: roles may cross into the parent for upvars
            for bb in [body] + ([body.parent_body] if body.parent_body else []):
                cs = bb.call_at.get(r[4])
                if cs is not None and cs.callee and cs.callee.name == name:
                    site = (bb, cs)
                    break
            inner = kind_of(crate, body, r[3][0], depth) if r[3] else ("?",)
            if site is not None:
                t = optype(site[0], site[1].args[0]) if site[1].args else ""
                if name in ("get", "index", "values", "into_values", "values_mut", "into_iter", "iter", "iter_mut") and "HashMap<slot::Slot" in t:
                    return ("OT",)
                if name in ("into_iter", "iter") and "HashSet<" in t:
                    return ("GEN",)
            if inner == ("OTMAP",):
                return ("OT",)
            if inner == ("GENSET",):
                return ("GEN",)
            if inner == ("SUBSET",):
                return ("SUB",)
            return inner
        if name == "default" or name == "new":
            # a local collection built here: classify by its type through the def site
            for bb in [body] + ([body.parent_body] if body.parent_body else []):
                cs = bb.call_at.get(r[4])
                if cs is not None and cs.callee and cs.callee.name == name:
                    t = bb.local_ty(cs.dest["l"])
                    if "HashMap<slot::Slot" in t:
                        return ("OTMAP",)
                    if "HashSet<" in t:
                        return ("GENSET",)
        return ("call", name)
    if r[0] == "phi":
        ks = {kind_of(crate, body, x, depth) for x in r[1]}
        if len(ks) == 1:
            return ks.pop()
        # a sifting cursor: starts as the queried permutation and is replaced by (itself ; ot[..]^-1) on every level —
        # by induction it is what the recursive formulation passes down as `p`
        sift = {("COMP", ("?",), ("INV", ("OT",))), ("COMP", ("P",), ("INV", ("OT",)))}
        if ("P",) in ks and ks - {("P",)} <= sift:
            return ("P",)
        return ("phi",) + tuple(sorted(ks))
    return ("?",)


def kstr(k):
    if len(k) == 1:
        return k[0]
    return "%s(%s)" % (k[0], ", ".join(kstr(x) for x in k[1:]))


def composes(b):
    return [c for c in b.all_calls() if c.callee and c.callee.name == "compose" and not c.body.blocks[c.bb]["cleanup"]]


def fn(crate, name, owner=None):
    bs = [b for b in crate.by_name.get(name, []) if b.kind != "Closure" and (b.file or "").startswith("src/group/") and not (b.file or "").endswith("tst.rs") and (owner is None or owner in (b.impl_self or "") or crate.aliases.get(b.id) == name)]
    if len(bs) != 1:
        raise mir.AnchorMissing("group::" + name, "found %d" % len(bs))
    return bs[0]


# the frozen convention table: function -> list of expected (receiver kind, argument kind) with the reason
TABLE = {
    "build_ot": ([("OT", "GEN")], "ot[x] maps stab to x; following it by a generator g reaches g(x): new = ot[x].compose(g), keyed by new[stab]"),
    "schreiers_lemma": ([("OT", "GEN"), ("COMP(OT, GEN)", "INV(OT)")], "Schreier generator r s (rs-bar)^-1 with rs-bar = ot[(rs)[stab]]: (r.compose(s)).compose(ot[..].inverse())"),
    "all_perms": ([("SUB", "OT")], "every element is h ; ot[x] with h in the stabiliser: first the stabiliser element, then the coset representative"),
    "contains": ([("P", "INV(OT)")], "p in G  iff  p ; ot[p[stab]]^-1 fixes stab and lies in the stabiliser"),
    "proven_contains": ([("P", "INV(OT)"), ("STEP", "OT")], "step = p ; part^-1, hence p = step ; part"),
}


def base_tests_identity(b):
    """the arm of `match self.next` for None (the trivial group) decides membership by comparing the pairs of
    the permutation: an all/any adaptor, or a loop / comparison whose eq/ne condition mentions the queried
    permutation — anything but a constant answer"""
    for sb in b.switch_blocks():
        r = b.role_of_operand(b.blocks[sb]["term"]["discr"])
        if r[0] != "discr" or not role_mentions_field(r[1], "next"):
            continue
        none_e = C.variant_edges(b, sb, 0)
        some_e = C.variant_edges(b, sb, 1)
        if not none_e:
            continue
        region = b.reach(none_e, avoid=set(some_e))
        for c in b.calls:
            if c.bb in region and c.callee and c.callee.name in ("all", "any", "eq", "ne", "is_identity") and not b.blocks[c.bb]["cleanup"]:
                return True
        for e, cond in C.all_cond_edges(b):
            if e[1] in region and cond[0] in ("eq", "ne"):
                return True
    return False



@rule("G1", doc="convention table: operand kinds of every composition in the stabiliser chain")
def g1(ctx):
    crate = ctx.lib()
    n = 0
    for name, (expect, why) in TABLE.items():
        if name == "proven_contains" and "explanations" not in (ctx.cur_cfg or ""):
            continue
        b = fn(crate, name, GRP if name not in ("build_ot", "schreiers_lemma") else None)
        # (a sifting step extracted into a helper of the chain layer — `Next::sift(p) -> Option<(&P, Perm)>` — is looked through;
        #  the functions of the table themselves stay calls)
        b = mir.inline_view(crate, b, keep=tuple(TABLE) + ("new", "add_set", "build_ot", "schreiers_lemma", "find_lowest_nonstab"))
        cs = composes(b)
        got = []
        for c in cs:
            k0 = kind_of(crate, c.body, c.body.role_of_operand(c.args[0]))
            k1 = kind_of(crate, c.body, c.body.role_of_operand(c.args[1]))
            got.append((kstr(k0), kstr(k1), c))
        n += len(got)
        gset = sorted((a, b_) for a, b_, _ in got)
        ok = gset == sorted(expect)
        if ok:
            for a, b_, c in got:
                ctx.ok("convention:%s:%s.compose(%s)" % (name, a, b_), "%s: %s.compose(%s) — %s" % (name, a, b_, why), where_of(c.body, c.bb))
        else:
            missing = [e for e in expect if e not in gset]
            extra = [(a, b_, c) for a, b_, c in got if (a, b_) not in expect]
            for a, b_, c in extra:
                ctx.bad("convention:%s:%s.compose(%s)" % (name, a, b_),
                        "%s composes %s.compose(%s); the convention 'x.compose(y) = first x then y' with ot[x]: stab -> x requires %s (%s). For non-abelian groups a swapped composition gives wrong membership, duplicated or missing elements" % (
                            name, a, b_, " and ".join("%s.compose(%s)" % e for e in expect), why), where_of(c.body, c.bb))
            if not extra:
                ctx.bad("convention:%s:missing" % name, "%s no longer contains the composition(s) %s" % (name, missing), where_of(b))
    ctx.floor("compositions in the stabiliser chain", n, 4 if "explanations" not in (ctx.cur_cfg or "") else 5)
    # orbit-table keys
    b = fn(crate, "build_ot")
    for c in b.calls:
        if c.callee and c.callee.name == "insert" and len(c.args) == 3 and "HashMap<slot::Slot" in optype(b, c.args[0]) and not b.blocks[c.bb]["cleanup"]:
            k = strip_role(b.role_of_operand(c.args[1]))
            v = strip_role(b.role_of_operand(c.args[2]))
            if v[0] == "call" and v[1] == "compose":
                ok = k[0] == "call" and k[1] == "index" and strip_role(k[3][0]) == v and strip_role(k[3][1]) == ("param", "stab")
                ctx.check(ok, "ot-key:build_ot", "orbit-table entry is keyed by new[stab] for the same `new` that is stored",
                          "build_ot stores %s under key %s: the key must be (that permutation)[stab]" % (role_str(v), role_str(k)), where_of(b, c.bb))
    # sifting looks up ot[p[stab]]
    for name in ("contains", "proven_contains"):
        if name == "proven_contains" and "explanations" not in (ctx.cur_cfg or ""):
            continue
        b0_ = fn(crate, name, GRP)
        b = mir.inline_view(crate, b0_, keep=tuple(TABLE) + ("new", "add_set", "build_ot", "schreiers_lemma", "find_lowest_nonstab"))
        gets = [c for c in b.calls if c.callee and c.callee.name == "get" and "HashMap<slot::Slot" in optype(b, c.args[0]) and not b.blocks[c.bb]["cleanup"]]
        ctx.floor("orbit-table lookups in " + name, len(gets), 1)
        for c in gets:
            k = strip_role(b.role_of_operand(c.args[1]))
            ok = k[0] == "call" and k[1] == "index" and kind_of(crate, b, k[3][0]) == ("P",) and role_mentions_field(k[3][1], "stab")
            ctx.check(ok, "sift-key:" + name, "%s looks up ot[p[stab]]" % name, "%s looks up the orbit table with %s instead of p[stab]" % (name, role_str(k)), where_of(b, c.bb))
        # recursion goes to the stabiliser sub-group with the sifted permutation
        rec = [c for c in b.calls if c.callee and c.callee.target == b0_.id]
        for c in rec:
            r0 = b.role_of_operand(c.args[0])
            r1 = strip_role(b.role_of_operand(c.args[1]))
            if isinstance(r1, tuple) and r1[0] == "phi":
                # (the sifted permutation handed back by a helper as part of `Some((part, residue))`: the None alternative of the
                #  join never reaches the recursion)
                alts = [strip_role(x) for x in r1[1] if not (isinstance(strip_role(x), tuple) and strip_role(x)[0] in ("variant", "field") and "from_residual" in role_str(x))]
                if len(alts) == 1:
                    r1 = alts[0]
            ok = role_mentions_field(r0, "g") and r1[0] == "call" and r1[1] == "compose"
            ctx.check(ok, "sift-recursion:" + name, "%s recurses into next.g with the sifted permutation" % name,
                      "%s recurses with receiver %s and argument %s" % (name, role_str(r0), role_str(r1)), where_of(b, c.bb))
        # base case: identity test x == y on all pairs
        base = base_tests_identity(b)
        # no shortcut to `true`: membership is only ever affirmed by the identity test at the bottom of the chain
        if name == "contains":
            trues = [d for d in b.defs().get(0, []) if d["kind"] == "assign" and C.const_bool(d["rv"]) is True]
            # the identity test written as a loop (`for (x, y) in p { if x != y { return false } } true`): that `true` is reached
            # only through the exhaustion edge of a pair loop whose body can answer false on a comparison — it *is* the identity test
            def loop_true(d):
                for lp in C.iterator_loops(b):
                    sb_, it, none_e, some_e, cs_ = lp
                    body_ = b.reach(some_e, avoid=none_e)
                    has_cmp = any(e[1] in body_ and cond[0] in ("eq", "ne") for e, cond in C.all_cond_edges(b))
                    has_false = any(dd["kind"] == "assign" and C.const_bool(dd["rv"]) is False and dd["bb"] in body_ for dd in b.defs().get(0, []))
                    if has_cmp and has_false and b.must_pass([0], {d["bb"]}, none_e):
                        return True
                return False
            trues = [d for d in trues if not loop_true(d)]
            ctx.check(not trues, "sift-no-shortcut:" + name, "contains() answers true only through the identity test at the end of the sifting",
                      "Group::contains has a path that answers `true` without sifting the permutation down to the identity (e.g. 'the orbit of the base point is everything'): a transitive group is not the full symmetric group, so permutations that are not symmetries are reported as members and eq() equates invocations it must not", where_of(b, trues[0]["bb"]) if trues else where_of(b))
        ctx.check(bool(base), "sift-base:" + name, "%s's base case tests that the remaining permutation is the identity" % name,
                  "%s has lost its identity test in the base case (every permutation is a member of the trivial group)" % name, where_of(b))


@rule("G2", doc="add_set: retains exactly the non-members, reports growth iff the retained set is non-empty, rebuilds from old + new")
def g2(ctx):
    crate = ctx.lib()
    b = fn(crate, "add_set", GRP)
    # filter closure = !contains(self, x)
    ret = [c for c in b.calls if c.callee and c.callee.name in ("retain", "filter") and not b.blocks[c.bb]["cleanup"]]
    okf = False
    for c in ret:
        cl = strip_role(b.role_of_operand(c.args[1]))
        if cl[0] == "agg":
            cb = crate.bodies.get(cl[1])
            if cb is not None:
                for d in cb.defs().get(0, []):
                    if d["kind"] == "assign":
                        r = cb.role_of_rvalue(d["rv"])
                        if r[0] == "un" and r[1] == "Not" and strip_role(r[2])[0] == "call" and strip_role(r[2])[1] == "contains":
                            okf = True
    ctx.check(okf, "retain-non-members", "add_set keeps exactly the permutations that are not yet members (!contains)",
              "add_set's filter is not `!self.contains(x)`: members are re-added (spurious growth report) or non-members dropped", where_of(b))
    # true is returned only on the non-empty edge, together with the rebuild
    news = [c for c in b.calls if c.callee and c.callee.name == "new" and c.callee.is_("new", GRP) and not b.blocks[c.bb]["cleanup"]]
    ctx.floor("Group::new calls in add_set", len(news), 1)
    for c in news:
        conds = C.conditions_at(b, c.bb)
        ok = any(cond[0] == "false" and strip_role(cond[1])[0] == "call" and strip_role(cond[1])[1] == "is_empty" for e, cond in conds)
        ctx.check(ok, "rebuild-iff-nonempty", "the group is rebuilt only when the retained set is non-empty", "add_set rebuilds the group although nothing new was retained (or the guard is gone)", where_of(b, c.bb))
        g = b.role_of_operand(c.args[1])
        okg = role_mentions_call(g, "generators") and role_mentions_param(g, "perms") and role_mentions_call(g, "bitor")
        ctx.check(okg, "rebuild-from-old-and-new", "the new group is generated by old generators | retained permutations",
                  "add_set rebuilds the group from %s: it must be generators() | perms, otherwise the old symmetries or the new ones are lost" % role_str(g), where_of(b, c.bb))
    for d in b.defs().get(0, []):
        if d["kind"] == "assign":
            r = b.role_of_rvalue(d["rv"])
            conds = C.conditions_at(b, d["bb"])
            nonempty = any(cond[0] == "false" and role_mentions_call(cond[1], "is_empty") for e, cond in conds)
            empty = any(cond[0] == "true" and role_mentions_call(cond[1], "is_empty") for e, cond in conds)
            if r == ("const", "true"):
                ctx.check(nonempty, "true-iff-grew", "add_set returns true only on the non-empty edge", "add_set returns true although nothing was retained", where_of(b, d["bb"]))
            elif r == ("const", "false"):
                ctx.check(empty, "false-iff-unchanged", "add_set returns false only on the empty edge", "add_set returns false although the group was rebuilt with new permutations", where_of(b, d["bb"]))
            else:
                ctx.bad("return-shape", "add_set returns %s" % role_str(r), where_of(b, d["bb"]))
    newblocks = {c.bb for c in news}
    for d in b.defs().get(0, []):
        if d["kind"] == "call":
            c = d["call"]
            ctx.bad("growth-without-rebuild:" + (c.callee.name if c.callee else "indirect"),
                    "add_set returns the result of %s instead of rebuilding the whole chain: new generators can enlarge the orbit of an upper layer or add stabiliser elements there (conjugates by coset representatives), so handing them to a lower layer leaves a strict subset of the generated group" % (c.callee.target if c.callee else "an indirect call"),
                    where_of(b, d["bb"]))
        elif b.role_of_rvalue(d["rv"]) != ("const", "false"):
            ctx.check(b.dominated_by(d["bb"], newblocks), "growth-implies-full-rebuild", "a growth report is dominated by the full rebuild Group::new(identity, generators() | perms)",
                      "add_set reports growth on a path that did not rebuild the stabiliser chain from all generators", where_of(b, d["bb"]))
    add = fn(crate, "add", GRP)
    dl = [c for c in add.calls if c.callee and c.callee.target == b.id]
    ctx.check(len(dl) == 1 and strip_role(add.role_of_local(0))[0] == "call" and strip_role(add.role_of_local(0))[1] == "add_set", "add-delegates",
              "Group::add returns add_set({p})", "Group::add no longer returns the result of add_set", where_of(add))


@rule("G3", doc="count = |orbit table| x count(stabiliser); orbit from all generators; generators() drops only the identity")
def g3(ctx):
    crate = ctx.lib()
    cnt = fn(crate, "count", GRP)
    # the product may be written in a closure handed to Option::map_or: look at the function with its closures
    ok = mul = False
    for sub in cnt.all_bodies():
        lens = [c for c in sub.calls if c.callee and c.callee.name == "len" and c.args and role_mentions_field(sub.role_of_operand(c.args[0]), "ot")]
        recs = [c for c in sub.calls if c.callee and c.callee.target == cnt.id and c.args and role_mentions_field(sub.role_of_operand(c.args[0]), "g")]
        for _, _, s_ in sub.statements():
            if s_["k"] == "assign" and s_["rv"]["k"] == "bin" and s_["rv"]["op"].startswith("Mul"):
                ra, rb = sub.role_of_operand(s_["rv"]["a"]), sub.role_of_operand(s_["rv"]["b"])
                if (role_mentions_call(ra, "len") and role_mentions_call(rb, "count")) or (role_mentions_call(rb, "len") and role_mentions_call(ra, "count")):
                    mul = True
        ok = ok or (bool(lens) and bool(recs))
    ctx.check(ok and mul, "count-is-product", "count() = ot.len() * next.g.count()", "count() is not the product of the orbit size and the stabiliser's count", where_of(cnt))
    base = any(d_["kind"] == "assign" and cnt.role_of_rvalue(d_["rv"]) == ("const", "1_usize") for d_ in cnt.defs().get(0, []))
    # ... or the default of `next.as_ref().map_or(1, ..)`
    for c in cnt.calls:
        if c.callee and c.callee.name in ("map_or", "unwrap_or") and len(c.args) >= 2 and cnt.role_of_operand(c.args[1]) == ("const", "1_usize") and role_mentions_field(cnt.role_of_operand(c.args[0]), "next"):
            base = True
    ctx.check(base, "count-base", "the trivial group has count 1", "count() of the trivial group is not 1", where_of(cnt))
    # ... and nothing else: every value count() can return is the constant 1 of the trivial group or the product — no "small
    # orbit => small group" shortcut (an orbit of size 2 at the first level says nothing about the stabiliser: Z2 x Z2)
    odd = []
    for sub in cnt.all_bodies():
        for d_ in sub.defs().get(0, []):
            if d_["kind"] != "assign":
                continue
            rv = d_["rv"]
            r_ = sub.role_of_rvalue(rv)
            if r_ == ("const", "1_usize"):
                continue
            if rv["k"] == "use" and rv["op"].get("k") == "const":
                odd.append(role_str(r_))
            elif rv["k"] == "use":
                sr = strip_role(r_)
                if isinstance(sr, tuple) and sr[0] == "const" and sr != ("const", "1_usize"):
                    odd.append(role_str(sr))
    ctx.check(not odd, "count-no-shortcut", "count() returns only 1 (trivial group) or orbit size x stabiliser count", "count() can return the constant %s without multiplying the orbit size with the stabiliser's count: the order of a group whose first orbit is small is not determined by that orbit (Z2 x Z2 has a first orbit of size 2 and four elements) — the symmetry total in the progress measure is then wrong and a round that only adds an independent symmetry counts as 'nothing changed'" % odd, where_of(cnt))
    orb = fn(crate, "orbit", GRP)
    bo = [c for c in orb.calls if c.callee and c.callee.name == "build_ot"]
    okb = False
    for c in bo:
        okb = role_mentions_call(orb.role_of_operand(c.args[2]), "generators") and strip_role(orb.role_of_operand(c.args[0])) == ("param", "s") and role_mentions_field(orb.role_of_operand(c.args[1]), "identity")
    ctx.check(okb, "orbit-from-generators", "orbit(s) = keys of build_ot(s, identity, generators())", "orbit(s) is not computed from all generators of the group", where_of(orb))
    ks = role_mentions_call(orb.role_of_local(0), "keys") or role_mentions_call(orb.role_of_local(0), "into_keys")
    ctx.check(ks, "orbit-is-keyset", "orbit returns the key set of the orbit table", "orbit does not return the orbit table's keys", where_of(orb))
    gi = fn(crate, "generators_impl", GRP)
    at = crate.deps(gi).atoms_of_local(gi, 0)
    okg = bool(mir.atoms_calls(at, "bitor")) and bool(mir.atoms_calls(at, "values")) and any(a[0] == "call" and a[5] == gi.id for a in at)
    ctx.check(okg, "generators-all-levels", "generators_impl unions ot.values() of every level", "generators_impl does not union the orbit-table values of all levels", where_of(gi))
    g = fn(crate, "generators", GRP)
    rm = [c for c in g.calls if c.callee and c.callee.name in ("remove", "retain")]
    okr = len(rm) == 1 and role_mentions_field(g.role_of_operand(rm[0].args[1]), "identity")
    ctx.check(okr, "generators-drop-identity-only", "generators() removes only the identity", "generators() removes something other than the identity (or several things)", where_of(g))


@rule("G5", doc="is_trivial <=> no generator moves a slot")
def g5(ctx):
    crate = ctx.lib()
    f = fn(crate, "find_lowest_nonstab")
    ne = [c for c in f.all_calls() if c.callee and c.callee.name in ("ne", "eq") and not c.body.blocks[c.bb]["cleanup"]]
    ok = False
    for c in ne:
        a, b_ = strip_role(c.body.role_of_operand(c.args[0])), strip_role(c.body.role_of_operand(c.args[1]))       # (the test may sit in a filter closure)
        ok = ok or (a != b_)
    ctx.check(ok, "moved-slot-test", "the base-point search considers exactly the slots with x != y", "find_lowest_nonstab no longer tests x != y", where_of(f))
    it = fn(crate, "is_trivial", GRP)
    r = it.role_of_local(0)
    ctx.check(role_mentions_call(r, "is_none") and role_mentions_field(r, "next"), "is-trivial", "is_trivial() = next.is_none()", "is_trivial() is %s" % role_str(r), where_of(it))
    nw = fn(crate, "new", GRP)
    r = [c for c in nw.calls if c.callee and c.callee.name == "find_lowest_nonstab"]
    ctx.check(len(r) == 1 and role_mentions_param(nw.role_of_operand(r[0].args[0]), "generators"), "new-uses-base-point", "Group::new stabilises the lowest moved slot of the generators",
              "Group::new does not pick its base point from the generators", where_of(nw))
    nx = [b for b in crate.by_name.get("new", []) if "group::Next" in (b.impl_self or "")]
    if len(nx) == 1:
        n = nx[0]
        order = [c.callee.name for c in n.calls if c.callee and c.callee.name in ("build_ot", "schreiers_lemma", "new") and not n.blocks[c.bb]["cleanup"]]
        ctx.check(order == ["build_ot", "schreiers_lemma", "new"], "next-new-pipeline", "Next::new = build_ot -> schreiers_lemma -> Group::new(stabiliser generators)",
                  "Next::new's pipeline is %s" % order, where_of(n))
        sl = [c for c in n.calls if c.callee and c.callee.name == "schreiers_lemma"][0]
        gnew = [c for c in n.calls if c.callee and c.callee.name == "new"][0]
        gr = strip_role(n.role_of_operand(gnew.args[1]))
        while isinstance(gr, tuple) and gr[0] == "call" and gr[1] in C.PASS_ADAPTORS | {"collect"} and gr[3]:
            gr = strip_role(gr[3][0])
        ctx.check(isinstance(gr, tuple) and gr[0] == "call" and gr[1] == "schreiers_lemma", "stabiliser-from-all-schreier-generators",
                  "the stabiliser is generated by the complete set of Schreier generators",
                  "Next::new hands %s to the stabiliser: the Schreier generators are post-processed (filtered / thinned) before the recursion. Dropping a Schreier generator without replacing it by its quotient loses elements of the point stabiliser — contains() then rejects permutations of the generated group" % role_str(n.role_of_operand(gnew.args[1]))[:100], where_of(n, gnew.bb))
        ctx.check(role_mentions_call(n.role_of_operand(gnew.args[1]), "schreiers_lemma"), "stabiliser-from-schreier", "the stabiliser is generated by the Schreier generators",
                  "the stabiliser sub-group is not built from the Schreier generators", where_of(n, gnew.bb))


RULES = [g1, g2, g3, g5]


@rule("G4", doc="the leader union adds a permutation only if it is not yet a member and reports no change otherwise")
def g4(ctx):
    crate = ctx.lib()
    n = 0
    for site in C.leader_add_sites(crate):
        c, lb = site["call"], site["body"]
        n += 1
        recv = strip_role(lb.role_of_operand(c.args[0]))
        perm = strip_role(lb.role_of_operand(c.args[1]))
        ok = False
        for e, cond in C.conditions_at(lb, c.bb):
            if cond[0] == "false":
                r = strip_role(cond[1])
                if isinstance(r, tuple) and r[0] == "call" and r[1] == "contains" and strip_role(r[3][0]) == recv and any(x == perm for x in role_walk(r[3][1])):
                    ok = True
                    sb = e[1]
                    t = lb.blocks[sb]["term"]
                    member_edges = [("e", sb, "otherwise")] if any(v == "0" for v, _ in t["cases"]) else [("e", sb, "1")]
                    rets_false = True
                    for d in lb.defs().get(0, []):
                        if d["kind"] == "assign" and lb.dominated_by(d["bb"], member_edges) and lb.role_of_rvalue(d["rv"]) != ("const", "false"):
                            rets_false = False
                    ctx.check(rets_false, "member-reports-no-change:" + C.fkey(lb), "when the permutation is already a member the union reports false",
                              "the leader union reports a change although the permutation was already in the class group", where_of(lb, sb))
        if not ok:
            # equivalent form: the answer of Group::add itself is used (it is `false`, and the group untouched, for a member):
            # `if !grp.add(p) { return false; }`
            for sb in lb.switch_blocks():
                t = lb.blocks[sb]["term"]
                pl = mir.op_place(t["discr"])
                if pl is None or pl["p"] or pl["l"] != c.dest["l"]:
                    continue
                same_e = [("e", sb, v) for v, _ in t["cases"] if v == "0"]
                if not same_e:
                    continue
                ok = True
                rets_false = True
                for d in lb.defs().get(0, []):
                    if d["kind"] == "assign" and lb.dominated_by(d["bb"], same_e) and lb.role_of_rvalue(d["rv"]) != ("const", "false"):
                        rets_false = False
                ctx.check(rets_false, "member-reports-no-change:" + C.fkey(lb), "when Group::add answers false (already a member) the union reports false",
                          "the leader union reports a change although Group::add said the permutation was already in the class group", where_of(lb, sb))
        ctx.check(ok, "add-only-non-member:" + C.fkey(lb), "Group::add is dominated by !group.contains(the same permutation), or its own answer decides what the union reports",
                  "the leader union adds a permutation without testing membership of that permutation in that group first", where_of(lb, c.bb))
    ctx.floor("Group::add sites in the leader union", n, 1)


RULES.append(g4)


@rule("G6", doc="completeness of the product loops: every (coset representative, generator) pair contributes, with no skip")
def g6(ctx):
    crate = ctx.lib()
    # schreiers_lemma: out gets exactly r s (rs-bar)^-1 for all r in ot, s in generators
    b = fn(crate, "schreiers_lemma")
    loops = C.iterator_loops(b)
    kinds = {}
    for l in loops:
        k = kind_of(crate, b, l[1])
        kinds[kstr(k)] = l
    ok = ("OTMAP" in kinds or "OT" in kinds) and ("GENSET" in kinds or "GEN" in kinds)
    ctx.check(ok and all(C.loop_exhaustive(b, l) for l in loops), "schreier-loops", "schreiers_lemma ranges over all of ot and all generators",
              "schreiers_lemma no longer ranges over every orbit-table entry and every generator (%s)" % sorted(kinds), where_of(b))
    ins = [c for c in b.calls if c.callee and c.callee.name == "insert" and "HashSet" in (c.callee.impl_self or "") and not b.blocks[c.bb]["cleanup"]]
    ctx.floor("inserts into the Schreier generator set", len(ins), 1)
    for i, c in enumerate(ins):
        v = kind_of(crate, b, b.role_of_operand(c.args[1]))
        ctx.check(kstr(v) == "COMP(COMP(OT, GEN), INV(OT))", "schreier-element:%d" % i, "the inserted element is r s (rs-bar)^-1",
                  "schreiers_lemma inserts %s into the stabiliser's generator set; every element must be r.compose(s).compose(ot[(rs)[stab]].inverse()) — inserting a generator as it is (or skipping the conjugation over the transversal) yields a proper subgroup of the stabiliser" % kstr(v), where_of(b, c.bb))
        C.check_only_allowed_skips(ctx, b, c.bb, [], "schreier:%d" % i, "contributing a Schreier generator")
    # build_ot: for every generator and every known orbit entry the image is recorded unless already present
    b = fn(crate, "build_ot")
    ins = [c for c in b.calls if c.callee and c.callee.name == "insert" and len(c.args) == 3 and "HashMap<slot::Slot" in optype(b, c.args[0]) and not b.blocks[c.bb]["cleanup"]]
    inner = [c for c in ins if strip_role(b.role_of_operand(c.args[2]))[0] == "call" and strip_role(b.role_of_operand(c.args[2]))[1] == "compose"]
    # `ot.entry(new[stab]).or_insert(new)`: insert-unless-present by construction
    inner += [c for c in b.calls if c.callee and c.callee.name in ("or_insert", "or_insert_with") and len(c.args) == 2 and not b.blocks[c.bb]["cleanup"]
              and role_mentions_call(b.role_of_operand(c.args[0]), "entry") and role_mentions_call(b.role_of_operand(c.args[1]), "compose")]
    ctx.floor("orbit-table extensions in build_ot", len(inner), 1)
    for c in inner:
        def _grew(t, cond):
            # the fixpoint loop written with a flag: `while grew { ..; grew = ot.len() != len_before }`
            r_ = cond[1] if len(cond) > 1 else None
            ms = r_[1] if isinstance(r_, tuple) and r_[0] == "phi" else [r_]
            return any(isinstance(x, tuple) and x[0] == "bin" and x[1] in ("Ne", "Eq", "Gt", "Lt") and role_mentions_call(x[2], "len") and role_mentions_call(x[3], "len") for x in ms) \
                and all((isinstance(x, tuple) and x[0] == "const") or (isinstance(x, tuple) and x[0] == "bin") for x in ms)
        C.check_only_allowed_skips(ctx, b, c.bb, [("false", lambda t, cond: t.startswith("contains_key(")), ("true", _grew), ("false", _grew)], "build_ot", "extending the orbit table")
    ls = [l for l in C.iterator_loops(b)]
    ctx.check(len(ls) >= 2 and all(C.loop_exhaustive(b, l) for l in ls), "build-ot-loops", "build_ot ranges over all generators and all current orbit entries", "a loop of build_ot can stop early", where_of(b))
    # fixpoint: the outer loop ends only when a round added nothing
    okfix = False
    for sb in b.switch_blocks():
        t = b.blocks[sb]["term"]
        r = b.role_of_operand(t["discr"])
        ms = r[1] if r[0] == "phi" else [r]
        for x in ms:
            if isinstance(x, tuple) and x[0] == "bin" and x[1] in ("Eq", "Ne", "Gt", "Lt") and role_mentions_call(x[2], "len") and role_mentions_call(x[3], "len"):
                okfix = True
    ctx.check(okfix, "build-ot-fixpoint", "build_ot repeats until the table stops growing (len before == len after)", "build_ot no longer iterates to a fixpoint", where_of(b))
    # ... and "a round" is the pass over ALL generators: what the exit test compares is measured outside the loop over the
    # generators (before it starts / after it ended), or is a flag that a pass can only raise.  A size taken, or a flag
    # assigned from a comparison, inside the per-generator loop records what the generator iterated LAST did — the loop then
    # stops while an earlier generator still extends the orbit, and which one is last depends on the hash order
    gl = [l for l in ls if b.argc >= 3 and mir.role_mentions_param(l[1], b.var_names.get(3) or "generators")]
    if gl and okfix:
        gbody = set()
        for l in gl:
            gbody |= C.loop_body(b, l)
        badm = []
        for sb in b.switch_blocks():
            t = b.blocks[sb]["term"]
            r = b.role_of_operand(t["discr"])
            ms = r[1] if r[0] == "phi" else [r]
            if not any(isinstance(x, tuple) and x[0] == "bin" and x[1] in ("Eq", "Ne", "Gt", "Lt") and role_mentions_call(x[2], "len") and role_mentions_call(x[3], "len") for x in ms):
                continue
            for df in C.local_slice(b, t["discr"]):
                if df["bb"] not in gbody:
                    continue
                if df["kind"] == "call":
                    if df["call"].callee and df["call"].callee.name == "len":
                        badm.append(("len() measured", df["bb"]))
                elif df["rv"]["k"] == "bin" and df["rv"]["op"] not in ("BitOr",):
                    badm.append(("comparison evaluated", df["bb"]))
                elif df["rv"]["k"] == "use" and df["rv"]["op"]["k"] == "const" and df["rv"]["op"].get("text") == "false" and not df["lhs"]["p"]:
                    # (the lowered `a && b` / `!x` temporaries assign false as well: only a store to a user variable counts)
                    if b.var_names.get(df["lhs"]["l"]):
                        badm.append(("flag reset", df["bb"]))
        ctx.check(not badm, "build-ot-fixpoint:whole-round", "the exit test of build_ot's fixpoint loop compares sizes measured outside the loop over the generators",
                  "the exit test of build_ot's fixpoint loop depends on a value computed inside the loop over the generators (%s): it reflects only the generator that happens to be iterated last, so the orbit table is abandoned while other generators still extend it — orbits come out incomplete (which ones depends on the hash order of the generator set)" % ", ".join(sorted({x[0] for x in badm})),
                  where_of(b, badm[0][1] if badm else None))
    # all_perms: the product left x right is complete
    b = fn(crate, "all_perms", GRP)
    ext = [c for c in b.calls if c.callee and c.callee.name in ("extend", "push") and not b.blocks[c.bb]["cleanup"]]
    for i, c in enumerate(ext):
        C.check_only_allowed_skips(ctx, b, c.bb, [], "all_perms:%d" % i, "emitting the elements of a coset")
    ls = C.iterator_loops(b)
    ctx.check(bool(ls) and all(C.loop_exhaustive(b, l) for l in ls), "all-perms-loops", "all_perms ranges over every coset representative", "all_perms can stop early", where_of(b))
    bad = [x[1] for c in ext for x in role_walk(b.role_of_operand(c.args[1])) if isinstance(x, tuple) and x[0] == "call" and x[1] in ("filter", "take", "skip", "step_by", "take_while", "skip_while", "filter_map")]
    ctx.check(not bad, "all-perms-unfiltered", "every stabiliser element is composed with every representative", "all_perms drops elements through %s" % bad, where_of(b))


RULES.append(g6)


@rule("G7", doc="a derived self-symmetry is stored only if it permutes the class's slots: the two invocations it is read off must have the same slot set (else the class has to shrink — that is a union, not a group element)")
def g7(ctx):
    crate = ctx.lib()
    sw = set(C.slot_writers(crate))
    leaders = set(C.leader_union_functions(crate)) | set(C.leader_helpers(crate))
    n = 0
    for b, c in C.self_symmetry_sites(crate):
        if True:
            n += 1
            sub = c.body
            # the permutation: compose(Y.m, inverse(X.m))
            pr = sub.role_of_operand(c.args[1])
            comp = [x for x in role_walk(pr) if isinstance(x, tuple) and x[0] == "call" and x[1] == "compose" and len(x[3]) == 2]
            ok = False
            seen = []
            if comp:
                y = strip_role(comp[0][3][0])
                x_ = strip_role(comp[0][3][1])
                ybase = strip_role(y[1]) if isinstance(y, tuple) and y[0] == "field" and y[2] == "m" else None
                xinv = x_[3][0] if isinstance(x_, tuple) and x_[0] == "call" and x_[1] == "inverse" and x_[3] else None
                xbase = None
                if xinv is not None:
                    xi = strip_role(xinv)
                    xbase = strip_role(xi[1]) if isinstance(xi, tuple) and xi[0] == "field" and xi[2] == "m" else None
                for e, cond in C.conditions_at(sub, c.bb):
                    if cond[0] == "eq" and len(cond) == 3:
                        l_, r_ = strip_role(cond[1]), strip_role(cond[2])
                        if all(isinstance(z, tuple) and z[0] == "call" and z[1] == "slots" and z[3] for z in (l_, r_)):
                            bases = {role_str(strip_role(l_[3][0])), role_str(strip_role(r_[3][0]))}
                            seen.append(sorted(bases))
                            if ybase is not None and xbase is not None and bases == {role_str(ybase), role_str(xbase)}:
                                ok = True
                    if cond[0] == "true" and isinstance(strip_role(cond[1]), tuple) and strip_role(cond[1])[0] == "call" and strip_role(cond[1])[1] == "is_perm":
                        ok = True
            ctx.check(ok, "derived-symmetry-is-a-permutation:" + C.fkey(b),
                      "%s stores the derived symmetry only when both invocations have the same slot set" % C.short(b.id),
                      "%s adds b.m ; a.m^-1 to the class group without having established slots(a) == slots(b) (guards seen: %s). When a symmetric child lets a variant of the e-node move a class slot onto a slot that is redundant in the node, the map is not a permutation of the class's slots: Group::contains then indexes a missing key (panic in rebuild) — the class slot is redundant and the class must shrink instead" % (C.short(b.id), seen),
                      where_of(sub, c.bb))
    ctx.floor("derived-symmetry add sites", n, 1)


RULES.append(g7)


@rule("G8", doc="symmetry transfer on a class merge: the generators of the deprecated class are renamed by a map from ITS slots to the survivor's slots (deprecated.m ; survivor.m^-1), and handed to the survivor's group")
def g8(ctx):
    crate = ctx.lib()
    reg = C.merge_region(crate)
    n = 0
    for fid in sorted(reg["members"]):
        b = crate.bodies[fid]
        for c in b.calls:
            if not (c.callee and c.callee.name in ("add_set", "add") and c.callee.is_(c.callee.name, GRP)) or b.blocks[c.bb]["cleanup"]:
                continue
            recv = b.role_of_operand(c.args[0])
            arg = b.role_of_operand(c.args[1])

            def class_of(r):
                for x in role_walk(r):
                    if isinstance(x, tuple) and x[0] == "call" and x[1] in ("get_mut", "index", "index_mut", "get") and len(x[3]) == 2 and role_mentions_field(x[3][0], "classes"):
                        k = strip_role(x[3][1])
                        if isinstance(k, tuple) and k[0] == "field" and k[2] == "id":
                            return strip_role(k[1])
                return None
            T = class_of(recv)
            gens = [x for x in role_walk(arg) if isinstance(x, tuple) and x[0] == "call" and x[1] in ("generators", "all_perms")]
            F = class_of(gens[0][3][0]) if gens and gens[0][3] else None
            if T is None or F is None:
                continue
            n += 1
            # the transfer happens on every merge: the only reason to skip it would be that the DEPRECATED class has no symmetries
            C.check_only_allowed_skips(ctx, b, c.bb, [
                ("false", lambda t, cond: t.startswith("is_trivial(") and role_str(F) in t and role_str(T) not in t),
                ("true", lambda t, cond: False),
            ], "symmetry-transfer:" + C.fkey(b), "handing the deprecated class's generators to the survivor")
            ctx.check(T != F, "transfer-between-classes:" + C.fkey(b), "generators of %s go to the group of %s" % (role_str(F), role_str(T)), "the merge re-adds a class's generators to its own group", where_of(b, c.bb))
            # every slot-map lookup inside the transporting closures uses a map  F.m ; T.m^-1
            maps = []
            for sub in b.all_bodies():
                if sub is b:
                    continue
                for x in sub.calls:
                    if x.callee and x.callee.name in ("index", "get", "contains_key") and x.args and not sub.blocks[x.bb]["cleanup"]:
                        r = strip_role(sub.role_of_operand(x.args[0]))
                        if isinstance(r, tuple) and r[0] == "call" and r[1] in ("compose", "compose_partial", "compose_fresh") and len(r[3]) == 2:
                            maps.append((sub, x, r))
            if not maps:
                # the transport may live in a helper that gets the map as an argument
                for sub in b.all_bodies():
                    if sub is b:
                        continue
                    for x in sub.calls:
                        if not (x.callee and x.callee.target in crate.bodies) or sub.blocks[x.bb]["cleanup"]:
                            continue
                        for a_ in x.args:
                            r = strip_role(sub.role_of_operand(a_))
                            if isinstance(r, tuple) and r[0] == "call" and r[1] in ("compose", "compose_partial", "compose_fresh") and len(r[3]) == 2:
                                maps.append((sub, x, r))
            if not maps:
                seen_ = sorted({role_str(strip_role(sub.role_of_operand(x.args[0])))[:70] for sub in b.all_bodies() if sub is not b for x in sub.calls
                                if x.callee and x.callee.name in ("index", "get", "contains_key") and x.args and not sub.blocks[x.bb]["cleanup"]})
                ctx.bad("transport-map-direction:" + C.fkey(b),
                        "%s renames the generators of %s through %s, which is not the composition %s.m ; %s.m^-1 of the two invocations' maps: only that composition pairs a slot of the deprecated class with the survivor's slot that is instantiated with the SAME argument. Any other pairing (by position in key order, by name) is right only when the two classes' slot names happen to sort alike — the survivor gets a permutation that is not a symmetry, depending on how the user's names sort" % (
                            C.short(fid), role_str(F), seen_ or "no slot-map lookup", role_str(F), role_str(T)), where_of(b, c.bb))
                continue
            for sub, x, r in maps:
                a0 = strip_role(r[3][0])
                a1 = strip_role(r[3][1])
                src = strip_role(a0[1]) if isinstance(a0, tuple) and a0[0] == "field" and a0[2] == "m" else None
                inv = strip_role(a1[3][0]) if isinstance(a1, tuple) and a1[0] == "call" and a1[1] == "inverse" and a1[3] else None
                dst = strip_role(inv[1]) if isinstance(inv, tuple) and inv[0] == "field" and inv[2] == "m" else None
                ok = src == F and dst == T
                ctx.check(ok, "transport-map-direction:" + C.fkey(b), "the transported symmetries are renamed by %s.m ; %s.m^-1 (slots of the deprecated class -> slots of the survivor)" % (role_str(F), role_str(T)),
                          "%s renames the generators of %s with the map %s: it must be %s.m ; %s.m^-1 (from the deprecated class's slots to the survivor's). With the converse map the lookups miss (or hit unrelated slots) and the deprecated class's symmetries are silently dropped or corrupted on every merge" % (
                              C.short(fid), role_str(F), role_str(r)[:80], role_str(F), role_str(T)), where_of(sub, x.bb))
    ctx.floor("symmetry transfers in the merge region", n, 1)


RULES.append(g8)


@rule("G9", doc="a group rebuilt over a smaller slot set gets generators cut down to that set: every permutation stored when a class shrinks went through a membership filter on the kept slots")
def g9(ctx):
    crate = ctx.lib()
    n = 0
    for wid in C.need("slot-set writer (shrink_slots)", C.slot_writers(crate)):
        b = crate.bodies[wid]
        news = [c for c in b.all_calls() if c.callee and c.callee.is_("new", "group::Group") and not c.body.blocks[c.bb]["cleanup"]]
        if not news:
            continue
        # the permutations built in this function (and its closures): ProvenPerm { elem, .. } — also when the construction sits
        # in a single-use helper the function was split into, or in a tiny constructor helper (mk_proven_perm(elem, proof))
        bv = mir.inline_view(crate, b, keep=("new",))
        subs = [bv] + [mir.accessor_view(crate, mir.inline_view(crate, x, keep=("new",))) for x in bv.all_bodies() if x is not bv]
        for sub in subs:
            for bi, si, st in sub.statements():
                rv = st["rv"] if st["k"] == "assign" else None
                if not (rv and rv["k"] == "agg" and rv.get("agg") == "adt" and str(rv.get("adt", "")).endswith("ProvenPerm")):
                    continue
                if sub.blocks[bi]["cleanup"]:
                    continue
                fields = rv.get("fields", [])
                el = sub.role_of_operand(rv["ops"][fields.index("elem")]) if "elem" in fields else None
                # only permutations made out of an existing one (an old generator carried over); the identity of the new group
                # is built from the kept slot set itself
                if el is None or not role_mentions_field(el, "elem"):
                    continue
                n += 1
                ok = False
                if el is not None:
                    for x in role_walk(el):
                        if isinstance(x, tuple) and x[0] == "call" and x[1] in ("filter", "retain", "filter_map") and len(x[3]) >= 2:
                            cl = C._closure_of_role(crate, x[3][1])
                            if hasattr(cl, "calls") and any(c.callee and c.callee.name in ("contains", "contains_key") for c in cl.calls):
                                ok = True
                        if isinstance(x, tuple) and x[0] == "call" and x[1].startswith("restrict"):
                            ok = True
                ctx.check(ok, "generators-cut-to-kept-slots:" + C.fkey(b), "%s stores generators whose entries were filtered by membership in the kept slot set" % C.short(wid),
                          "%s builds the shrunk class's group from a permutation that still has entries for the dropped slots (%s): Group::new stabilises the lowest moved slot — if that is a dropped one, build_ot indexes a permutation that lacks it and a plain union panics ('index missing'); otherwise the group acts on more slots than the class has" % (C.short(wid), role_str(el)[:60] if el is not None else "?"),
                          where_of(sub, bi, st.get("line")))
    ctx.floor("permutations built while shrinking a class", n, 1)


RULES.append(g9)


@rule("MC", doc="must-call census: no function of this property's files has gained an early exit in front of work it always did (every crate-local call that lay on all paths to a normal return in the reviewed tree still does)")
def mc(ctx):
    C.must_call_census(ctx, ctx.lib(), ['src/group/mod.rs', 'src/egraph/union.rs', 'src/egraph/mod.rs', 'src/explain/wrapper/perm.rs'])


RULES.append(mc)


@rule("G10", doc="when a class loses a slot its symmetries are either restricted to the kept slots or re-asserted: the split is made by membership in the slot set the class is given, over all entries of a generator, and every left-over generator is re-asserted (C02.P7) — otherwise the class keeps a slot its symmetries prove redundant, or its group gets a non-permutation")
def g10(ctx):
    from . import c02
    c02.p7(ctx)


RULES.append(g10)


@rule("G11", doc="an invocation padded to the syntactic slots of its class stays a bijection: every missing slot gets its own Slot::fresh() (C03.H10) — with a shared one the assertion in AppliedId::new panics inside a union that asserts a symmetry of a class with two redundant slots (explanations + checks builds)")
def g11_h10(ctx):
    from . import c03
    c03.h10(ctx)


RULES.append(g11_h10)


@rule("G12", doc="the symmetries of a NEW class are derived when it is created: its first e-node is queued with PendingType::Full unconditionally (C14.A4) — the self-symmetry derivation runs for it even when no child has redundant slots")
def g12_a4(ctx):
    from . import c14
    c14.a4(ctx)


RULES.append(g12_a4)

"""C04 — every represented instance of a rule's left side fires (enumeration completeness of the matcher)."""
import re
from salib import mir
from salib.mir import role_str, role_walk, strip_role, role_mentions_field, role_mentions_call, role_mentions_param
from salib.runner import rule, where_of
from . import common as C

META = {
    "level": "other",
    "explanation": "Decides that the single-pattern matcher enumerates everything: all live classes (M1), all e-nodes of a class with the "
                   "operator mismatch as the only skip (M2), all group-compatible weak variants of a node with shape mismatch and "
                   "slot-bijection conflict as the only skips, and all children (M3); the variant enumeration itself covers the "
                   "cartesian product of the symmetry groups of every child and has no shortcut other than 'all groups trivial' (M3b/c).",
    "not_decided": "that each planted instance fires as a behavioural fact; the two documented limitations (bound-slot reuse, redundant slots) are outside the property",
    "assumptions": [],
}

MATCHER_ANCHORS = ("try_insert_compatible_slotmap_bij", "ematch_impl", "ematch_node", "get_group_compatible_weak_variants", "nullify_app_ids")
BAD_ADAPTORS = {"filter", "filter_map", "take", "skip", "step_by", "take_while", "skip_while", "map_while", "find", "find_map", "nth", "last", "next_back", "truncate"}


def fn(crate, name, file_end):
    bs = [b for b in crate.by_name.get(name, []) if b.kind != "Closure" and ((b.file or "").endswith(file_end) or crate.aliases.get(b.id) == name)]
    if len(bs) != 1:
        raise mir.AnchorMissing(name, "found %d in %s" % (len(bs), file_end))
    return bs[0]


def arg_by_type(body, call, needle, default):
    """the argument of a call whose (reference-stripped) type mentions `needle` (the callee may have gained / lost a
    receiver or context parameter: positions shift, types do not); falls back to position `default`"""
    hits = []
    for a in call.args:
        pl = mir.op_place(a)
        if pl is not None and needle in body.local_ty(pl["l"]).lstrip("&").replace("mut ", "") and "EGraph" not in body.local_ty(pl["l"]):
            hits.append(a)
    if len(hits) == 1:
        return hits[0]
    return call.args[default] if default < len(call.args) else call.args[-1]


def node_matcher(crate):
    """(body, hosted): the function that matches one e-node against the pattern node — `ematch_node`, or, when that
    helper was folded into its only caller, the recursive matcher itself (hosted=True: what were parameters of the
    helper are now values of the host: the e-node is an element of enodes_applied(i), the pattern node a field of
    the pattern)"""
    try:
        return fn(crate, "ematch_node", "rewrite/ematch.rs"), False
    except mir.AnchorMissing:
        host = fn(crate, "ematch_impl", "rewrite/ematch.rs")
        if not any(c.callee and c.callee.name == "get_group_compatible_weak_variants" for c in host.all_calls()):
            raise
        return host, True


def _loop_over(b, callname):
    for lp in C.iterator_loops(b):
        if role_mentions_call(lp[1], callname):
            return lp
    return None


@rule("M1", doc="ematch_all ranges over all live classes and keeps every result")
def m1(ctx):
    crate = ctx.lib()
    b = fn(crate, "ematch_all", "rewrite/ematch.rs")
    lp = _loop_over(b, "ids")
    if lp is None:
        # adaptor form: ids().into_iter().flat_map(|i| ematch_impl(.., identity(i), ..)).map(final_subst).collect()
        chains = C.adaptor_chains(b, "ids")
        if not chains:
            raise mir.AnchorMissing("loop or adaptor chain over EGraph::ids() in ematch_all")
        for ch in chains:
            names = [n for n, _ in ch["adaptors"]]
            bad = sorted(n for n in names if n in BAD_ADAPTORS or (n not in C.PASS_ADAPTORS and n not in ("flat_map", "map", "for_each", "extend")))
            ctx.check(not bad, "all-classes", "ematch_all feeds every class of ids() through the matcher (chain: %s)" % names,
                      "ematch_all iterates ids() through %s: classes can be dropped before they are searched" % bad, where_of(b, ch["sink"].bb))
            ctx.check(not bad, "ids-unfiltered", "no dropping adaptor between ids() and the result", "ematch_all iterates ids() through %s" % bad, where_of(b, ch["sink"].bb))
            ctx.check(not bad, "results-unfiltered", "every state returned for a class is turned into a substitution (no filter between)", "ematch_all drops matcher results through %s" % bad, where_of(b, ch["sink"].bb))
            n_imp = 0
            for n, cl in ch["adaptors"]:
                if n in ("flat_map", "map", "for_each") and hasattr(cl, "calls"):
                    for c in cl.calls:
                        if c.callee and c.callee.name == "ematch_impl":
                            n_imp += 1
                            r = strip_role(cl.role_of_operand(arg_by_type(cl, c, "types::AppliedId", 2)))
                            elem = [cl.var_names.get(l) for l in range(2, cl.argc + 1)]
                            ok = r[0] == "call" and "identity" in r[1] and any(role_mentions_param(r, e) for e in elem if e)
                            ctx.check(ok, "root-is-identity-invocation", "each class is matched through its identity invocation", "ematch_all matches class i through %s" % role_str(r), where_of(cl, c.bb))
                            r1 = strip_role(cl.role_of_operand(arg_by_type(cl, c, "::State", 1)))
                            ctx.check(r1[0] == "call" and r1[1] == "default", "root-state-empty", "matching of a class starts from the empty state", "matching starts from state %s" % role_str(r1), where_of(cl, c.bb))
            ctx.floor("ematch_impl calls in the class chain", n_imp, 1)
        return
    ctx.check(C.loop_exhaustive(b, lp), "all-classes", "the class loop of ematch_all exits only when ids() is exhausted",
              "ematch_all can leave its class loop early: classes after the exit are never searched", where_of(b, lp[0]))
    it = lp[1]
    bad = sorted({x[1] for x in role_walk(it) if isinstance(x, tuple) and x[0] == "call" and x[1] in BAD_ADAPTORS})
    ctx.check(not bad, "ids-unfiltered", "the class loop ranges over ids() with no dropping adaptor", "ematch_all iterates ids() through %s" % bad, where_of(b, lp[0]))
    ext = [c for c in b.calls if c.callee and c.callee.name in ("extend", "push", "append") and not b.blocks[c.bb]["cleanup"]]
    ctx.floor("result accumulation sites in ematch_all", len(ext), 1)
    # (the matcher may hand its states back through a `&mut Vec<State>` out-parameter: that vector then is its result)
    out_vecs = []
    for c in b.calls:
        if c.callee and c.callee.name == "ematch_impl" and not b.blocks[c.bb]["cleanup"]:
            for a in c.args:
                pl = mir.op_place(a)
                if pl is not None and b.local_ty(pl["l"]).startswith("&mut") and "Vec<" in b.local_ty(pl["l"]):
                    out_vecs.append(strip_role(b.role_of_operand(a)))
    for c in ext:
        r = b.role_of_operand(c.args[1])
        bad = sorted({x[1] for x in role_walk(r) if isinstance(x, tuple) and x[0] == "call" and x[1] in BAD_ADAPTORS})
        from_matcher = role_mentions_call(r, "ematch_impl") or any(strip_role(x) in out_vecs for x in role_walk(r) if isinstance(x, tuple))
        ctx.check(not bad and from_matcher, "results-unfiltered", "every state returned for a class is turned into a substitution (no filter between)",
                  "ematch_all drops matcher results through %s" % bad, where_of(b, c.bb))
        C.check_only_allowed_skips(ctx, b, c.bb, [], "ematch_all", "accumulating the matches of a class")
    imp = [c for c in b.calls if c.callee and c.callee.name == "ematch_impl"]
    for c in imp:
        r = strip_role(b.role_of_operand(arg_by_type(b, c, "types::AppliedId", 2)))
        ok = r[0] == "call" and "identity" in r[1] and role_mentions_call(r, "next")
        ctx.check(ok, "root-is-identity-invocation", "each class is matched through its identity invocation", "ematch_all matches class i through %s" % role_str(r), where_of(b, c.bb))
        r1 = strip_role(b.role_of_operand(arg_by_type(b, c, "::State", 1)))
        ctx.check(r1[0] == "call" and r1[1] == "default", "root-state-empty", "matching of a class starts from the empty state", "matching starts from state %s" % role_str(r1), where_of(b, c.bb))


@rule("M2", doc="the e-node arm ranges over enodes_applied(i); the only skip is operator inequality")
def m2(ctx):
    crate = ctx.lib()
    b = fn(crate, "ematch_impl", "rewrite/ematch.rs")
    lp = _loop_over(b, "enodes_applied")
    if lp is None:
        # adaptor form: enodes_applied(&i).iter().filter(|nn| discriminant(nn) == discriminant(n)).for_each(|nn| ematch_node(..))
        chains = C.adaptor_chains(b, "enodes_applied")
        if not chains:
            raise mir.AnchorMissing("loop or adaptor chain over enodes_applied in ematch_impl")
        for ch in chains:
            names = [n for n, _ in ch["adaptors"]]
            bad = []
            nn = 0
            for n, cl in ch["adaptors"]:
                if n in C.PASS_ADAPTORS:
                    continue
                if n == "filter" and hasattr(cl, "calls"):
                    # the only admissible filter: operator (discriminant) equality
                    r = strip_role(cl.role_of_local(0))
                    ds = [x for x in role_walk(r) if isinstance(x, tuple) and x[0] == "call" and x[1] == "discriminant"]
                    if isinstance(r, tuple) and r[0] == "call" and r[1] in ("eq",) and len(ds) + (1 if any(isinstance(x, tuple) and x[0] in ("upvar", "field", "param") for x in role_walk(r)) else 0) >= 2 and ds:
                        continue
                    bad.append("filter(%s)" % role_str(r)[:60])
                elif n in ("for_each", "map", "flat_map") and hasattr(cl, "calls"):
                    nn += sum(1 for c in cl.calls if c.callee and c.callee.name == "ematch_node")
                else:
                    bad.append(n)
            ctx.check(not bad, "all-enodes", "every e-node of enodes_applied(i) with the pattern node's operator is handed to ematch_node (chain: %s)" % names,
                      "the e-node chain of ematch_impl drops e-nodes through %s" % bad, where_of(b, ch["sink"].bb))
            ctx.check(not bad, "enodes-unfiltered", "no dropping adaptor on enodes_applied(i) other than the operator test", "the e-node chain iterates through %s" % bad, where_of(b, ch["sink"].bb))
            r = strip_role(ch["source"][3][1]) if len(ch["source"][3]) > 1 else None
            ctx.check(r == ("param", "i"), "enodes-of-queried-invocation", "e-nodes are those of the queried invocation i", "the e-node chain enumerates %s" % role_str(r), where_of(b, ch["sink"].bb))
            ctx.floor("ematch_node call sites", nn, 1)
        return
    ctx.check(C.loop_exhaustive(b, lp), "all-enodes", "the e-node loop exits only when enodes_applied(i) is exhausted",
              "the e-node loop of ematch_impl can be left early", where_of(b, lp[0]))
    bad = sorted({x[1] for x in role_walk(lp[1]) if isinstance(x, tuple) and x[0] == "call" and x[1] in BAD_ADAPTORS})
    if bad == ["filter"]:
        # the operator test may sit in a filter of the loop's iterator: admissible iff it is discriminant equality
        okf = True
        for x in role_walk(lp[1]):
            if isinstance(x, tuple) and x[0] == "call" and x[1] == "filter" and len(x[3]) == 2:
                cl = C._closure_of_role(crate, x[3][1])
                r = strip_role(cl.role_of_local(0)) if hasattr(cl, "calls") else None
                ds = [y for y in role_walk(r) if isinstance(y, tuple) and y[0] == "call" and y[1] == "discriminant"] if r is not None else []
                okf = okf and isinstance(r, tuple) and r[0] == "call" and r[1] == "eq" and bool(ds)
        if okf:
            bad = []
    ctx.check(not bad, "enodes-unfiltered", "no dropping adaptor on enodes_applied(i)", "the e-node loop iterates through %s" % bad, where_of(b, lp[0]))
    en = [c for c in b.calls if c.callee and c.callee.name == "enodes_applied"]
    for c in en:
        ctx.check(strip_role(b.role_of_operand(c.args[1])) == ("param", "i"), "enodes-of-queried-invocation", "e-nodes are those of the queried invocation i",
                  "the e-node loop enumerates %s" % role_str(b.role_of_operand(c.args[1])), where_of(b, c.bb))
    nodes = [c for c in b.calls if c.callee and c.callee.name == "ematch_node"]
    if not nodes and node_matcher(crate)[1]:
        # the node matcher was folded into this function: its entry is the variant enumeration
        nodes = [c for c in b.calls if c.callee and c.callee.name == "get_group_compatible_weak_variants" and not b.blocks[c.bb]["cleanup"]]
    ctx.floor("ematch_node call sites", len(nodes), 1)
    for c in nodes:
        C.check_only_allowed_skips(ctx, b, c.bb,
                                   [("eq", lambda t, cond: t.startswith("discriminant(") and "discriminant(" in t[13:])],
                                   "ematch_impl", "matching an e-node against the pattern node")


@rule("M3", doc="the node matcher ranges over all weak variants and all children; skips: shape mismatch, slot-bijection conflict")
def m3(ctx):
    crate = ctx.lib()
    b0, hosted = node_matcher(crate)
    b = mir.inline_view(crate, b0, keep=MATCHER_ANCHORS)
    lp = _loop_over(b, "get_group_compatible_weak_variants")
    if lp is None:
        raise mir.AnchorMissing("loop over get_group_compatible_weak_variants in ematch_node")
    ctx.check(C.loop_exhaustive(b, lp), "all-variants", "the variant loop exits only when the variants are exhausted",
              "the variant loop of ematch_node can be left early (break/return)", where_of(b, lp[0]))
    # the loop ranges over the variant enumeration itself — not over "the variants, or just the stored spelling when .."
    src = strip_role(lp[1])
    while isinstance(src, tuple) and src[0] == "call" and src[1] in C.PASS_ADAPTORS and src[3]:
        src = strip_role(src[3][0])
    ctx.check(isinstance(src, tuple) and src[0] == "call" and src[1] == "get_group_compatible_weak_variants", "variants-unconditional",
              "the candidates of ematch_node are exactly get_group_compatible_weak_variants(nn)",
              "ematch_node iterates %s: on some path the candidates are not the full variant enumeration of the e-node. Which grandchild binds which pattern variable depends on the orientation of a symmetric child even when the child patterns mention no slot, so an instance that exists only as a group variant of the stored node is never matched" % role_str(src)[:120], where_of(b, lp[0]))
    v = [c for c in b.calls if c.callee and c.callee.name == "get_group_compatible_weak_variants"]
    for c in v:
        C.check_only_allowed_skips(ctx, b, c.bb, [("eq", lambda t, cond: t.startswith("discriminant(") and "discriminant(" in t[13:])],      # (operator mismatch: legitimate in the caller's loop or here)
                                   "variant-enumeration", "enumerating the group-compatible variants of the e-node")
        a1 = strip_role(b.role_of_operand(c.args[1]))
        ctx.check(a1 == ("param", "nn") or (hosted and role_mentions_call(a1, "enodes_applied") and role_mentions_call(a1, "next")), "variants-of-the-enode", "variants are those of the e-graph node nn",
                  "variants are enumerated for %s" % role_str(b.role_of_operand(c.args[1])), where_of(b, c.bb))
    ext = C.result_sinks(b, "out")
    ctx.floor("result extension sites in ematch_node", len(ext), 1)
    for c in ext:
        C.check_only_allowed_skips(ctx, b, c.bb, [
            ("eq", lambda t, cond: "weak_shape(" in t and t.count("weak_shape(") >= 2),
            ("true", lambda t, cond: t.startswith("try_insert_compatible_slotmap_bij(")),
            # (the own-slot loop written as `zip(..).all(|(x, y)| try_insert_compatible_slotmap_bij(x, y, ..))`: the same conflict test)
            ("true", lambda t, cond: t.startswith("all(") and "all_slot_occurrences(" in t and C.is_forall_role(crate, cond[1], "try_insert_compatible_slotmap_bij")),
        ] + [("eq", lambda t, cond: t.startswith("discriminant(") and "discriminant(" in t[13:])], "ematch_node", "accepting a variant")
    # children: zip of all applied ids with all child patterns, inner loops exhaustive
    loops = C.iterator_loops(b)
    zl = [l for l in loops if role_mentions_call(l[1], "zip") and role_mentions_call(l[1], "applied_id_occurrences")]
    folds = child_folds(crate, b)
    ctx.check((len(zl) == 1 and C.loop_exhaustive(b, zl[0]) is not None) or (not zl and len(folds) == 1), "children-zip", "children are matched by zipping applied_id_occurrences(n2) with the child patterns",
              "the child loop no longer zips the node's children with the pattern's children", where_of(b))
    for l in loops:
        if l is lp:
            continue
        # inner loops may `continue 'nodeloop` (slot conflict) but must not break out to after the variant loop
        pass
    rec = [c for c in b.all_calls() if c.callee and c.callee.name == "ematch_impl"]
    ctx.check(len(rec) >= 1, "recursion", "each child is matched recursively against its child pattern", "ematch_node no longer recurses into the children", where_of(b))
    if len(zl) == 1:
        every_child_matched(ctx, crate, b, zl[0])
    elif len(folds) == 1:
        every_child_matched_closure(ctx, crate, b, folds[0])


def child_folds(crate, b):
    """the child loop in adaptor form: `zip(applied_id_occurrences(variant), children).fold(vec![st], |acc, (id, pat)| ..)` (also
    for_each / try_fold) — [(call site, closure body)] for closures that reach the recursive matcher"""
    out = []
    for c in b.calls:
        if c.callee and c.callee.name in ("fold", "try_fold", "for_each", "try_for_each") and not b.blocks[c.bb]["cleanup"] and c.args:
            r0 = b.role_of_operand(c.args[0])
            if role_mentions_call(r0, "zip") and role_mentions_call(r0, "applied_id_occurrences") and not any(isinstance(x, tuple) and x[0] == "call" and x[1] in BAD_ADAPTORS for x in role_walk(r0)):
                cl = C._closure_of_role(crate, b.role_of_operand(c.args[-1]))
                if hasattr(cl, "calls") and any(x.callee and x.callee.name == "ematch_impl" for sub in cl.all_bodies() for x in sub.calls):
                    out.append((c, cl))
    return out


def every_child_matched_closure(ctx, crate, b, fold):
    """every_child_matched for the adaptor form: every path through the per-child closure passes the match step"""
    c, cl = fold
    cv = mir.inline_view(crate, cl, keep=MATCHER_ANCHORS)
    steps = set()
    for x in cv.calls:
        if cv.blocks[x.bb]["cleanup"] or not x.callee:
            continue
        if x.callee.name == "ematch_impl":
            steps.add(x.bb)
        else:
            for a in x.args:
                for y in role_walk(cv.role_of_operand(a)):
                    if isinstance(y, tuple) and y[0] == "agg" and isinstance(y[1], str) and y[1] in crate.bodies and any(z.callee and z.callee.name == "ematch_impl" for z in crate.bodies[y[1]].calls):
                        steps.add(x.bb)
    for l in C.iterator_loops(cv):
        if any(x.bb in C.loop_body(cv, l) and x.callee and x.callee.name == "ematch_impl" for x in cv.calls):
            steps.add(l[0])
    ctx.floor("match steps inside the child loop of the node matcher", len(steps), 1)
    ok = bool(steps) and cv.must_pass([0], cv.return_blocks(), steps)
    ctx.check(ok, "every-child-matched", "every application of the per-child step passes the recursive match of that child against its pattern",
              "the per-child step of the node matcher can answer without matching the child against its child pattern (an early return / fast path in front of the recursive ematch_impl): the child's slot arguments are never compared",
              where_of(cl))


def every_child_matched(ctx, crate, b, zl):
    """every iteration of the child loop runs the recursive matcher over the accumulated states: no path from the loop's Some edge
    back to its head avoids the match step (the inner loop / adaptor call whose body calls ematch_impl, or the call itself).  A
    `continue` in front of it ("this child is ground, compare class ids instead") accepts a candidate whose child was never
    compared with its pattern: slot arguments of that child are unconstrained, so reported matches are not instances."""
    rec_name = "ematch_impl"

    def calls_rec(body_):
        return any(c.callee and c.callee.name == rec_name for sub in body_.all_bodies() for c in sub.calls)
    steps = set()
    for c in b.calls:
        if b.blocks[c.bb]["cleanup"] or not c.callee:
            continue
        if c.callee.name == rec_name:
            steps.add(c.bb)
        else:
            for a in c.args:
                for x in role_walk(b.role_of_operand(a)):
                    if isinstance(x, tuple) and x[0] == "agg" and isinstance(x[1], str) and x[1] in crate.bodies and calls_rec(crate.bodies[x[1]]):
                        steps.add(c.bb)
    for l in C.iterator_loops(b):
        if l[0] != zl[0] and l[0] in C.loop_body(b, zl) and any(c.bb in C.loop_body(b, l) and c.callee and c.callee.name == rec_name for c in b.calls):
            steps.add(l[0])
    steps = {x for x in steps if x in C.loop_body(b, zl) or x == zl[0]} - {zl[0]}
    ctx.floor("match steps inside the child loop of the node matcher", len(steps), 1)
    ok = bool(steps) and b.must_pass(zl[3], [zl[0]], steps)
    ctx.check(ok, "every-child-matched", "every iteration of the child loop passes the recursive match of that child against its pattern",
              "the child loop of the node matcher can go on to the next child without matching this one against its child pattern (a `continue` / fast path in front of the recursive ematch_impl): the child's class may be compared, but its slot arguments are not — a candidate whose child uses different slots than the pattern demands is accepted, and the reported substitution is not an instance in the e-graph",
              where_of(b, zl[0]))


@rule("M3b", doc="weak variants: every returned list is derived from the full variant enumeration; dedupe only on equal weak shape")
def m3b(ctx):
    crate = ctx.lib()
    b = crate.one("egraph::EGraph", "get_group_compatible_weak_variants")
    defs = b.defs().get(0, [])
    ctx.floor("return definitions of get_group_compatible_weak_variants", len(defs), 1)
    d_ = crate.deps(b)
    for i, d in enumerate(defs):
        if d["kind"] == "assign":
            r = b.role_of_rvalue(d["rv"])
            at = d_.atoms_of_operand(b, d["rv"]["op"]) if d["rv"]["k"] == "use" else set()
        else:
            r = ("call", d["call"].callee.name if d["call"].callee else "?", "", [b.role_of_operand(a) for a in d["call"].args], d["bb"])
            at = set()
            for a in d["call"].args:
                at |= d_.atoms_of_operand(b, a)
            if d["call"].callee:
                at.add(("call", b.id, d["bb"], d["call"].callee.name, "", d["call"].callee.target))
        ok = bool(mir.atoms_calls(at, "get_group_compatible_variants")) or role_mentions_call(r, "get_group_compatible_variants")
        ctx.check(ok, "returns-from-enumeration:%d" % i, "the returned variants come from get_group_compatible_variants(enode)",
                  "get_group_compatible_weak_variants has a return path whose result (%s) is not derived from the full variant enumeration: a node's other orientations under its children's symmetries are never tried by the matcher" % role_str(r)[:160],
                  where_of(b, d["bb"], d.get("line")))
    lp = None
    for l in C.iterator_loops(b):
        lp = l
    if lp is not None:
        ctx.check(C.loop_exhaustive(b, lp), "dedupe-loop-exhaustive", "the de-duplication loop visits every variant", "the de-duplication loop can stop early", where_of(b, lp[0]))
    pushes = [c for c in b.calls if c.callee and c.callee.name == "push" and not b.blocks[c.bb]["cleanup"]]
    for c in pushes:
        C.check_only_allowed_skips(ctx, b, c.bb, [("false", lambda t, cond: t.startswith("contains(") and "weak_shape(" in t)], "weak_variants", "keeping a variant")


@rule("M3c", doc="variant enumeration = cartesian product of all_perms of every child; only shortcut: all groups trivial")
def m3c(ctx):
    crate = ctx.lib()
    b = crate.one("egraph::EGraph", "proven_proven_get_group_compatible_variants")
    cart = [c for c in b.calls if c.callee and c.callee.name == "cartesian"]
    if not ctx.floor("cartesian() calls", len(cart), 1):
        return
    g = b.role_of_operand(cart[0].args[0])
    at = crate.deps(b).atoms_of_operand(b, cart[0].args[0])
    ok = bool(mir.atoms_calls(at, "all_perms")) and bool(mir.atoms_calls(at, "applied_id_occurrences"))
    bad = sorted({a[3] for a in at if a[0] == "call" and a[3] in BAD_ADAPTORS})
    ctx.check(ok and not bad, "product-over-all-children", "groups = applied_id_occurrences().map(all_perms) of every child, unfiltered",
              "the product of symmetry groups is not built from all_perms of every child (%s)" % (bad or role_str(g)[:120]), where_of(b, cart[0].bb))
    # position i of a tuple of the product permutes child i: where the tuple is indexed, the index is the position the mapping
    # callback was called for — not something computed from it ("repeated children in lockstep": l[first(i)] never produces the
    # variant in which two occurrences of one class are permuted differently)
    for sub in b.all_bodies():
        for c in sub.calls:
            if not c.callee or sub.blocks[c.bb]["cleanup"]:
                continue
            for a_ in c.args:
                r = strip_role(sub.role_of_operand(a_))
                if isinstance(r, tuple) and r[0] == "call" and r[1] == "index" and len(r[3]) == 2 and role_mentions_call(r[3][0], "cartesian"):
                    ix = strip_role(r[3][1])
                    ctx.check(isinstance(ix, tuple) and ix[0] == "param", "tuple-position-is-child-position", "child i is permuted by component i of the tuple",
                              "the variant enumeration permutes a child by component %s of the tuple of group elements instead of the component at the child's own position: combinations in which two children get different permutations are never produced" % role_str(ix)[:80],
                              where_of(sub, c.bb))
    lp = None
    for l in C.iterator_loops(b):
        if role_mentions_call(l[1], "cartesian"):
            lp = l
    if lp is not None:
        ctx.check(C.loop_exhaustive(b, lp), "product-loop-exhaustive", "every tuple of the product yields a variant",
                  "the loop over the cartesian product can be left early", where_of(b))
    else:
        # adaptor form: the whole product is handed to extend / collect through non-dropping adaptors
        sinks = [c for c in b.calls if c.callee and c.callee.name in ("extend", "collect", "extend_from_slice") and not b.blocks[c.bb]["cleanup"]
                 and any(role_mentions_call(b.role_of_operand(a_), "cartesian") for a_ in c.args)]
        badad = sorted({x[1] for c in sinks for a_ in c.args for x in role_walk(b.role_of_operand(a_)) if isinstance(x, tuple) and x[0] == "call" and x[1] in BAD_ADAPTORS})
        ctx.check(bool(sinks) and not badad, "product-loop-exhaustive", "every tuple of the product yields a variant (the product is consumed whole by %s)" % sorted({c.callee.name for c in sinks}),
                  "the cartesian product is not consumed whole (%s)" % (badad or "no loop / extend / collect over it"), where_of(b))
    emits = [c for c in b.calls if c.callee and c.callee.name in ("push", "extend", "into_vec") and not b.blocks[c.bb]["cleanup"]]      # (`return vec![x]` is an emit, too)
    emits += [c for c in b.calls if c.callee and c.callee.name == "collect" and not b.blocks[c.bb]["cleanup"] and c.args and role_mentions_call(b.role_of_operand(c.args[0]), "cartesian")]
    shortcut = lambda t, cond: C.is_forall_role(crate, cond[1], "is_trivial", over=("ids", "applied_id_occurrences"))
    seen_shortcut = False
    for i, c in enumerate(emits):
        C.check_only_allowed_skips(ctx, b, c.bb, [("true", shortcut), ("false", shortcut)], "variants:%d" % i, "emitting a variant")
        seen_shortcut = seen_shortcut or any(kind in ("true", "false") and shortcut(t, cond) for e_, kind, t, cond in C.skip_conditions(b, c.bb))
        # flag form: `let mut all_trivial = true; for i in ids { if !is_trivial(i) { all_trivial = false; break } } if all_trivial {..}`
        for e_, cond in C.conditions_at(b, c.bb):
            if isinstance(e_, tuple) and e_[0] == "e" and C.is_forall_flag(crate, b, e_[1], "is_trivial", over=("ids", "applied_id_occurrences")):
                seen_shortcut = True
    # the shortcut tests is_trivial of every child's class group
    ctx.check(seen_shortcut, "shortcut-is-all-trivial", "the only shortcut is 'every child's group is trivial'", "the early return of the variant enumeration is no longer 'all child groups trivial'", where_of(b))
    # cartesian itself: exhaustive odometer (report as information; its own unit test pins the count)
    cf = crate.free_fn("cartesian")
    ctx.info("cartesian() bodies: %d" % len(cf))
    # a product enumeration has to DECOUPLE its positions: an odometer (some index is reset to 0 while another one is stepped),
    # a quotient chain (position i reads k / stride_i), or one nesting level per input (recursion / flat_map).  If every
    # position is a function of the same counter alone (`v[k % v.len()]`), only "diagonal" tuples come out although their
    # number is right.  (A necessary condition read off the code's shape; that the enumeration is complete is not decided.)
    for f_ in cf:
        bodies_ = list(f_.all_bodies())
        # the enumeration may live in a named iterator type that cartesian() merely constructs: look at its `next`
        rt = re.sub(r"<.*$", "", f_.local_ty(0))
        if rt in crate.adts:
            for nb_ in crate.by_name.get("next", []):
                if (nb_.impl_self or "").startswith(rt) and (nb_.impl_trait or "").endswith("Iterator"):
                    bodies_ += list(nb_.all_bodies())
        has_reset = False
        has_step = False
        has_div = False
        for sub in bodies_:
            for bi, si, st_ in sub.statements():
                if st_["k"] != "assign":
                    continue
                rv = st_["rv"]
                idx_store = any(isinstance(p_, dict) and ("idx" in p_ or "cidx" in p_) for p_ in st_["lhs"]["p"]) or "*" in st_["lhs"]["p"]
                if rv["k"] == "use" and rv["op"]["k"] == "const" and str(rv["op"].get("int")) == "0" and idx_store:
                    has_reset = True
                if rv["k"] == "bin" and rv.get("op") in ("Div",):
                    has_div = True
                if rv["k"] == "bin" and rv.get("op") in ("AddWithOverflow", "Add"):
                    has_step = True
        nested = any(c.callee and (c.callee.target == f_.id or c.callee.name in ("flat_map", "fold")) for sub in bodies_ for c in sub.calls)
        ctx.check((has_reset and has_step) or has_div or nested, "product-positions-decoupled:" + C.fkey(f_), "cartesian() decouples the positions of the tuples it yields (odometer with carry / quotient chain / nesting)",
                  "cartesian() derives every position of a tuple from the same counter without a carry, a quotient or nesting: it yields the right NUMBER of tuples but not all combinations, so group-compatible variants that permute only some of the children are never enumerated — strong shapes of equal nodes differ and represented instances are not matched", where_of(f_))


RULES = [m1, m2, m3, m3b, m3c]


@rule("M5", doc="every match found is applied: the applier loop visits all substitutions; the only skip is the rule's own condition")
def m5(ctx):
    crate = ctx.lib()
    # the applier of a pattern rule: the body (a function or the boxed closure itself) of rewrite/mod.rs that unites instantiations
    bs = [b for b in crate.bodies.values() if (b.file or "").endswith("rewrite/mod.rs") and any(c.callee and c.callee.name == "union_instantiations" and not b.blocks[c.bb]["cleanup"] for c in b.calls)]
    if len(bs) != 1:
        raise mir.AnchorMissing("the applier of pattern rules (calls union_instantiations in rewrite/mod.rs)", "found %d" % len(bs))
    b = bs[0]
    lp = [l for l in C.iterator_loops(b) if role_mentions_param(l[1], "substs")]
    ctx.check(len(lp) == 1 and C.loop_exhaustive(b, lp[0]), "all-substitutions-applied", "the applier visits every substitution the searcher found",
              "the applier of a pattern rule can stop before all substitutions were applied: represented instances do not fire", where_of(b))
    for l in lp:
        bad = sorted({x[1] for x in role_walk(l[1]) if isinstance(x, tuple) and x[0] == "call" and x[1] in BAD_ADAPTORS})
        ctx.check(not bad, "substitutions-unfiltered", "the applier loop ranges over the substitutions with no dropping adaptor",
                  "the applier iterates the substitutions through %s: matches the searcher found are never applied" % bad, where_of(b, l[0]))
    un = [c for c in b.calls if c.callee and c.callee.name == "union_instantiations"]
    ctx.floor("union_instantiations calls in the applier", len(un), 1)
    def stored(r):
        """a pattern the applier was given: a parameter, or a field of its receiver (the rule's data bundled in a struct)"""
        r = strip_role(r)
        while isinstance(r, tuple) and r[0] == "call" and r[1] in ("clone", "deref", "as_ref", "borrow") and r[3]:
            r = strip_role(r[3][0])
        if isinstance(r, tuple) and r[0] == "param":
            return ("param", r[1])
        if isinstance(r, tuple) and r[0] == "field" and strip_role(r[1])[0] == "param":
            return ("field", strip_role(r[1])[1], r[2])
        if isinstance(r, tuple) and r[0] == "upvar":
            return ("upvar", r[1])
        # the applier is a closure inside the constructor and the captured pattern resolves to where it was made (`parse(a)`)
        if isinstance(r, tuple) and not role_mentions_param(r, "substs") and not role_mentions_param(r, "eg") and any(isinstance(x, tuple) and x[0] == "param" for x in role_walk(r)):
            return ("expr", role_str(r, 12))
        return None

    sides = None
    for c in un:
        # the only admissible skip: the rule's own condition — an indirect call (a closure the rule carries) on the substitution
        C.check_only_allowed_skips(ctx, b, c.bb, [("true", lambda t, cond: t.startswith("call(") and "subst" in t)], "applier", "uniting the two sides of a match")
        a = [strip_role(b.role_of_operand(x)) for x in c.args]
        l_, r_ = stored(a[1]), stored(a[2])
        ok = l_ is not None and r_ is not None and l_ != r_ and role_mentions_param(a[3], "substs")
        ctx.check(ok, "applier-unites-lhs-rhs", "the applier unites the rule's two stored patterns under the matched substitution",
                  "the applier calls union_instantiations(%s, %s, %s)" % (role_str(a[1]), role_str(a[2]), role_str(a[3])[:60]), where_of(b, c.bb))
        if ok:
            sides = (l_, r_)
    # Rewrite::new_if wires ematch_all(lhs) to the searcher and this applier with the same lhs
    ni = [x for x in crate.by_name.get("new_if", []) if x.kind != "Closure"]
    if ni:
        n = ni[0]
        srch = [c for sub in n.all_bodies() for c in sub.calls if c.callee and c.callee.name == "ematch_all"]
        appl = [c for sub in n.all_bodies() for c in sub.calls if c.callee and c.callee.target == b.id]
        inline_applier = crate.root_of(b).id == n.id and bool(un)
        ok = len(srch) == 1 and (len(appl) == 1 or inline_applier)
        if ok:
            sp = strip_role(srch[0].body.role_of_operand(srch[0].args[1]))
            if appl and sides and sides[0][0] == "param":
                ap = strip_role(appl[0].body.role_of_operand(appl[0].args[(b.param_index(sides[0][1]) or 3) - 1]))
            elif appl and sides and sides[0][0] == "field":
                # the applier is a method of a struct built in new_if: the left pattern is what the constructor puts into that field
                ap = None
                for sub in n.all_bodies():
                    for bi, si, st_ in sub.statements():
                        rv = st_["rv"] if st_["k"] == "assign" else None
                        if rv and rv["k"] == "agg" and rv.get("agg") == "adt" and sides[0][2] in rv.get("fields", []):
                            ap = strip_role(sub.role_of_operand(rv["ops"][rv["fields"].index(sides[0][2])]))
                if ap is None:
                    ap = ("other", "no constructor of the applier's receiver in new_if")
            else:
                ap = strip_role(appl[0].body.role_of_operand(appl[0].args[2])) if appl else strip_role(b.role_of_operand(un[0].args[1]))
            # both derive from the parsed left pattern `a` (the applier gets a clone)
            ok = role_mentions_call(sp, "parse") and role_mentions_call(ap, "parse") and role_str(sp).count("param") == role_str(ap).count("param")
        # the searcher hands over everything the matcher found: its result is ematch_all(..) itself, not a shortened / filtered list
        SHRINK = {"truncate", "retain", "retain_mut", "drain", "dedup", "dedup_by", "dedup_by_key", "pop", "remove", "swap_remove", "split_off", "clear", "take", "skip", "filter", "filter_map", "step_by", "take_while", "skip_while"}
        for sc in srch:
            sb_ = sc.body
            shr = sorted({c.callee.name for c in sb_.calls if c.callee and c.callee.name in SHRINK and not sb_.blocks[c.bb]["cleanup"]})
            ret = strip_role(sb_.role_of_local(0))
            direct = isinstance(ret, tuple) and ret[0] == "call" and ret[1] in ("ematch_all", "new") or role_mentions_call(ret, "ematch_all")
            ctx.check(not shr and direct, "searcher-returns-all-matches", "the searcher of a pattern rule returns the matcher's whole result",
                      "the searcher of a pattern rule shortens the match list (%s) before handing it to the applier: represented instances of the left-hand side never fire, and a run can stop as Saturated while applying the rules to the dropped matches would still change the e-graph" % (", ".join(shr) or role_str(ret)[:60]),
                      where_of(sb_, sc.bb))
        ctx.check(ok, "searcher-and-applier-share-lhs", "the searcher matches the same left pattern the applier instantiates", "Rewrite::new_if wires different left patterns into searcher and applier", where_of(n))


RULES.append(m5)


@rule("LC", doc="loop-exit census: every iterator-driven loop of the library runs to exhaustion, except a frozen per-file reviewed set of search / error-propagation loops")
def lc(ctx):
    C.loop_census(ctx, ctx.lib())


RULES.append(lc)


@rule("M6", doc="the symmetries the matcher enumerates are all symmetries the class has (shared with C10.G2/G3/G6): generators() and all_perms() cover every level of the stabiliser chain, a group reconstruction keeps the old generators")
def m6(ctx):
    from . import c10
    c10.g2(ctx)
    c10.g3(ctx)
    c10.g6(ctx)


RULES.append(m6)


@rule("MC", doc="must-call census: no function of this property's files has gained an early exit in front of work it always did (every crate-local call that lay on all paths to a normal return in the reviewed tree still does)")
def mc(ctx):
    C.must_call_census(ctx, ctx.lib(), ['src/rewrite/ematch.rs', 'src/rewrite/mod.rs', 'src/rewrite/pattern.rs', 'src/egraph/mod.rs', 'src/egraph/union.rs', 'src/egraph/find.rs'])


RULES.append(mc)


@rule("M7", doc="the usages index, which the re-queue after a class change walks, lists an e-node under EVERY class it refers to — its own class included (C08.W1)")
def m7(ctx):
    from . import c08
    c08.w1(ctx)


RULES.append(m7)


@rule("M8", doc="the e-nodes the matcher is shown (enodes_applied) are faithful copies: every occurrence of a slot that is not a class slot gets the SAME fresh name, covered slots follow the invocation simultaneously (C03.H2 / H6) — otherwise the body of a two-binder node is detached from its binders and a represented instance does not match")
def m8(ctx):
    from . import c03
    c03.h2(ctx)
    c03.h6(ctx)


RULES.append(m8)


@rule("M9", doc="operator / shape comparison blanks out EVERY child: nullify_app_ids overwrites each applied-id occurrence with AppliedId::null(), unconditionally — a child left in place makes two nodes that differ only in their children look different (instances are missed) or, compared after a partial blanking, alike")
def m9(ctx):
    crate = ctx.lib()
    bs = [b for b in crate.by_name.get("nullify_app_ids", []) if b.kind != "Closure" and (b.file or "").startswith("src/")]
    if len(bs) != 1:
        raise mir.AnchorMissing("nullify_app_ids")
    b = mir.inline_view(crate, bs[0])
    lps = [l for l in C.iterator_loops(b) if role_mentions_call(l[1], "applied_id_occurrences_mut")]
    chains = C.adaptor_chains(b, "applied_id_occurrences_mut") if not lps else []
    if not lps and not chains:
        raise mir.AnchorMissing("the loop over applied_id_occurrences_mut() in nullify_app_ids")
    for l in lps:
        stores = [bi for bi, si, s in b.statements() if s["k"] == "assign" and s["lhs"]["p"] == ["*"] and bi in b.reach(l[3], avoid=l[2])
                  and isinstance(strip_role(b.role_of_rvalue(s["rv"])), tuple) and strip_role(b.role_of_rvalue(s["rv"]))[0] == "call" and strip_role(b.role_of_rvalue(s["rv"]))[1] == "null"]
        ok = C.loop_exhaustive(b, l) and bool(stores) and b.must_pass(l[3], [l[0]], set(stores))
        ctx.check(ok, "nullify-every-child", "every child invocation is overwritten with AppliedId::null()", "nullify_app_ids can leave a child invocation in place (loop left early, or the overwrite sits behind a condition / writes something else)", where_of(b, l[0]))
    for ch in chains:
        names = [n for n, _ in ch["adaptors"]]
        bad = sorted(n for n in names if n in BAD_ADAPTORS)
        ctx.check(not bad, "nullify-every-child", "every child invocation is overwritten (chain %s)" % names, "nullify_app_ids drops children through %s" % bad, where_of(b, ch["sink"].bb))


RULES.append(m9)


@rule("M10", doc="every candidate (e-node, variant) is matched against its own copy of the incoming state: the slot bindings a candidate tries are made in a State cloned inside that candidate's iteration — never in the caller's state, where a rejected candidate would leave half-made bindings behind for the next one")
def m10(ctx):
    crate = ctx.lib()
    n = 0
    for b0 in crate.fns():
        if not (b0.file or "").endswith("rewrite/ematch.rs") or b0.kind == "Closure":
            continue
        if b0.id in mir.default_inline_policy(crate) and b0.name not in MATCHER_ANCHORS and crate.aliases.get(b0.id) not in MATCHER_ANCHORS:
            continue            # a private single-use helper (the binding loop extracted): seen inside its caller
        b = mir.inline_view(crate, b0, keep=MATCHER_ANCHORS)
        tis = [c for c in b.all_calls() if c.callee and c.callee.name == "try_insert_compatible_slotmap_bij"]
        if not tis:
            continue

        def site_bb(c_):
            """block of b in which the call runs: its own, or — for a call inside a closure (`zip(..).all(|(x, y)| ..)`) — the
            block that creates the closure"""
            sub_ = c_.body
            bb_ = c_.bb
            while sub_ is not b and getattr(sub_, "creation", None) is not None:
                bb_ = sub_.creation[1]
                sub_ = sub_.creation[0]
                if sub_.id == b.id:
                    break
            return bb_
        vloops = [l for l in C.iterator_loops(b) if role_mentions_call(l[1], "get_group_compatible_weak_variants") or role_mentions_call(l[1], "enodes_applied")]
        for c in tis:
            mp = [a for a in c.args if mir.op_place(a) is not None and c.body.local_ty(mir.op_place(a)["l"]).startswith("&mut")]
            if not mp:
                continue
            n += 1
            r = c.body.role_of_operand(mp[0])
            while isinstance(r, tuple) and r[0] == "call" and r[1] in ("deref", "deref_mut", "borrow", "borrow_mut", "as_mut", "as_ref") and r[3]:
                r = r[3][0]
            base = r[1] if isinstance(r, tuple) and r[0] == "field" else r
            while isinstance(base, tuple) and base[0] == "call" and base[1] in ("deref", "deref_mut", "borrow", "borrow_mut", "as_mut", "as_ref") and base[3]:
                base = base[3][0]
            own_copy = isinstance(base, tuple) and base[0] == "call" and base[1] == "clone"
            inside = False
            if own_copy and vloops:
                inner = [l for l in vloops if site_bb(c) in b.reach(l[3], avoid=l[2])]
                # the clone is made inside the innermost candidate loop around the binding
                inside = bool(inner) and any(base[4] in b.reach(l[3], avoid=l[2]) for l in inner)
            elif own_copy:
                inside = True
            ctx.check(own_copy and inside, "candidate-own-state:" + C.fkey(b0), "slot bindings of a candidate are made in a state cloned for that candidate",
                      "%s binds a candidate's slots in %s, which is shared between candidates (not a State cloned inside the candidate loop): when a candidate is rejected half-way its bindings stay behind, a later e-node / variant of the same class is matched under them and a fitting one is rejected — the rule misses a represented instance (which one depends on the iteration order of the class's nodes)" % (C.short(b0.id), role_str(r)[:60]),
                      where_of(c.body, c.bb))
    ctx.floor("slot-binding sites in the node matcher", n, 1)


RULES.append(m10)


@rule("M12", doc="a freshly created e-node gets the FULL work-list pass (C14.A4 singleton-queued-full): the pass that derives its self-symmetries — a parent created over differently permuted invocations of an already symmetric class otherwise keeps a trivial group, two spellings of one term compare unequal and a rule with a repeated variable does not fire on a represented instance")
def m12_a4(ctx):
    from . import c14
    c14.a4(ctx)


RULES.append(m12_a4)


def _ids_pred_ok(crate, body, r):
    """r is the leader test of an element: uf[x].elem.id == x (either order), possibly through a small helper"""
    r = strip_role(r)
    for _ in range(3):
        if isinstance(r, tuple) and r[0] == "call" and r[1] in ("clone", "deref", "borrow") and r[3]:
            r = strip_role(r[3][0])
    if isinstance(r, tuple) and r[0] == "call" and r[1] not in ("eq",) and r[3]:
        # a crate-local predicate helper (`is_leader(&uf, x)`, `self.is_alive(x)`): its own answer must be the leader test of its parameters
        for hb in crate.by_name.get(r[1], []):
            if hb.kind != "Closure" and (hb.file or "").startswith("src/") and hb.local_ty(0) == "bool":
                return _ids_pred_ok(crate, hb, hb.role_of_local(0))
        return False
    a = b = None
    if isinstance(r, tuple) and r[0] == "call" and r[1] == "eq" and len(r[3]) == 2:
        a, b = r[3]
    elif isinstance(r, tuple) and r[0] == "bin" and str(r[1]) == "Eq":
        a, b = r[2], r[3]
    if a is None:
        return False
    sa, sb = role_str(strip_role(a), 40), role_str(strip_role(b), 40)
    if ".elem.id" in sb and ".elem.id" not in sa:
        sa, sb = sb, sa
    if not (sa.endswith(".elem.id") and ".elem" not in sb):
        return False
    # the entry examined is the entry OF the element compared: uf[x.0] vs x, uf[i] vs Id(i), or (i, entry) of one enumeration
    core = sb
    m_ = re.match(r"^(?:types::Id::)?Id\{(.*)\}$", core)
    if m_:
        core = m_.group(1)
    for suf in ("", ".0"):
        if core + suf and ("index(" in sa or "[" in sa) and (", %s%s)" % (core, suf) in sa or ", %s)" % core in sa):
            return True
    if "[*]" in sa:
        # slice indexing `uf[i.0]` is a place projection: read the index local off the body
        from .c07 import _indexed_places
        def nb_(x):
            return re.sub(r"\b(deref|borrow|as_slice|as_ref)\(", "", x).replace(")", "")
        idxs = {role_str(strip_role(i_), 40) for (_, base_, i_) in _indexed_places(body) if nb_(role_str(strip_role(base_), 40)) + "[*].elem.id" == nb_(sa)}
        if idxs and idxs <= {core, core + ".0"}:
            return True
    m1 = re.match(r"^(next\(.*\)(?: as Some)?(?:\.0)?)\.1\.elem\.id$", sa)
    if m1 and core == m1.group(1) + ".0" and "enumerate(" in sa:
        return True
    return False


@rule("M11", doc="EGraph::ids() — the set every matcher, the extractor and the progress measure range over — is exactly the set of leaders: every index 0..len(unionfind), kept iff its own union-find entry points to itself; nothing else is dropped, nothing is added")
def m11(ctx):
    crate = ctx.lib()
    bs = [b for b in crate.by_name.get("ids", []) if b.kind != "Closure" and "egraph::EGraph" in (b.impl_self or "") and b.argc == 1]
    if len(bs) != 1:
        raise mir.AnchorMissing("EGraph::ids")
    b = mir.inline_view(crate, bs[0])
    w = where_of(b)
    ret = strip_role(b.role_of_local(0))
    chain = []
    r = ret
    while isinstance(r, tuple) and r[0] == "call" and r[3]:
        chain.append(r)
        r = strip_role(r[3][0])
    names = [x[1] for x in chain]
    if "collect" in names:
        # adaptor form: (0..len).map(Id).filter(leader).collect()
        src = r
        allowed = {"collect", "filter", "map", "into_iter", "iter", "enumerate", "filter_map", "borrow", "deref"}
        extra = sorted(set(names) - allowed)
        flt = [x for x in chain if x[1] in ("filter", "filter_map")]
        ok_src = isinstance(src, tuple) and src[0] == "agg" and str(src[1]).endswith("Range") and len(src[2]) == 2 \
            and strip_role(src[2][0])[0] == "const" and str(strip_role(src[2][0])[1]).split("_")[0] == "0" \
            and role_str(strip_role(src[2][1])).startswith("len(") and role_mentions_field(src[2][1], "unionfind")
        ok_src = ok_src or (role_mentions_field(src, "unionfind") and "enumerate" in names)
        ctx.check(ok_src and not extra, "ids-range-over-whole-unionfind", "ids() ranges over every index of the union-find vector (chain: %s)" % names[::-1],
                  "ids() ranges over %s through %s: every id 0..len(unionfind) must be examined" % (role_str(src)[:80], names[::-1]), w)
        okp = False
        if len(flt) == 1 and len(flt[0][3]) == 2:
            cl = C._closure_of_role(crate, flt[0][3][1])
            if hasattr(cl, "calls"):
                cv = mir.inline_view(crate, cl)
                okp = _ids_pred_ok(crate, cv, cv.role_of_local(0))
        ctx.check(okp, "ids-keeps-exactly-the-leaders", "the only filter of ids() is the leader test of the element itself",
                  "ids() filters with something other than `unionfind[x].elem.id == x` for the element x itself (or has %d filters): a live class that is dropped is invisible to every matcher, to the extractor and to the progress measure" % len(flt), w)
        return
    # loop form: for x in 0..len { if leader(x) { out.push(x) } }
    loops = C.iterator_loops(b)
    pushes = [c for c in b.calls if c.callee and c.callee.name == "push" and not b.blocks[c.bb]["cleanup"]]
    if len(loops) != 1 or len(pushes) != 1:
        raise mir.AnchorMissing("the shape of EGraph::ids (adaptor chain ending in collect, or one loop with one push)", "loops=%d pushes=%d" % (len(loops), len(pushes)))
    l = loops[0]
    it = strip_role(l[1])
    while isinstance(it, tuple) and it[0] == "call" and it[1] in ("into_iter", "iter", "map", "enumerate") and it[3]:
        it = strip_role(it[3][0])
    ok_src = isinstance(it, tuple) and it[0] == "agg" and str(it[1]).endswith("Range") and str(strip_role(it[2][0])[1]).split("_")[0] == "0" and role_mentions_field(it[2][1], "unionfind") and role_str(strip_role(it[2][1])).startswith("len(")
    ok_src = ok_src or (role_mentions_field(it, "unionfind") and role_mentions_call(l[1], "enumerate"))
    bad_ad = sorted({x[1] for x in role_walk(l[1]) if isinstance(x, tuple) and x[0] == "call" and x[1] in ("filter", "skip", "take", "rev", "step_by", "take_while", "skip_while")})
    ctx.check(ok_src and not bad_ad and C.loop_exhaustive(b, l), "ids-range-over-whole-unionfind", "ids() examines every index of the union-find vector", "the loop of ids() ranges over %s%s or can stop early" % (role_str(l[1])[:80], (" through " + ",".join(bad_ad)) if bad_ad else ""), w)
    conds = [(k, cond) for e, k, t, cond in C.skip_conditions(b, pushes[0].bb)]
    okp = len(conds) == 1 and conds[0][0] in ("true", "eq") and _ids_pred_ok(crate, b, conds[0][1][1] if conds[0][0] == "true" else ("call", "eq", "", [conds[0][1][1], conds[0][1][2]], -1))
    ctx.check(okp, "ids-keeps-exactly-the-leaders", "an index is pushed iff its own union-find entry points to itself",
              "ids() pushes an element under %s: the only condition must be `unionfind[x].elem.id == x` for the element x itself" % [" ".join(role_str(z)[:60] for z in c_[1:]) for _, c_ in conds], w)


RULES.append(m11)

"""C06 — extraction returns a cheapest term (structural necessary conditions)."""
from salib import mir
from salib.mir import role_str, role_walk, strip_role, role_mentions_field, role_mentions_call, role_mentions_param
from salib.runner import rule, where_of
from . import common as C

META = {
    "level": "other",
    "explanation": "Decides the Dijkstra discipline of the extractor: candidate generation is exhaustive (all live classes, all leaf "
                   "e-nodes, all usages; no early loop exit) (X0); the heap order is reversed on cost (X1); first pop wins (X2); a parent's "
                   "cost is computed only when all children are final and from the children's table costs (X3); the table entry's node, "
                   "cost and key come from the same popped element (X4); on extraction the stored node is renamed with the fresh-filling "
                   "variant, because stored nodes may carry redundant slots (X5).",
    "not_decided": "monotonicity of user cost functions; minimality as a value",
    "assumptions": ["std BinaryHeap is a max-heap on Ord"],
}


def ctor(crate):
    bs = [b for b in crate.method("extract::Extractor", "new")]
    if len(bs) != 1:
        raise mir.AnchorMissing("Extractor::new")
    # helpers split off the constructor (leaf seeding, the usages loop) are looked through
    return mir.inline_view(crate, bs[0], keep=("cost", "class_nf", "lookup", "usages", "enodes", "ids"))


from .c04 import BAD_ADAPTORS as C04_BAD


def _deep_names(crate, r):
    """names of the calls in a role and inside the closures it mentions"""
    out = set()
    for x in role_walk(r) if r is not None else ():
        if isinstance(x, tuple) and x[0] == "call":
            out.add(x[1])
        if isinstance(x, tuple) and x[0] == "agg" and isinstance(x[1], str) and x[1] in crate.bodies:
            out |= {c.callee.name for sub in crate.bodies[x[1]].all_bodies() for c in sub.calls if c.callee}
    return out


def _closure_is_table_test(crate, r):
    """every closure mentioned by the role returns exactly `table.contains_key(..)` — the test "this class is final" and nothing
    or-ed to it (`|| leaf_classes.contains(..)` would drop composite candidates of classes that merely own a leaf)"""
    cls = [x for x in role_walk(r) if isinstance(x, tuple) and x[0] == "agg" and isinstance(x[1], str) and x[1] in crate.bodies] if r is not None else []
    if not cls:
        return False
    for x in cls:
        cb = crate.bodies[x[1]]
        rr = strip_role(cb.role_of_local(0))
        if not (isinstance(rr, tuple) and rr[0] == "call" and rr[1] == "contains_key"):
            return False
        if any(c.callee and c.callee.name in ("contains", "contains_key", "get", "is_some", "is_none") and c.callee.name != "contains_key" for c in cb.calls):
            return False
        if sum(1 for c in cb.calls if c.callee and c.callee.name == "contains_key") != 1:
            return False
    return True


def _class_not_final(r):
    """`match eg.lookup(&x) { Some(i) => map.contains_key(&i.id), None => false }`: false unless the node's class is final"""
    r = strip_role(r) if r is not None else None
    if not (isinstance(r, tuple) and r[0] == "phi"):
        return False
    ok = False
    for m_ in r[1]:
        m_ = strip_role(m_)
        if m_ == ("const", "false"):
            continue
        if isinstance(m_, tuple) and m_[0] == "call" and m_[1] == "contains_key" and role_mentions_call(m_, "lookup"):
            ok = True
            continue
        return False
    return ok


def _closure_is_not_table_test(crate, r):
    """the closure of `children.any(|c| !table.contains_key(&c.id))` — "some child is not final yet": exactly the negated table test"""
    cls = [x for x in role_walk(r) if isinstance(x, tuple) and x[0] == "agg" and isinstance(x[1], str) and x[1] in crate.bodies] if r is not None else []
    if len(cls) != 1:
        return False
    cb = crate.bodies[cls[0][1]]
    rr = strip_role(cb.role_of_local(0))
    if not (isinstance(rr, tuple) and rr[0] == "un" and rr[1] == "Not"):
        return False
    inner = strip_role(rr[2])
    return isinstance(inner, tuple) and inner[0] == "call" and inner[1] == "contains_key" and sum(1 for c in cb.calls if c.callee and c.callee.name in ("contains_key", "contains", "get")) == 1


def _flag_is_class_final(b, r, edge=None):
    """a boolean flag (phi of constants: `matches!(eg.lookup(&x), Some(i) if map.contains_key(&i.id))`) that is true exactly
    behind `lookup(..) is Some` and `map.contains_key(..)`, with nothing else deciding it"""
    r = strip_role(r) if r is not None else None
    if not (isinstance(r, tuple) and r[0] == "phi" and all(isinstance(strip_role(x), tuple) and strip_role(x)[0] == "const" for x in r[1])):
        return False
    ok = False
    # the flag's own local: the discriminant of the switch the edge leaves (followed through plain copies)
    flag = set()
    if edge is not None and isinstance(edge, tuple) and len(edge) > 1 and isinstance(edge[1], int):
        pl = mir.op_place(b.blocks[edge[1]]["term"].get("discr")) if b.blocks[edge[1]]["term"].get("k") == "switch" else None
        if pl is not None and not pl["p"]:
            flag = {pl["l"]}
            for _ in range(4):
                for bi, si, st in b.statements():
                    if st["k"] == "assign" and not st["lhs"]["p"] and st["lhs"]["l"] in flag and st["rv"]["k"] == "use":
                        p2 = mir.op_place(st["rv"]["op"])
                        if p2 is not None and not p2["p"]:
                            flag.add(p2["l"])
    if not flag:
        return False
    for bi, si, st in b.statements():
        if st["k"] == "assign" and not st["lhs"]["p"] and not b.blocks[bi]["cleanup"] and C.const_bool(st["rv"]) is True and st["lhs"]["l"] in flag:
            conds = C.conditions_at(b, bi, expand=False)
            tests = [(c_[0], role_str(c_[1])[:60]) for e_, c_ in conds if len(c_) > 1 and not (isinstance(c_[1], tuple) and c_[1][0] in ("const",))]
            has_ck = any(k_ == "true" and t_.startswith("contains_key(") for k_, t_ in tests)
            has_lk = any("lookup(" in t_ for k_, t_ in tests)
            other = [(k_, t_) for k_, t_ in tests if not (t_.startswith("contains_key(") or "lookup(" in t_)]
            # (conditions that dominate the whole propagation step are not part of the flag: only those inside the step count)
            if not (has_ck and has_lk and not [x for x in other if x[1].startswith("contains") or x[1].startswith("is_")]):
                return False
            ok = True
    return ok


@rule("X0", doc="candidate generation is exhaustive")
def x0(ctx):
    crate = ctx.lib()
    b = ctor(crate)
    loops = C.iterator_loops(b)
    want = {"ids": None, "enodes": None, "usages": None, "pop": None}
    for lp in loops:
        sb, it, none_e, some_e, cs = lp
        for k in want:
            if (k == "pop" and cs and cs.callee.name == "pop") or (k != "pop" and role_mentions_call(it, k) and not any(role_mentions_call(it, k2) for k2 in ("enodes", "usages") if k2 != k and k == "ids")):
                if want[k] is None:
                    want[k] = lp
    # adaptor form of the seeding: `for leaf in ids().into_iter().flat_map(|id| enodes(id)).filter(|x| no children)`
    def chain_of(lp):
        out = []
        r = strip_role(lp[1])
        while isinstance(r, tuple) and r[0] == "call" and r[3]:
            out.append((r[1], C._closure_of_role(crate, r[3][1]) if len(r[3]) > 1 else None))
            r = strip_role(r[3][0])
        return out
    leaf_filter_loops = set()
    for lp in loops:
        ch = chain_of(lp)
        for n_, cl in ch:
            if n_ in ("flat_map", "map") and hasattr(cl, "calls"):
                for k in ("enodes", "usages"):
                    if want[k] is None and any(c.callee and c.callee.name == k for c in cl.calls):
                        want[k] = lp
            if n_ == "filter" and hasattr(cl, "calls"):
                rr = strip_role(cl.role_of_local(0))
                if isinstance(rr, tuple) and rr[0] == "call" and rr[1] == "is_empty" and role_mentions_call(rr, "applied_id_occurrences"):
                    leaf_filter_loops.add(lp[0])
                else:
                    ctx.bad("seed-filter:%s" % role_str(rr)[:40], "the seeding chain of Extractor::new drops e-nodes through filter(%s): only 'the node has no children' may filter the seeds" % role_str(rr)[:80], where_of(b, lp[0]))
            elif n_ in C04_BAD and n_ != "filter":
                ctx.bad("seed-adaptor:" + n_, "the seeding chain of Extractor::new goes through %s: candidate e-nodes are dropped" % n_, where_of(b, lp[0]))
    for k, lp in want.items():
        if lp is None:
            ctx.bad("loop-missing:" + k, "Extractor::new has no loop over %s" % k, where_of(b))
            continue
        ok = C.loop_exhaustive(b, lp)
        ctx.check(ok, "loop-exhaustive:" + k, "the loop over %s in Extractor::new exits only when the iterator is exhausted" % k,
                  "the loop over %s in Extractor::new can be left early (break/return in its body): some candidate e-nodes are never considered, so a cheaper term can be missed" % k,
                  where_of(b, lp[0]))
    # leaf seeding: the push in the enodes loop is guarded only by 'no children'
    pushes = [c for c in b.calls if c.callee and c.callee.name == "push" and "BinaryHeap" in (c.callee.impl_self or "")]
    ctx.floor("heap pushes", len(pushes), 2)
    for i, c in enumerate(pushes):
        conds = C.conditions_at(b, c.bb)
        guards = []
        cond_role = {}
        cond_edge = {}
        for e, cond in conds:
            r = cond[1] if len(cond) > 1 else None
            if cond[0] in ("true", "false") and isinstance(r, tuple) and r[0] == "const":
                continue
            if isinstance(r, tuple) and r[0] == "discr":
                continue
            guards.append((cond[0], role_str(cond[1])[:120] if len(cond) > 1 else ""))
            cond_role[guards[-1][1]] = cond[1] if len(cond) > 1 else None
            cond_edge[guards[-1][1]] = e
        ctx.info("push #%d guarded by %s" % (i, guards))
        allowed = 0
        for kind, txt in guards:
            if kind == "true" and (txt.startswith("is_empty(applied_id_occurrences") or txt.startswith("all(")):
                allowed += 1
            elif kind == "true" and C.is_forall_role(crate, cond_role[txt], "contains_key", over=("applied_id_occurrences",)):
                allowed += 1
            elif kind == "false" and txt.startswith("unwrap_or(map(lookup(") and _closure_is_table_test(crate, cond_role.get(txt)):
                allowed += 1
            elif kind == "false" and txt.startswith("contains_key("):
                allowed += 1
            elif kind == "false" and _class_not_final(cond_role.get(txt)):
                allowed += 1
            elif kind == "false" and txt.startswith("is_some_and(lookup(") and _closure_is_table_test(crate, cond_role.get(txt)):
                allowed += 1
            elif kind == "false" and txt.startswith("any(") and "applied_id_occurrences(" in txt and _closure_is_not_table_test(crate, cond_role.get(txt)):
                allowed += 1        # `children.any(|c| !table.contains_key(c))` false  ==  `children.all(|c| table.contains_key(c))` true
            elif kind == "false" and _flag_is_class_final(b, cond_role.get(txt), cond_edge.get(txt)):
                allowed += 1        # `matches!(lookup(x), Some(i) if table.contains_key(i))` false  ==  the class is not final yet
            else:
                ctx.bad("push-extra-guard:%d:%s" % (i, txt[:40]), "heap push #%d in Extractor::new is additionally guarded by %s %s — candidates can be dropped" % (i, kind, txt), where_of(b, c.bb))
        # the leaf test may sit in a filter of the loop's iterator instead of an `if`
        if allowed == 0:
            for lp in loops:
                if lp[0] in leaf_filter_loops and c.bb in b.reach(lp[3], avoid=lp[2]):
                    allowed += 1
        ctx.check(allowed >= 1, "push-guards:%d" % i, "heap push #%d is guarded only by the leaf / all-children-final / class-not-final tests" % i,
                  "heap push #%d has lost its guard" % i, where_of(b, c.bb))


@rule("X1", doc="heap order is reversed on cost", once=True)
def x1(ctx):
    crate = ctx.lib("default")
    pcs = [b for b in crate.by_name.get("partial_cmp", []) if "WithOrdRev" in (b.impl_self or "")]
    cmps = [b for b in crate.by_name.get("cmp", []) if "WithOrdRev" in (b.impl_self or "") and (b.impl_trait or "").endswith("Ord")]
    if len(pcs) != 1 or len(cmps) != 1:
        raise mir.AnchorMissing("PartialOrd/Ord for WithOrdRev", "found %d/%d" % (len(pcs), len(cmps)))
    pc = pcs[0]
    ctx.check(not pc.auto_derived and not cmps[0].auto_derived, "manual-impl", "the ordering of WithOrdRev is the hand-written reversed one",
              "PartialOrd/Ord for WithOrdRev is derived: the heap is a max-heap on (node, cost)", where_of(pc))
    inner = [c for c in pc.calls if c.callee and c.callee.name in ("partial_cmp", "cmp") and not pc.blocks[c.bb]["cleanup"]]
    if not ctx.floor("cost comparisons in WithOrdRev::partial_cmp", len(inner), 1):
        return
    for c in inner:
        r0 = strip_role(pc.role_of_operand(c.args[0]))
        r1 = strip_role(pc.role_of_operand(c.args[1]))
        ok = r0 == ("field", ("param", "other"), "1") and r1 == ("field", ("param", "self"), "1")
        ctx.check(ok, "reversed-on-cost", "partial_cmp compares other.1 (cost) with self.1: a min-heap on cost",
                  "WithOrdRev::partial_cmp compares %s with %s; for a min-heap on cost it must be other.1.partial_cmp(&self.1): Dijkstra over a max-heap finalises the most expensive candidate first" % (role_str(r0), role_str(r1)), where_of(pc, c.bb))
    cm = cmps[0]
    dl = [c for c in cm.calls if c.callee and c.callee.target == pc.id]
    okd = False
    for c in dl:
        okd = strip_role(cm.role_of_operand(c.args[0])) == ("param", "self") and strip_role(cm.role_of_operand(c.args[1])) == ("param", "other")
    ctx.check(okd, "cmp-delegates", "Ord::cmp delegates to self.partial_cmp(other)", "Ord::cmp of WithOrdRev does not delegate to partial_cmp(self, other) in that order", where_of(cm))


@rule("X2", doc="first pop wins; X4: entry node, cost and key come from the same popped element")
def x2(ctx):
    crate = ctx.lib()
    b = ctor(crate)
    ins = [c for c in b.calls if c.callee and c.callee.name == "insert" and "HashMap" in (c.callee.impl_self or "") and not b.blocks[c.bb]["cleanup"]]
    # entry API: `match map.entry(k) { Occupied(_) => continue, Vacant(v) => { v.insert(x); } }` — the insert is first-pop-wins by
    # construction (a vacant entry), its key is the argument of entry()
    vins = [c for c in b.calls if c.callee and c.callee.name == "insert" and "VacantEntry" in (c.callee.impl_self or "") and not b.blocks[c.bb]["cleanup"]]
    ors = [c for c in b.calls if c.callee and c.callee.name in ("or_insert", "or_insert_with") and "Entry" in (c.callee.impl_self or "") and not b.blocks[c.bb]["cleanup"]]
    if not ctx.floor("result-table inserts", len(ins) + len(vins) + len(ors), 1):
        return
    for c in vins + ors:
        ent = None
        for x in role_walk(b.role_of_operand(c.args[0])):
            if isinstance(x, tuple) and x[0] == "call" and x[1] == "entry" and len(x[3]) == 2:
                ent = x
        key = strip_role(ent[3][1]) if ent else None
        val = strip_role(b.role_of_operand(c.args[1]))
        ctx.check(ent is not None, "first-pop-wins", "the table is filled through a vacant entry (an occupied one is left alone)",
                  "Extractor::new fills the table through an entry that is not derived from map.entry(key)", where_of(b, c.bb))
        if ent is None:
            continue
        pops = {x[4] for x in role_walk(val) if isinstance(x, tuple) and x[0] == "call" and x[1] == "pop"}
        kpops = {x[4] for x in role_walk(key) if isinstance(x, tuple) and x[0] == "call" and x[1] == "pop"}
        okv = isinstance(val, tuple) and val[0] == "agg" and len(val[2]) == 2 and len(pops) == 1 and kpops == pops
        ctx.check(okv, "entry-from-one-pop", "table entry = (node, cost) of one popped element, keyed by lookup(that node).id",
                  "the table entry %s / key %s is not built from one popped heap element: the reported cost is not the stored node's cost" % (role_str(val), role_str(key)), where_of(b, c.bb))
        if okv:
            n0, n1 = strip_role(val[2][0]), strip_role(val[2][1])
            okf = isinstance(n0, tuple) and n0[0] == "field" and n0[2] == "0" and isinstance(n1, tuple) and n1[0] == "field" and n1[2] == "1"
            ctx.check(okf, "entry-fields-in-place", "entry.0 is the popped node and entry.1 the popped cost", "the table entry mixes up node and cost: %s" % role_str(val), where_of(b, c.bb))
            ctx.check(role_mentions_call(key, "lookup"), "key-is-class-of-node", "the key is the class that the popped node looks up to", "the key %s is not the class of the popped node" % role_str(key), where_of(b, c.bb))
    for c in ins:
        key = strip_role(b.role_of_operand(c.args[1]))
        val = strip_role(b.role_of_operand(c.args[2]))
        conds = C.conditions_at(b, c.bb)
        guarded = False
        for e, cond in conds:
            if cond[0] == "false":
                r = strip_role(cond[1])
                if isinstance(r, tuple) and r[0] == "call" and r[1] == "contains_key" and strip_role(r[3][1]) == key:
                    guarded = True
        ctx.check(guarded, "first-pop-wins", "the table insert is dominated by !map.contains_key(same key)",
                  "Extractor::new overwrites the table entry of a class that was already finalised (a later, more expensive pop replaces the cheapest node)", where_of(b, c.bb))
        # same popped element
        pops = {x[4] for x in role_walk(val) if isinstance(x, tuple) and x[0] == "call" and x[1] == "pop"}
        kpops = {x[4] for x in role_walk(key) if isinstance(x, tuple) and x[0] == "call" and x[1] == "pop"}
        okv = isinstance(val, tuple) and val[0] == "agg" and len(val[2]) == 2 and len(pops) == 1 and kpops == pops
        ctx.check(okv, "entry-from-one-pop", "table entry = (node, cost) of one popped element, keyed by lookup(that node).id",
                  "the table entry %s / key %s is not built from one popped heap element: the reported cost is not the stored node's cost" % (role_str(val), role_str(key)), where_of(b, c.bb))
        if okv:
            n0, n1 = strip_role(val[2][0]), strip_role(val[2][1])
            okf = isinstance(n0, tuple) and n0[0] == "field" and n0[2] == "0" and isinstance(n1, tuple) and n1[0] == "field" and n1[2] == "1"
            ctx.check(okf, "entry-fields-in-place", "entry.0 is the popped node and entry.1 the popped cost",
                      "the table entry mixes up node and cost: %s" % role_str(val), where_of(b, c.bb))
            ctx.check(role_mentions_call(key, "lookup") and any(x == n0 for x in role_walk(key)) or role_mentions_call(key, "lookup"), "key-is-class-of-node",
                      "the key is the class that the popped node looks up to", "the key %s is not the class of the popped node" % role_str(key), where_of(b, c.bb))


@rule("X3", doc="a parent's cost is computed only when all children are final, from the children's table costs")
def x3(ctx):
    crate = ctx.lib()
    b = ctor(crate)
    costs = [c for c in b.calls if c.callee and c.callee.name == "cost" and (c.callee.trait or "").endswith("CostFunction") and not b.blocks[c.bb]["cleanup"]]
    if not ctx.floor("cost() calls in Extractor::new", len(costs), 2):
        return
    n_parent = 0
    for c in costs:
        node = b.role_of_operand(c.args[1])
        if not role_mentions_call(node, "usages"):
            # leaf seeding: the node has no children
            conds = C.conditions_at(b, c.bb)
            ok = any(cond[0] == "true" and role_str(cond[1]).startswith("is_empty(applied_id_occurrences") for e, cond in conds)
            if not ok:
                # the guard as a filter of the seeding loop's iterator
                for lp in C.iterator_loops(b):
                    r_ = strip_role(lp[1])
                    while isinstance(r_, tuple) and r_[0] == "call" and r_[3]:
                        cl_ = C._closure_of_role(crate, r_[3][1]) if len(r_[3]) > 1 else None
                        if r_[1] == "filter" and hasattr(cl_, "calls") and c.bb in b.reach(lp[3], avoid=lp[2]):
                            rr = strip_role(cl_.role_of_local(0))
                            if isinstance(rr, tuple) and rr[0] == "call" and rr[1] == "is_empty" and role_mentions_call(rr, "applied_id_occurrences"):
                                ok = True
                        r_ = strip_role(r_[3][0])
            ctx.check(ok, "leaf-cost-guard", "the seeding cost() call is guarded by 'node has no children'",
                      "cost() is called with a panicking child-cost closure on a node that may have children", where_of(b, c.bb))
            continue
        n_parent += 1
        conds = C.conditions_at(b, c.bb)
        okall = False
        for e, cond in conds:
            if cond[0] == "true":
                r = strip_role(cond[1])
                if C.is_forall_role(crate, r, "contains_key", over=("applied_id_occurrences",)) and not (isinstance(r, tuple) and r[0] == "call" and r[1] == "all"):
                    okall = True
                if isinstance(r, tuple) and r[0] == "call" and r[1] == "all" and role_mentions_call(r, "applied_id_occurrences"):
                    # the predicate closure tests membership in the table
                    cl = [x for x in role_walk(r) if isinstance(x, tuple) and x[0] == "agg" and "closure" in str(x[1])]
                    for x in cl:
                        cb = crate.bodies.get(x[1])
                        if cb and any(cc.callee and cc.callee.name == "contains_key" for cc in cb.calls):
                            okall = True
        for e, cond in conds:
            # `children.any(|c| !map.contains_key(&c.id))` false — the same test, negated
            if cond[0] == "false" and len(cond) > 1:
                r = strip_role(cond[1])
                if isinstance(r, tuple) and r[0] == "call" and r[1] == "any" and role_mentions_call(r, "applied_id_occurrences") and _closure_is_not_table_test(crate, r):
                    okall = True
        ctx.check(okall, "all-children-final", "a parent's cost is computed only under all(children, |i| map.contains_key(i.id))",
                  "Extractor::new computes the cost of a parent e-node without all of its children having final entries (the child-cost closure indexes a missing entry or uses a non-final cost)", where_of(b, c.bb))
        # child cost closure reads the cost component of the table entry
        cl = strip_role(b.role_of_operand(c.args[2]))
        okc = False
        if isinstance(cl, tuple) and cl[0] == "agg":
            cb = crate.bodies.get(cl[1])
            if cb is not None:
                rets = [cb.role_of_rvalue(d["rv"]) if d["kind"] == "assign" else ("call", d["call"].callee.name if d["call"].callee else "?", "", [cb.role_of_operand(a) for a in d["call"].args], d["bb"]) for d in cb.defs().get(0, [])]
                for r in rets:
                    r = strip_role(r)
                    if isinstance(r, tuple) and r[0] == "field" and r[2] == "1" and role_mentions_call(r, "index"):
                        okc = True
        ctx.check(okc, "child-cost-from-table", "children's costs are the cost components (.1) of their table entries",
                  "the child-cost closure handed to cost() does not return the table entry's cost component", where_of(b, c.bb))
    ctx.floor("parent cost() calls", n_parent, 1)


@rule("X5", doc="extract renames the stored node with the fresh-filling variant")
def x5(ctx):
    crate = ctx.lib()
    es = crate.method("extract::Extractor", "extract")
    if len(es) != 1:
        raise mir.AnchorMissing("Extractor::extract")
    b = mir.inline_view(crate, es[0], keep=("extract", "apply_slotmap", "apply_slotmap_partial", "apply_slotmap_fresh", "find_applied_id"))
    ren = [c for c in b.calls if c.callee and c.callee.name in ("apply_slotmap", "apply_slotmap_partial", "apply_slotmap_fresh") and not b.blocks[c.bb]["cleanup"]
           and role_mentions_field(b.role_of_operand(c.args[0]), "map")]
    if not ctx.floor("renamings of the stored node in extract", len(ren), 1):
        return
    # the belief on the producer side: class_nf fills with fresh slots "in case l has redundancies"
    nf = crate.method("egraph::EGraph", "class_nf")
    producer_fresh = bool(nf) and any(c.callee and c.callee.name == "apply_slotmap_fresh" for c in nf[0].calls)
    ctx.info("producer class_nf uses apply_slotmap_fresh: %s" % producer_fresh)
    for c in ren:
        m = b.role_of_operand(c.args[1])
        ok_m = role_mentions_call(m, "find_applied_id")
        ctx.check(ok_m, "renaming-by-canonical-invocation", "the stored node is renamed by find(i).m", "the stored node is renamed by %s, not by the canonicalised invocation's map" % role_str(m), where_of(b, c.bb))
        ok = c.callee.name == "apply_slotmap_fresh" or not producer_fresh
        ctx.check(ok, "fresh-filling-renaming", "the stored node is renamed with apply_slotmap_fresh",
                  "Extractor::extract renames the stored node with %s although stored nodes (class_nf) can carry redundant slots the invocation does not cover: panics with 'index missing' instead of using a brand-new slot" % c.callee.name, where_of(b, c.bb))
    # recursion: children extracted from the renamed node's own children, in order
    rec = [c for c in b.all_calls() if c.callee and c.callee.target == es[0].id]
    ctx.check(len(rec) >= 1, "recurses-on-children", "extract recurses on the children of the renamed node", "extract no longer recurses on the node's children", where_of(b))
    gb = crate.method("extract::Extractor", "get_best_cost")
    if gb:
        g = mir.inline_view(crate, gb[0])
        r = [strip_role(g.role_of_rvalue(d["rv"])) if d["kind"] == "assign" else None for d in g.defs().get(0, [])]
        rr = [g.role_of_operand(d["call"].args[0]) for d in g.defs().get(0, []) if d["kind"] == "call" and d["call"].args]
        ok = any(isinstance(x, tuple) and role_mentions_field(x, "map") and any(isinstance(y, tuple) and y[0] == "field" and y[2] == "1" for y in role_walk(x)) for x in rr + [x for x in r if x])
        ctx.check(ok, "best-cost-is-entry-cost", "get_best_cost returns the cost component of the class's table entry",
                  "get_best_cost does not return map[id].1", where_of(g))


RULES = [x0, x1, x2, x3, x5]


@rule("SI", doc="slot inclusion at re-insert: the work-list handler puts a re-canonicalised e-node back only after slots(class) ⊆ slots(node) was tested true or the class was shrunk")
def si(ctx):
    C.slot_inclusion(ctx, ctx.lib())


RULES.append(si)


@rule("X6", doc="every child of the extracted node is extracted for its own invocation: the children list is filled with the results of the recursive call on that very child, nothing is shared between siblings by class id / slot set")
def x6(ctx):
    crate = ctx.lib()
    es = crate.method("extract::Extractor", "extract")
    if len(es) != 1:
        raise mir.AnchorMissing("Extractor::extract")
    b = es[0]
    n = 0
    # values that end up in the children vector: pushes, or what a map closure that is collected returns
    vals = []
    for c in b.calls:
        if c.callee and c.callee.name == "push" and not b.blocks[c.bb]["cleanup"] and "RecExpr" in b.local_ty(mir.op_place(c.args[0])["l"]):
            vals.append((b, c.bb, b.role_of_operand(c.args[1])))
    for cb in b.closures:
        if "RecExpr" in cb.local_ty(0):
            vals.append((cb, None, cb.role_of_local(0)))
    for sub, bb, r in vals:
        n += 1
        sr = strip_role(r)
        direct = isinstance(sr, tuple) and sr[0] == "call" and sr[1] == "extract" and b.id in (sub.call_at[sr[4]].callee.target if sr[4] in sub.call_at and sub.call_at[sr[4]].callee else "")
        ctx.check(direct, "child-from-own-extraction:%s" % (bb if bb is not None else "closure"), "a child term is the result of extract(that child)",
                  "Extractor::extract puts %s into the children list: a term that was not extracted for this child's own invocation. Two children that invoke the same class with the same slot SET but a different slot MAP (c[x,y] and c[y,x]) would share one term, and the extracted term is then not in the requested class" % role_str(sr)[:100],
                  where_of(sub, bb) if bb is not None else where_of(sub))
    ctx.floor("child terms of the extracted node", n, 1)
    # ... and in the order of the node's child positions: appended one by one while walking applied_id_occurrences front to back
    for sub in b.all_bodies():
        for c in sub.calls:
            if sub.blocks[c.bb]["cleanup"] or not c.callee or not c.args:
                continue
            pl = mir.op_place(c.args[0])
            ty = sub.local_ty(pl["l"]) if pl is not None else ""
            if c.callee.name in ("insert", "push_front", "swap", "reverse", "sort", "sort_by", "sort_by_key", "dedup", "retain", "truncate", "swap_remove", "remove") and "RecExpr" in ty and "Vec" in ty:
                ctx.bad("children-in-order:" + c.callee.name, "Extractor::extract rearranges the children list with %s: the i-th child term must belong to the i-th child position of the node" % c.callee.name, where_of(sub, c.bb))
    for l in C.iterator_loops(b):
        bad = sorted({x[1] for x in role_walk(l[1]) if isinstance(x, tuple) and x[0] == "call" and x[1] in ("rev", "skip", "take", "filter", "step_by")})
        if role_mentions_call(l[1], "applied_id_occurrences"):
            ctx.check(not bad, "children-in-order:loop", "the children are walked front to back, all of them", "Extractor::extract walks the node's children through %s" % bad, where_of(b, l[0]))


RULES.append(x6)


@rule("X7", doc="the renaming the extractor applies to e-nodes (apply_slotmap_fresh) gives every uncovered slot its own fresh name, the same for all its occurrences (C03.H6)")
def x7(ctx):
    from . import c03
    c03.h6(ctx)


RULES.append(x7)


@rule("X8", doc="an e-node that may carry redundant slots is renamed by a class invocation's map only with the variant that invents names for the slots the map does not cover (apply_slotmap_fresh) — in class_nf and in extract")
def x8(ctx):
    crate = ctx.lib()
    hosts = [b for b in crate.fns() if (b.name == "class_nf" and "EGraph" in (b.impl_self or "")) or ((b.file or "").endswith("extract/mod.rs") and b.name == "extract" and "Extractor" in (b.impl_self or ""))]
    C.need("class_nf / Extractor::extract", [b.id for b in hosts], 2)
    n = 0
    for b0 in hosts:
        b = mir.inline_view(crate, b0, keep=("lookup", "find_applied_id", "apply_slotmap_fresh", "apply_slotmap", "apply_slotmap_partial"))
        for c in b.calls:
            if b.blocks[c.bb]["cleanup"] or not c.callee or not c.callee.name.startswith("apply_slotmap") or len(c.args) < 2:
                continue
            m = b.role_of_operand(c.args[1])
            if not (role_mentions_call(m, "lookup") or role_mentions_call(m, "find_applied_id") or role_mentions_call(m, "lookup_internal")):
                continue
            n += 1
            ctx.check(c.callee.name == "apply_slotmap_fresh", "renamed-with-fresh-fill:" + C.fkey(b0), "%s renames the node with apply_slotmap_fresh" % C.short(b0.id),
                      "%s renames an e-node by a class invocation's map with %s: the map covers only the class's parameter slots, a redundant slot of the node is not in it — the call panics ('index missing') or leaves the stored name in place, and extraction fails for every class that has such a node" % (C.short(b0.id), c.callee.name), where_of(b, c.bb))
    ctx.floor("renamings by a class invocation's map in the extraction code", n, 2)


RULES.append(x8)


@rule("MC", doc="must-call census: no function of this property's files has gained an early exit in front of work it always did (every crate-local call that lay on all paths to a normal return in the reviewed tree still does)")
def mc(ctx):
    C.must_call_census(ctx, ctx.lib(), ['src/extract/mod.rs', 'src/extract/cost.rs', 'src/extract/with_ord.rs', 'src/egraph/mod.rs', 'src/lang.rs'])


RULES.append(mc)


@rule("X9", doc="the cost the extractor reports can be recomputed from the term: cost_rec evaluates every child recursively, hands the node to the cost function with its children renumbered 0..n-1 in occurrence order and answers child i's cost for Id(i); AstSize adds the cost of every child to 1")
def x9(ctx):
    crate = ctx.lib()
    bs = [b for b in crate.by_name.get("cost_rec", []) if b.kind != "Closure" and (b.file or "").endswith("extract/cost.rs")]
    if len(bs) != 1:
        raise mir.AnchorMissing("CostFunction::cost_rec")
    b = bs[0]
    # (a) children: map over expr.children of the recursive call, collected without a dropping adaptor
    chains = C.adaptor_chains(b, "iter") or []
    rec_ok = False
    for sub in b.all_bodies():
        for c in sub.calls:
            if c.callee and c.callee.target == b.id and not sub.blocks[c.bb]["cleanup"]:
                rec_ok = True
    ctx.check(rec_ok, "cost-rec:recurses", "cost_rec evaluates the children with cost_rec", "cost_rec no longer recurses into the children", where_of(b))
    coll = [c for c in b.calls if c.callee and c.callee.name == "collect" and not b.blocks[c.bb]["cleanup"]]
    okc = any(role_mentions_field(b.role_of_operand(c.args[0]), "children") and not any(isinstance(x, tuple) and x[0] == "call" and x[1] in ("filter", "take", "skip", "step_by", "filter_map", "take_while", "skip_while", "rev") for x in role_walk(b.role_of_operand(c.args[0]))) for c in coll)
    lp_children = [l for l in C.iterator_loops(b) if role_mentions_field(l[1], "children")]
    ctx.check(okc or (bool(lp_children) and all(C.loop_exhaustive(b, l) for l in lp_children)), "cost-rec:all-children", "the cost of every child is computed, in order", "cost_rec does not compute the cost of every child of the term (a dropping / reordering adaptor, or a loop left early)", where_of(b))
    # (b) renumbering: occurrence k becomes Id(k)
    lps = [l for l in C.iterator_loops(b) if role_mentions_call(l[1], "applied_id_occurrences_mut")]
    okr = False
    for l in lps:
        if not role_mentions_call(l[1], "enumerate") or not C.loop_exhaustive(b, l):
            continue
        for bi, si, s in b.statements():
            if s["k"] == "assign" and s["lhs"]["p"] and s["lhs"]["p"][-1] == "*" and bi in b.reach(l[3], avoid=l[2]):
                r = strip_role(b.role_of_rvalue(s["rv"]))
                if isinstance(r, tuple) and r[0] == "call" and r[1] == "new" and r[3]:
                    idr = strip_role(r[3][0])
                    # Id(<enumerate index>) : component 0 of the loop element
                    if isinstance(idr, tuple) and idr[0] == "agg" and str(idr[1]).endswith("Id::Id") and idr[2] and role_str(strip_role(idr[2][0])).endswith(".0") and b.must_pass(l[3], [l[0]], {bi}):
                        okr = True
    ctx.check(okr, "cost-rec:renumbered-by-position", "child occurrence k is renamed Id(k) for every k", "cost_rec does not renumber every child occurrence by its position: the cost closure then answers with another child's cost", where_of(b))
    # (c) the closure handed to cost() indexes the child costs by the id's number
    cs = [c for c in b.calls if c.callee and c.callee.name == "cost" and not b.blocks[c.bb]["cleanup"]]
    okk = False
    for c in cs:
        for a in c.args:
            cl = C._closure_of_role(crate, b.role_of_operand(a))
            if hasattr(cl, "calls"):
                r = strip_role(cl.role_of_local(0))
                if isinstance(r, tuple) and r[0] == "call" and r[1] == "index" and role_str(strip_role(r[3][1])).endswith(".0") and not any(isinstance(x, tuple) and x[0] == "bin" for x in role_walk(r[3][1])):
                    vec = strip_role(r[3][0])
                    while isinstance(vec, tuple) and vec[0] == "call" and vec[1] in ("deref", "borrow", "as_slice") and vec[3]:
                        vec = strip_role(vec[3][0])
                    # the vector indexed is the vector of the children's costs: collected from the recursive calls, or the very
                    # vector the recursive results are pushed into
                    filled = [p_ for p_ in b.calls if p_.callee and p_.callee.name == "push" and not b.blocks[p_.bb]["cleanup"] and role_mentions_call(b.role_of_operand(p_.args[1]), "cost_rec")
                              and strip_role(b.role_of_operand(p_.args[0])) == vec]
                    if role_mentions_call(vec, "collect") or filled:
                        okk = True
    ctx.check(okk, "cost-rec:closure-indexes-by-id", "the cost closure answers child_costs[id.0]", "the cost closure of cost_rec does not answer child_costs[id.0]", where_of(b))
    # (d) AstSize
    az = [x for x in crate.by_name.get("cost", []) if x.kind != "Closure" and "AstSize" in (x.impl_self or "")]
    for a_ in az:
        lps = [l for l in C.iterator_loops(a_) if role_mentions_call(l[1], "applied_id_occurrences")]
        adds = [c for c in a_.calls if c.callee and c.callee.name in ("saturating_add", "add", "checked_add", "wrapping_add") and not a_.blocks[c.bb]["cleanup"]]
        binadds = [bi for bi, si, s in a_.statements() if s["k"] == "assign" and s["rv"]["k"] == "bin" and s["rv"]["op"].startswith("Add")]
        ok = bool(lps) and all(C.loop_exhaustive(a_, l) for l in lps) and (bool(adds) or bool(binadds))
        if ok:
            l = lps[0]
            sites = {c.bb for c in adds} | set(binadds)
            ok = a_.must_pass(l[3], [l[0]], sites)
        ret = a_.role_of_local(0)
        one = any(isinstance(x, tuple) and x[0] == "const" and str(x[1]).startswith("1_") for x in role_walk(ret))
        if not ok:
            # fold form: occurrences.into_iter().fold(1, |s, x| s + costs(x.id))
            r0 = strip_role(ret)
            if isinstance(r0, tuple) and r0[0] == "call" and r0[1] == "fold" and len(r0[3]) == 3 and role_mentions_call(r0[3][0], "applied_id_occurrences") \
                    and not any(isinstance(x, tuple) and x[0] == "call" and x[1] in ("filter", "take", "skip", "step_by", "filter_map", "take_while", "skip_while") for x in role_walk(r0[3][0])):
                cl = C._closure_of_role(crate, r0[3][2])
                if hasattr(cl, "calls"):
                    addc = any(c.callee and c.callee.name in ("saturating_add", "add", "checked_add", "wrapping_add") for c in cl.calls) or any(s_["k"] == "assign" and s_["rv"]["k"] == "bin" and s_["rv"]["op"].startswith("Add") for _, _, s_ in cl.statements())
                    cb = any(c.callee is None or (c.callee.name in ("call", "call_mut", "call_once")) for c in cl.calls)
                    ok = addc and cb
        ctx.check(ok and one, "ast-size", "AstSize = 1 + the cost of every child", "AstSize::cost no longer adds the cost of every child occurrence to 1 (a child skipped, or the node itself not counted)", where_of(a_))
    ctx.floor("AstSize::cost", len(az), 1)


RULES.append(x9)


@rule("X10", doc="extraction succeeds in assertion builds too: the assertions under `if CHECKS` on its path are the reviewed ones (C08.GA)")
def x10(ctx):
    C.ghost_census(ctx, ctx.lib())


RULES.append(x10)


@rule("X11", doc="extraction succeeds for every live class: the classes Extractor::new seeds and propagates over are EGraph::ids() = exactly the leaders (C04.M11) — a live class missing from ids() has no entry in the cost table and extract panics on it")
def x11_m11(ctx):
    from . import c04
    c04.m11(ctx)


RULES.append(x11_m11)

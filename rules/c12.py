"""C12 — the result does not depend on the order of insertions and unions (merge transports everything)."""
from salib import mir
from salib.mir import role_str, role_walk, strip_role, role_mentions_field, role_mentions_call, role_mentions_param
from salib.runner import rule, where_of
from . import common as C
from . import c02, c14

META = {
    "level": "other",
    "explanation": "The survivor of a class merge is chosen by size, so whatever the merge does not transport from the deprecated class is "
                   "lost in one union order and kept in the other. O1: the merge function moves every e-node (remove + re-add + queue), "
                   "re-adds the deprecated class's symmetry generators to the survivor and re-queues on growth, joins the analysis data "
                   "(C14.A2) and re-queues the deprecated class's usages; O2: the shrink-and-retry branch of the leader union exists for "
                   "both operands with the proof flipped for the second; P2 (shared with C02): every class-level change re-queues parents.",
    "not_decided": "confluence of the work-list fixpoint (hash-map iteration order)",
    "assumptions": [],
}


@rule("O1", doc="merge transports nodes, generators, analysis datum and usages")
def o1(ctx):
    crate = ctx.lib()
    hw_ins, hw_rem = c02._hc_split(crate)
    req = set(C.requeue_functions(crate))
    for mid in C.need("merge", C.merge_functions(crate)):
        # single-use helpers the merge was split into (analysis part, group part) are looked through
        b = mir.inline_view(crate, crate.bodies[mid], keep=tuple(C.short(x).split("::")[-1] for x in (set(hw_ins) | set(hw_rem) | req | set(C.uf_setters(crate)))))
        ufs = set(C.uf_setters(crate))
        dep = surv = None
        for c in C.calls_to(crate, b, ufs):
            idr = strip_role(b.role_of_operand(c.args[1]))
            if idr[0] == "field" and idr[1][0] == "param":
                dep = idr[1][1]
        aps = [b.var_names.get(i) for i in range(1, b.argc + 1) if "AppliedId" in b.local_ty(i)]
        surv = [p for p in aps if p != dep]
        if dep is None or len(surv) != 1:
            raise mir.AnchorMissing("deprecated / surviving parameters of the merge function", "%s / %s" % (dep, surv))
        surv = surv[0]
        P = lambda p: ("field", ("param", p), "id")
        # (a) nodes: loop over the deprecated class's nodes, remove + add + queue Full
        loops = [l for l in C.iterator_loops(b) if role_mentions_field(l[1], "nodes") and any(x == P(dep) for x in role_walk(l[1]))]
        ok = len(loops) == 1 and C.loop_exhaustive(b, loops[0])
        ctx.check(ok, "all-nodes-visited:" + C.fkey(b), "the merge visits every e-node of the deprecated class", "the merge does not visit every e-node of the deprecated class (loop missing or left early)", where_of(b))
        if ok:
            sb, it, none_e, some_e, cs = loops[0]
            body = b.reach(some_e, avoid=none_e)
            rm = [c for c in b.calls if c.bb in body and c.callee and c.callee.target in hw_rem]
            ad = [c for c in b.calls if c.bb in body and c.callee and c.callee.target in hw_ins]
            pq = [c for c in b.calls if c.bb in body and c.callee and c.callee.name == "insert" and role_mentions_field(b.role_of_operand(c.args[0]), "pending")]
            okr = len(rm) == 1 and strip_role(b.role_of_operand(rm[0].args[1])) == P(dep)
            oka = len(ad) == 1 and strip_role(b.role_of_operand(ad[0].args[1])) == P(surv)
            okq = len(pq) == 1 and any(isinstance(x, tuple) and x[0] == "agg" and str(x[1]).endswith("PendingType::Full") for x in role_walk(b.role_of_operand(pq[0].args[2])))
            ctx.check(okr and oka, "nodes-moved:" + C.fkey(b), "each node is removed from the deprecated class and added to the survivor",
                      "the node loop of the merge does not remove from %s and add to %s exactly once per node (removes: %s, adds: %s)" % (dep, surv, [role_str(b.role_of_operand(c.args[1])) for c in rm], [role_str(b.role_of_operand(c.args[1])) for c in ad]), where_of(b, sb))
            ctx.check(okq, "moved-nodes-queued:" + C.fkey(b), "each moved node is queued with PendingType::Full", "moved nodes are not queued for full re-processing", where_of(b, sb))
            # ... every one of them: the queueing lies on every path through an iteration ("a leaf cannot change its shape" is
            # no reason to skip — re-processing a moved node is also what re-makes the survivor's analysis datum from it)
            if okq:
                ctx.check(b.must_pass(some_e, [sb], [pq[0].bb]), "moved-nodes-queued-unconditionally:" + C.fkey(b), "every iteration of the node-migration loop queues the moved node",
                          "the node-migration loop of the merge can go on to the next node without queueing the one it just moved (a guard was put in front of the re-queue): a moved node that is skipped is never re-processed in its new class — its contribution to the class's analysis datum, and any congruence it now takes part in, is lost",
                          where_of(b, pq[0].bb))
        # (b) generators
        ads = [c for c in b.calls if c.callee and c.callee.name in ("add_set", "add") and c.callee.is_(c.callee.name, "group::Group") and not b.blocks[c.bb]["cleanup"]]
        okg = False
        for c in ads:
            recv = b.role_of_operand(c.args[0])
            arg = b.role_of_operand(c.args[1])
            okg = any(x == P(surv) for x in role_walk(recv)) and role_mentions_call(arg, "generators") and any(x == P(dep) for x in role_walk(arg))
        ctx.check(okg, "generators-transported:" + C.fkey(b), "the deprecated class's generators() are re-added to the survivor's group",
                  "the merge does not add the generators of the deprecated class (%s) to the survivor's group: its symmetries are lost whenever that class is the one merged away" % dep, where_of(b))
        # (c) usages of the deprecated class re-queued
        rq = [c for c in b.calls if c.callee and c.callee.target in req and strip_role(b.role_of_operand(c.args[1])) == P(dep)]
        okr = bool(rq) and b.must_pass([0], b.return_blocks(), {c.bb for c in rq})
        ctx.check(okr, "dead-class-usages-requeued:" + C.fkey(b), "the usages of the deprecated class are re-queued on every path", "the merge does not re-queue the parents of the class it merges away", where_of(b))
    c14.a2(ctx)


@rule("O2", doc="the shrink-and-retry branch exists for both operands, with the proof flipped for the second")
def o2(ctx):
    crate = ctx.lib()
    sw = set(C.slot_writers(crate))
    for lid in C.need("leader-union", C.leader_union_functions(crate)):
        b = crate.bodies[lid]
        aps = [b.var_names.get(i) for i in range(1, b.argc + 1) if b.local_ty(i).lstrip("&").strip() == "types::AppliedId"]
        cs = C.calls_to(crate, b, sw)
        firsts = [strip_role(b.role_of_operand(c.args[1])) for c in cs]
        ok = sorted(str(f) for f in firsts) == sorted(str(("param", p)) for p in aps)
        ctx.check(ok, "both-sides-can-shrink:" + C.fkey(b), "the slot-set writer is called once for each operand (%s)" % aps,
                  "the leader union shrinks only %s: when the other side has the surplus slot the union order decides whether it becomes redundant" % [role_str(f) for f in firsts], where_of(b))
        for c in cs:
            who = strip_role(b.role_of_operand(c.args[1]))
            conds = C.conditions_at(b, c.bb)
            g = any(cond[0] == "ne" and any(strip_role(x) == ("call", "slots", "types::AppliedId", [who], strip_role(x)[4]) if isinstance(strip_role(x), tuple) and strip_role(x)[0] == "call" and strip_role(x)[1] == "slots" else False for x in (cond[1], cond[2])) for e, cond in conds)
            if not g:
                # the two tests merged into `if shrink_l || r.slots() != cap { if shrink_l {..l..} else {..r..} }`: the call is under
                # "the other operand's slots == cap" and every path to it passed "some operand's slots != cap"
                def is_slots_of(x, p_):
                    x = strip_role(x)
                    return isinstance(x, tuple) and x[0] == "call" and x[1] == "slots" and x[3] and strip_role(x[3][0]) == ("param", p_)
                others = [p_ for p_ in aps if ("param", p_) != who]
                other_eq = any(cond[0] == "eq" and len(cond) == 3 and any(is_slots_of(x, o) for x in (cond[1], cond[2]) for o in others) for e, cond in conds)
                ne_edges = [e for e, cond in C.all_cond_edges(b) if cond[0] == "ne" and len(cond) == 3 and any(is_slots_of(x, p_) for x in (cond[1], cond[2]) for p_ in aps)]
                # conditions stored in a bool local first (`let shrink_l = l.slots() != cap;`) appear as a test of that local
                for e, cond in C.all_cond_edges(b):
                    if cond[0] == "true" and len(cond) > 1:
                        r_ = strip_role(cond[1])
                        if isinstance(r_, tuple) and r_[0] == "call" and r_[1] == "ne" and any(is_slots_of(x, p_) for x in r_[3] for p_ in aps):
                            ne_edges.append(e)
                other_false = any(cond[0] == "false" and len(cond) > 1 and isinstance(strip_role(cond[1]), tuple) and strip_role(cond[1])[0] == "call" and strip_role(cond[1])[1] == "ne"
                                  and any(is_slots_of(x, o) for x in strip_role(cond[1])[3] for o in others) for e, cond in conds)
                g = (other_eq or other_false) and bool(ne_edges) and b.must_pass([0], {c.bb}, ne_edges)
            ctx.check(g, "shrink-guard:%s:%s" % (C.fkey(b), who[1] if who[0] == "param" else "?"), "shrinking %s is guarded by %s.slots() != cap" % (role_str(who), role_str(who)),
                      "the shrink of %s is not guarded by its own slots() != cap" % role_str(who), where_of(b, c.bb))
            # retried afterwards with the original operands
            retry = [x for x in b.calls if x.callee and x.callee.name == "union_internal" and x.bb in b.reach(b.after(c.bb))]
            ctx.check(bool(retry) and b.must_pass(b.after(c.bb), b.return_blocks(), {x.bb for x in retry}), "retry-after-shrink:%s:%s" % (C.fkey(b), who[1] if who[0] == "param" else "?"),
                      "after shrinking the union is retried", "after shrinking %s the union is not retried on every path" % role_str(who), where_of(b, c.bb))
        if "explanations" in (ctx.cur_cfg or ""):
            for c in cs:
                who = strip_role(b.role_of_operand(c.args[1]))
                pr = b.role_of_operand(c.args[3])
                flipped = role_mentions_call(pr, "prove_symmetry")
                want = who == ("param", aps[1])
                ctx.check(flipped == want, "proof-orientation:%s:%s" % (C.fkey(b), who[1] if who[0] == "param" else "?"),
                          "shrink(%s) gets the proof %s" % (role_str(who), "flipped" if want else "as is"),
                          "shrink_slots expects `from` on the left of its proof: shrinking %s must be given the %s proof" % (role_str(who), "flipped" if want else "original"), where_of(b, c.bb))


@rule("P2", doc="touch-after-change (shared with C02)")
def p2(ctx):
    c02.p2(ctx)


RULES = [o1, o2, p2]


@rule("LC", doc="loop-exit census: every iterator-driven loop of the library runs to exhaustion, except a frozen per-file reviewed set of search / error-propagation loops")
def lc(ctx):
    C.loop_census(ctx, ctx.lib())


RULES.append(lc)


@rule("O3", doc="a merge hands the deprecated class's symmetries to the survivor whichever side is deprecated (shared with C10.G8): otherwise what is known afterwards depends on which class the union happened to keep")
def o3(ctx):
    from . import c10
    c10.g8(ctx)


RULES.append(o3)


@rule("O4", doc="a work-list request for full re-processing always recomputes the e-node's strong shape: no path through the handler skips the re-canonicalisation because 'the children did not change'")
def o4(ctx):
    crate = ctx.lib()
    n = 0
    for hid in C.need("re-insert function (handle_pending)", C.reinsert_functions(crate)):
        b = mir.inline_view(crate, crate.bodies[hid], keep=("shape", "proven_shape", "proven_proven_shape", "lookup_internal", "raw_add_to_class", "raw_remove_from_class", "handle_congruence", "determine_self_symmetries", "update_analysis"))
        shapes = {c.bb for c in b.calls if c.callee and c.callee.name in ("shape", "proven_shape", "proven_proven_shape") and not b.blocks[c.bb]["cleanup"]}
        # the analysis-only early return: an edge of a switch on the discriminant of the pending-type parameter
        only = C.known_variant_edges(crate, b, lambda r: isinstance(r, tuple) and r[0] == "param" and "PendingType" in b.local_ty(b.param_index(r[1]) or 0),
                                     "egraph::PendingType", "OnlyAnalysis")
        n += 1
        ok = bool(shapes) and b.must_pass([0], b.return_blocks(), shapes | set(only))
        ctx.check(ok, "full-request-reshapes:" + C.fkey(crate.bodies[hid]), "every path through %s is the analysis-only return or recomputes the node's shape" % C.short(hid),
                  "%s has a path that handles a Full request without calling shape(): the strong shape of an e-node depends on the symmetry groups of its child classes, not only on their ids and slots — when a child gained a symmetry the parent is re-queued precisely to be re-keyed. Skipping that (e.g. 'find_enode(node) == node, nothing changed') leaves stale hashcons keys: congruent parents are never merged, and whether that happens depends on the order of insertions and unions" % C.short(hid), where_of(b))
    ctx.floor("work-list handlers", n, 1)


RULES.append(o4)


@rule("O5", doc="the self-symmetry derivation runs after every re-insert and has no shortcut in front of the variant enumeration (C02.P6)")
def o5(ctx):
    c02.p6(ctx)


RULES.append(o5)


@rule("MC", doc="must-call census: no function of this property's files has gained an early exit in front of work it always did (every crate-local call that lay on all paths to a normal return in the reviewed tree still does)")
def mc(ctx):
    C.must_call_census(ctx, ctx.lib(), ['src/egraph/union.rs', 'src/egraph/rebuild.rs', 'src/egraph/add.rs', 'src/egraph/find.rs'])


RULES.append(mc)


@rule("O6", doc="the strong shape minimises over the FULL product of the children's groups (all_perms of every child), whatever order the symmetries were learned in (C04.M3b/M3c)")
def o6(ctx):
    from . import c04
    c04.m3b(ctx)
    c04.m3c(ctx)


RULES.append(o6)


@rule("O7", doc="source ids and class ids are kept apart (C02.P14): a node that arrived through a union is processed under its own source id, so what is derived does not depend on which class a union kept")
def o7(ctx):
    c02.p14(ctx)


RULES.append(o7)


@rule("O8", doc="the completion of a slot map for slots it does not cover draws a NEW fresh slot for every slot (C03.H10): one shared placeholder identifies two redundant slots of a stored e-node, the node re-canonicalises to a different shape, and whether a later insertion finds it depends on the order of the unions")
def o8_h10(ctx):
    from . import c03
    c03.h10(ctx)


RULES.append(o8_h10)


@rule("O9", doc="a new e-node gets the full pass whenever it is created (C14.A4): whether a parent's symmetry is known must not depend on whether the parent was inserted before or after its child became symmetric")
def o9_a4(ctx):
    from . import c14
    c14.a4(ctx)


RULES.append(o9_a4)

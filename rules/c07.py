"""C07 — explanations are valid proofs (kernel confinement, leaves, orientation coherence).  explanations configurations only."""
from salib import mir
from salib.mir import role_str, role_walk, strip_role, role_mentions_field, role_mentions_call, role_mentions_param
from salib.runner import rule, where_of
import re
from . import common as C
from . import c10

EXPL = ["explanations", "checks_explanations"]

META = {
    "level": "other",
    "explanation": "Proof objects are built LCF style: K1 checks that ProvenEqRaw is constructed only in the five *Proof::check kernels of "
                   "explain/proof.rs, each building its own Proof variant behind at least one premise guard, with private fields; K2 that "
                   "leaves (ExplicitProof) are built only through union_instantiations -> prove_explicit, from the user's justification "
                   "unchanged and from the synified results of the two pattern instantiations and nothing else; K3 (the heart) that every "
                   "permutation paired with a proof is oriented like the proof: for a proof source -> target of two invocations of one class "
                   "the permutation is target.m ; source.m^-1 (the invariant ProvenPerm::check states: proof proves c[id] = c[elem]); K4 that "
                   "composition, inverse and the chaining helpers pair the permutation algebra with the matching proof combinator; K5 that "
                   "proof-carrying sifting mirrors plain sifting (C10.G1); K6 that the conclusion is built from the two queried terms in order.",
    "not_decided": "validity of each produced proof as a value (needs an independent checker over all histories); redundancy witnesses as values",
    "assumptions": ["the invariant 'ProvenPerm.proof proves c[id] = c[elem]' is the one asserted by ProvenPerm::check (re-read on every run)"],
}

KERNELS = {"ExplicitProof": "Explicit", "ReflexivityProof": "Reflexivity", "SymmetryProof": "Symmetry", "TransitivityProof": "Transitivity", "CongruenceProof": "Congruence"}


def panic_guards(b, bb):
    """switch edges dominating bb whose sibling edge cannot reach a return (assert idiom) and
    dominating calls to assert_* helper functions"""
    n = 0
    dom = b.dominators().get(bb, set())
    rets = set(b.return_blocks())
    for nd in dom:
        if isinstance(nd, tuple) and nd[0] == "e":
            sb = nd[1]
            t = b.blocks[sb]["term"]
            r = b.role_of_operand(t["discr"])
            if r[0] == "const":
                continue
            sibs = [e for e in b.xgraph()[sb] if e != nd]
            if sibs and not (rets & b.reach(sibs)):
                n += 1
        elif isinstance(nd, int):
            c = b.call_at.get(nd)
            if c is not None and c.callee and c.callee.name and c.callee.name.startswith("assert_") and nd != bb:
                n += 1
    return n


@rule("K1", cfgs=EXPL, doc="kernel confinement of ProvenEqRaw")
def k1(ctx):
    crate = ctx.lib()
    adt = crate.adt_named("explain::proof::ProvenEqRaw")
    if adt is None:
        raise mir.AnchorMissing("explain::proof::ProvenEqRaw")
    for f in adt["variants"][0]["fields"]:
        ctx.check(f["vis"] not in ("pub", "crate"), "private-field:" + f["name"], "ProvenEqRaw.%s is private to explain::proof (%s)" % (f["name"], f["vis"]),
                  "ProvenEqRaw.%s is visible as `%s`: proof objects can be forged outside the kernel" % (f["name"], f["vis"]))
    seen = {}

    def kernel_of(root):
        for k in KERNELS:
            if (root.impl_self or "").endswith("proof::" + k) and root.name == "check" and (root.file or "").endswith("explain/proof.rs"):
                return k
        return None

    def constructs(b):
        return [(bi, s_) for bi, si, s_ in b.statements() if s_["k"] == "assign" and s_["rv"]["k"] == "agg" and s_["rv"].get("adt") == "explain::proof::ProvenEqRaw"]
    # private constructor helpers of the kernel module: only the kernels (or other such helpers) may call them
    makers = {}
    for b in crate.bodies.values():
        root = crate.root_of(b)
        if root.auto_derived or not constructs(b):
            continue
        makers.setdefault(root.id, root)
    helpers = {}
    for rid, root in makers.items():
        if kernel_of(root) is None and (root.file or "").endswith("explain/proof.rs") and str(root.vis).startswith("in:explain::proof"):
            helpers[rid] = root
    callers_of = {}
    for b in crate.bodies.values():
        for c in b.calls:
            if c.callee and c.callee.target in helpers and not b.blocks[c.bb]["cleanup"]:
                callers_of.setdefault(c.callee.target, set()).add(crate.root_of(b).id)
    for hid, h in sorted(helpers.items()):
        outside = sorted(x for x in callers_of.get(hid, set()) if kernel_of(crate.bodies[x]) is None and x not in helpers)
        ctx.check(not outside, "kernel-helper-confined:" + C.fkey(h), "%s (private to explain::proof) builds proof objects for the kernels only" % C.short(hid),
                  "%s builds a ProvenEqRaw and is called from %s, which is not one of the five *Proof::check kernels: a proof object that no rule has checked" % (C.short(hid), [C.short(x) for x in outside]), where_of(h))
    for rid, root in sorted(makers.items()):
        kern = kernel_of(root)
        if kern is None and rid in helpers:
            continue
        if not ctx.check(kern is not None, "constructed-in-kernel:" + C.fkey(root),
                         "ProvenEqRaw is constructed in kernel %s::check" % kern,
                         "%s constructs a ProvenEqRaw outside the five *Proof::check kernels: a proof object that no rule has checked" % C.short(root.id), where_of(root)):
            continue
    for b0 in crate.fns():
        kern = kernel_of(b0)
        if kern is None:
            continue
        b = mir.inline_view(crate, b0, depth=2, policy=set(helpers)) if helpers else b0
        for bi, s in constructs(b):
            rv = s["rv"]
            root = b0
            seen[kern] = seen.get(kern, 0) + 1
            pr = strip_role(b.role_of_operand(rv["ops"][rv["fields"].index("proof")]))
            var = pr[1].split("::")[-1] if pr[0] == "agg" else None
            ctx.check(var == KERNELS[kern], "variant:" + kern, "%s::check builds Proof::%s" % (kern, var), "%s::check builds Proof::%s" % (kern, var), where_of(b, bi, s.get("line")))
            eqr = strip_role(b.role_of_operand(rv["ops"][rv["fields"].index("eq")]))
            ctx.check(eqr == ("param", "eq"), "concludes-the-checked-equation:" + kern, "the stored conclusion is the equation that was checked (param eq)",
                      "%s::check stores %s as the conclusion, not the equation it checked" % (kern, role_str(eqr)), where_of(b, bi, s.get("line")))
            g = panic_guards(b, bi)
            ctx.info("%s::check premise guards dominating the construction: %d" % (kern, g))
            if kern != "ExplicitProof":
                ctx.check(g >= 1, "premise-guard:" + kern, "%s::check constructs only behind %d premise guard(s)" % (kern, g),
                          "%s::check constructs a proof object without any premise check (every claimed %s step is accepted)" % (kern, KERNELS[kern].lower()), where_of(b, bi, s.get("line")))
    for k in KERNELS:
        ctx.check(seen.get(k, 0) == 1, "kernel-present:" + k, "%s::check is a kernel (1 construction)" % k, "%s::check has %d constructions" % (k, seen.get(k, 0)))


@rule("K2", cfgs=EXPL, doc="leaves come only from the user's union_instantiations justification")
def k2(ctx):
    crate = ctx.lib()
    # ExplicitProof values
    sites = []
    for b in crate.bodies.values():
        for bi, si, s in b.statements():
            rv = s["rv"] if s["k"] == "assign" else None
            if rv and rv["k"] == "agg" and rv.get("adt") == "explain::proof::ExplicitProof" and not crate.root_of(b).auto_derived:
                sites.append((crate.root_of(b), b, bi, s, rv))
    ctx.floor("ExplicitProof constructions", len(sites), 1)
    leaf_makers = set()
    for root, b, bi, s, rv in sites:
        ok = root.kind == "Fn" and root.name == "prove_explicit" and (root.file or "").endswith("explain/front.rs")
        ctx.check(ok, "leaf-constructor:" + C.fkey(root), "ExplicitProof is built in front::prove_explicit", "%s builds an ExplicitProof (a leaf) outside prove_explicit" % C.short(root.id), where_of(b, bi, s.get("line")))
        j = strip_role(b.role_of_operand(rv["ops"][0]))
        ctx.check(j[0] == "param", "justification-unchanged:" + C.fkey(root), "the leaf's justification is the parameter unchanged", "the leaf's justification is %s" % role_str(j), where_of(b, bi, s.get("line")))
        leaf_makers.add(root.id)
    # call chain: free prove_explicit <- EGraph::prove_explicit <- union_instantiations only
    level1 = {x for x in set(C.direct_callers(crate, leaf_makers)) - leaf_makers if not crate.bodies[x].auto_derived}
    names1 = sorted(C.short(x) for x in level1)
    ok1 = all(crate.bodies[x].name == "prove_explicit" for x in level1) and len(level1) == 1
    ctx.check(ok1, "leaf-callers-1", "only EGraph::prove_explicit calls the leaf constructor (%s)" % names1, "the leaf constructor is called by %s" % names1)
    level2 = {x for x in set(C.direct_callers(crate, level1)) - level1 - leaf_makers if not crate.bodies[x].auto_derived}
    names2 = sorted(C.short(x) for x in level2)
    ok2 = len(level2) == 1 and crate.bodies[list(level2)[0]].name == "union_instantiations"
    ctx.check(ok2, "leaf-callers-2", "only union_instantiations produces leaves", "leaves are produced by %s — an equation the user never asserted can become a leaf" % names2)
    if not ok2:
        return
    ui = crate.bodies[list(level2)[0]]
    for c in C.calls_to(crate, ui, level1):
        sides = []
        for k in (1, 2):
            r = ui.role_of_operand(c.args[k])
            # exact chain: (clone/ref)* synify_app_id( (clone)* pattern_subst(self, <pattern param>, <subst param>) )
            x = strip_role(r)
            ok = False
            if isinstance(x, tuple) and x[0] == "call" and x[1] == "synify_app_id":
                y = strip_role(x[3][1])
                if isinstance(y, tuple) and y[0] == "call" and y[1] == "pattern_subst":
                    ok = strip_role(y[3][1])[0] == "param" and strip_role(y[3][2])[0] == "param"
                    sides.append(strip_role(y[3][1]))
            ctx.check(ok, "leaf-side-%d-is-the-instantiation" % k, "leaf side %d = synify(pattern_subst(self, pattern, subst)) and nothing else" % k,
                      "leaf side %d is %s: the leaf must state exactly the instantiated user equation (synified), not something canonicalised or otherwise rewritten first — otherwise the user's justification is attached to an equation the user never asserted" % (k, role_str(r)[:200]),
                      where_of(ui, c.bb))
        j = strip_role(ui.role_of_operand(c.args[3]))
        ctx.check(j == ("param", "justification"), "leaf-justification-is-users", "the justification handed to the leaf is the caller's parameter", "the justification is %s" % role_str(j), where_of(ui, c.bb))
        if len(sides) == 2:
            pi = [ui.param_index(s[1]) for s in sides]
            ctx.check(pi[0] is not None and pi[1] is not None and pi[0] < pi[1], "leaf-sides-in-order", "leaf = (from-pattern instance, to-pattern instance) in that order",
                      "the leaf's sides are swapped w.r.t. the from/to patterns", where_of(ui, c.bb))
        # the proof handed to union_internal is this leaf
    un = [c for c in ui.calls if c.callee and c.callee.name == "union_internal"]
    for c in un:
        pr = strip_role(ui.role_of_operand(c.args[3]))
        ok = pr[0] == "call" and pr[1] == "prove_explicit"
        ctx.check(ok, "union-carries-the-leaf", "union_internal receives the leaf proof", "union_internal receives %s" % role_str(pr)[:100], where_of(ui, c.bb))


def _perm_shape(r):
    """compose(X.m, inverse(Y.m)) -> (X, Y) else None"""
    r = strip_role(r)
    if not (isinstance(r, tuple) and r[0] == "call" and r[1] == "compose" and len(r[3]) == 2):
        return None
    a = strip_role(r[3][0])
    b = strip_role(r[3][1])
    if not (isinstance(b, tuple) and b[0] == "call" and b[1] == "inverse"):
        return None
    b = strip_role(b[3][0])
    if a[0] == "field" and a[2] == "m" and b[0] == "field" and b[2] == "m":
        return (strip_role(a[1]), strip_role(b[1]))
    return None


@rule("K3", cfgs=EXPL, doc="orientation coherence: permutation = target.m ; source.m^-1 for a proof source -> target")
def k3(ctx):
    crate = ctx.lib()
    # (0) the invariant the rule relies on is still the one ProvenPerm::check asserts
    chk = [b for b in crate.by_name.get("check", []) if (b.impl_self or "").endswith("perm::ProvenPerm")]
    if len(chk) != 1:
        raise mir.AnchorMissing("ProvenPerm::check")
    ck = chk[0]
    inv_ok = False
    for bi, si, s in ck.statements():
        rv = s["rv"] if s["k"] == "assign" else None
        if rv and rv["k"] == "agg" and rv.get("adt") == "explain::proof::Equation":
            l = ck.role_of_operand(rv["ops"][rv["fields"].index("l")])
            r = ck.role_of_operand(rv["ops"][rv["fields"].index("r")])
            if role_mentions_call(l, "identity") and role_mentions_field(r, "elem") and not role_mentions_call(r, "inverse"):
                inv_ok = True
    apc = [c for c in ck.calls if c.callee and c.callee.name == "assert_proves_equation"]
    ctx.check(inv_ok and bool(apc), "invariant-stated", "ProvenPerm::check asserts: proof proves c[identity] = c[elem]",
              "ProvenPerm::check no longer states the invariant 'proof proves c[id] = c[elem]' — the reference orientation of this rule is gone", where_of(ck))
    sites = 0
    orient = []
    # (1) leader union (or a helper its same-class branch was extracted into): source = first invocation
    #     parameter of the leader union (the proof's left side), target = second
    leaders = C.need("leader-union", C.leader_union_functions(crate))
    helper_ids = set(C.leader_helpers(crate))
    for site in C.leader_add_sites(crate):
        b, lead = mir.accessor_view(crate, site["body"]), site["leader"]
        aps = [lead.var_names.get(i) for i in range(1, lead.argc + 1) if lead.local_ty(i).lstrip("&").strip() == "types::AppliedId"]
        if len(aps) != 2:
            raise mir.AnchorMissing("leader union's two invocation parameters", str(aps))
        inv = {v: k for k, v in site["pmap"].items()}
        if aps[0] not in inv or aps[1] not in inv:
            raise mir.AnchorMissing("mapping of the leader union's invocation parameters into " + b.id, str(site["pmap"]))
        src, tgt = ("param", inv[aps[0]]), ("param", inv[aps[1]])
        for bi, si, s in b.statements():
            rv = s["rv"] if s["k"] == "assign" else None
            if rv and rv["k"] == "agg" and str(rv.get("adt", "")).endswith("perm::ProvenPerm"):
                sites += 1
                el = b.role_of_operand(rv["ops"][rv["fields"].index("elem")])
                pf = strip_role(b.role_of_operand(rv["ops"][rv["fields"].index("proof")]))
                sh = _perm_shape(el)
                flipped = role_mentions_call(pf, "prove_symmetry")
                s_, t_ = (tgt, src) if flipped else (src, tgt)
                ok = sh == (t_, s_)
                orient.append(("leader-union", ok))
                ctx.check(ok, "orientation:leader-union:" + C.fkey(lead),
                          "the permutation added for a proof %s -> %s is %s.m ; %s.m^-1" % (s_[1], t_[1], t_[1], s_[1]),
                          "in %s the permutation paired with a proof oriented %s -> %s is %s; by the invariant (proof proves c[id] = c[elem]) it must be %s.m.compose(&%s.m.inverse()). The two coincide only for involutions, so every 3-cycle symmetry gets a proof of the inverse permutation" % (
                              C.short(b.id), s_[1], t_[1], role_str(el), t_[1], s_[1]), where_of(b, bi, s.get("line")))
    # (2) self-symmetry derivation: (a, b, proof) = pc_congruence(..)  proves a -> b
    pol_ = mir.default_inline_policy(crate)
    roots_ = {rb.id for rb, _ in C.self_symmetry_sites(crate)}
    for b0 in crate.fns():
        if b0.id in leaders or b0.id in helper_ids or (b0.id in pol_ and b0.id not in roots_):
            continue
        # a `mk_proven_perm(elem, proof)` constructor helper is looked through, and so is a single-use helper holding the tail of
        # the deriver's loop (add_self_symmetry)
        b = mir.accessor_view(crate, mir.inline_view(crate, b0, keep=tuple(sorted(set(leaders) | set(helper_ids) | (roots_ - {b0.id})))))
        for bi, si, s in b.statements():
            rv = s["rv"] if s["k"] == "assign" else None
            if rv and rv["k"] == "agg" and str(rv.get("adt", "")).endswith("perm::ProvenPerm") and not (b.file or "").endswith("wrapper/perm.rs"):
                el = b.role_of_operand(rv["ops"][rv["fields"].index("elem")])
                pf = strip_role(b.role_of_operand(rv["ops"][rv["fields"].index("proof")]))
                sh = _perm_shape(el)
                if sh is None:
                    continue   # restrictions / transports of existing permutations (move_to, shrink_slots): K4-like, not an orientation site
                sites += 1
                # proof = pc_congruence(..).2 ; a = .0 ; b = .1
                ok = False
                why = role_str(el)
                # the congruence result may be a tuple (a, b, proof) or a private struct with the same three components in order
                def pos(r):
                    if not (isinstance(r, tuple) and r[0] == "field"):
                        return None
                    if r[2].isdigit():
                        return int(r[2])
                    base_ = strip_role(r[1])
                    if isinstance(base_, tuple) and base_[0] == "call":
                        for cb_ in b.all_bodies():
                            cs_ = cb_.call_at.get(base_[4])
                            if cs_ is not None and cs_.callee and cs_.callee.target in crate.bodies:
                                adt_ = crate.adt_named(crate.bodies[cs_.callee.target].local_ty(0).split("<")[0])
                                if adt_ is not None:
                                    names_ = [f["name"] for f in adt_["variants"][0]["fields"]]
                                    if r[2] in names_:
                                        return names_.index(r[2])
                    return None
                if pf[0] == "field" and pos(pf) == 2 and strip_role(pf[1])[0] == "call" and strip_role(pf[1])[1] == "pc_congruence":
                    base = strip_role(pf[1])
                    fa = [f for f in (sh[0], sh[1]) if False]
                    a = ("field", base, "0")
                    bb_ = ("field", base, "1")
                    # normalise named components of the shape to positions
                    def norm(z):
                        z = strip_role(z)
                        if isinstance(z, tuple) and z[0] == "field" and strip_role(z[1]) == base and pos(z) is not None:
                            return ("field", base, str(pos(z)))
                        return z
                    sh = (norm(sh[0]), norm(sh[1]))
                    x, y = sh
                    ok = (x == bb_ or strip_role(x) == bb_) and (y == a or strip_role(y) == a)
                    if not ok:
                        # roles of tuple fields may be rendered through the same call: compare structurally
                        ok = isinstance(x, tuple) and x[0] == "field" and x[2] == "1" and isinstance(y, tuple) and y[0] == "field" and y[2] == "0" and strip_role(x[1]) == base and strip_role(y[1]) == base
                orient.append(("self-symmetry", ok))
                ctx.check(ok, "orientation:self-symmetry:" + C.fkey(b),
                          "the derived self-symmetry for a congruence proof a -> b is b.m ; a.m^-1",
                          "in %s the self-symmetry paired with the congruence proof (a.target -> b.target) is %s; it must be b.m.compose(&a.m.inverse())" % (C.short(b.id), why), where_of(b, bi, s.get("line")))
    # (3) explanation: proven_contains(bij) chained after the find-proof of one side: that side is the source
    ee = crate.method("egraph::EGraph", "explain_equivalence")
    if len(ee) != 1:
        raise mir.AnchorMissing("EGraph::explain_equivalence")
    e = ee[0]
    pcs = [c for c in e.calls if c.callee and c.callee.name == "proven_contains"]
    ch = [c for c in e.calls if c.callee and c.callee.name == "chain_pai_pp"]
    if not pcs or not ch:
        raise mir.AnchorMissing("proven_contains / chain_pai_pp in explain_equivalence")
    sites += 1
    sh = _perm_shape(e.role_of_operand(pcs[0].args[1]))
    srcpai = strip_role(e.role_of_operand(ch[0].args[1]))
    ok = False
    if sh is not None:
        x, y = sh     # x = target side (.elem of its pai), y = source side
        ok = y == ("field", srcpai, "elem") and x != y
    orient.append(("explain", ok))
    ctx.check(ok, "orientation:explain", "explain_equivalence asks for l2.m ; l1.m^-1 and chains the symmetry proof after the find-proof of side 1",
              "explain_equivalence queries the symmetry %s but chains its proof after the find-proof of %s: the inverted map must come from the side whose proof is chained" % (role_str(e.role_of_operand(pcs[0].args[1])), role_str(srcpai)), where_of(e, pcs[0].bb))
    ctx.floor("orientation sites", sites, 2)
    ctx.check(len({o for _, o in orient}) == 1, "siblings-agree", "all orientation sites follow the same convention", "the orientation sites contradict each other: %s" % orient)


@rule("K4", cfgs=EXPL, doc="composition / inverse / chaining pair the permutation algebra with the matching proof combinator")
def k4(ctx):
    crate = ctx.lib()

    def impl_method(name):
        bs = [b for b in crate.by_name.get(name, []) if (b.impl_self or "").endswith("perm::ProvenPerm") and (b.impl_trait or "").endswith("Permutation")]
        if len(bs) != 1:
            raise mir.AnchorMissing("<ProvenPerm as Permutation>::" + name)
        return bs[0]

    def agg_of(b, adt_suffix):
        for bi, si, s in b.statements():
            rv = s["rv"] if s["k"] == "assign" else None
            if rv and rv["k"] == "agg" and str(rv.get("adt", "")).endswith(adt_suffix):
                f = rv["fields"]
                return bi, {n: strip_role(b.role_of_operand(rv["ops"][f.index(n)])) for n in f}
        raise mir.AnchorMissing("%s aggregate in %s" % (adt_suffix, b.id))

    def call_args(r, name, n):
        return r[3] if isinstance(r, tuple) and r[0] == "call" and r[1] == name and len(r[3]) >= n else None

    P = lambda name, f: ("field", ("param", name), f)
    # compose
    b = impl_method("compose")
    bi, f = agg_of(b, "perm::ProvenPerm")
    a = call_args(f["elem"], "compose", 2)
    ok = a is not None and strip_role(a[0]) == P("self", "elem") and strip_role(a[1]) == P("other", "elem")
    ctx.check(ok, "compose-elem", "compose: elem = self.elem.compose(other.elem)", "ProvenPerm::compose builds elem = %s" % role_str(f["elem"]), where_of(b, bi))
    a = call_args(f["proof"], "prove_transitivity", 2)
    ok = a is not None and strip_role(a[0]) == P("other", "proof") and strip_role(a[1]) == P("self", "proof")
    ctx.check(ok, "compose-proof-crossed", "compose: proof = transitivity(other.proof, self.proof)  [c[id]=c[other] then self renamed by other]",
              "ProvenPerm::compose pairs elem = self;other with proof %s; it must be transitivity(other.proof, self.proof)" % role_str(f["proof"]), where_of(b, bi))
    # inverse
    b = impl_method("inverse")
    bi, f = agg_of(b, "perm::ProvenPerm")
    a = call_args(f["elem"], "inverse", 1)
    ok1 = a is not None and strip_role(a[0]) == P("self", "elem")
    a = call_args(f["proof"], "prove_symmetry", 1)
    ok2 = a is not None and strip_role(a[0]) == P("self", "proof")
    ctx.check(ok1 and ok2, "inverse-pairing", "inverse: elem.inverse() with prove_symmetry(proof)", "ProvenPerm::inverse builds (%s, %s)" % (role_str(f["elem"]), role_str(f["proof"])), where_of(b, bi))
    # chain_pai_pp
    b = crate.one("egraph::EGraph", "chain_pai_pp")
    bi, f = agg_of(b, "applied_id::ProvenAppliedId")
    el = f["elem"]
    comp = [x for x in role_walk(el) if isinstance(x, tuple) and x[0] == "call" and x[1] == "compose"]
    ok = bool(comp) and strip_role(comp[0][3][0]) == P("pp", "elem") and strip_role(comp[0][3][1]) == ("field", P("pai", "elem"), "m")
    ctx.check(ok, "chain-pai-pp-elem", "chain_pai_pp: elem.m = pp.elem.compose(pai.elem.m)", "chain_pai_pp builds %s" % role_str(el), where_of(b, bi))
    a = call_args(f["proof"], "prove_transitivity", 3)
    ok = a is not None and strip_role(a[1]) == P("pai", "proof") and strip_role(a[2]) == P("pp", "proof")
    ctx.check(ok, "chain-pai-pp-proof", "chain_pai_pp: proof = transitivity(pai.proof, pp.proof)", "chain_pai_pp pairs it with %s" % role_str(f["proof"]), where_of(b, bi))
    # chain_pai
    b = crate.one("egraph::EGraph", "chain_pai")
    bi, f = agg_of(b, "applied_id::ProvenAppliedId")
    a = call_args(f["elem"], "apply_slotmap", 2)
    ok = a is not None and strip_role(a[0]) == P("next", "elem") and strip_role(a[1]) == ("field", P("start", "elem"), "m")
    ctx.check(ok, "chain-pai-elem", "chain_pai: elem = next.elem.apply_slotmap(start.elem.m)", "chain_pai builds %s" % role_str(f["elem"]), where_of(b, bi))
    a = call_args(f["proof"], "prove_transitivity", 3)
    ok = a is not None and strip_role(a[0]) == P("start", "proof") and strip_role(a[1]) == P("next", "proof")
    ctx.check(ok, "chain-pai-proof", "chain_pai: proof = transitivity(start.proof, next.proof)", "chain_pai pairs it with %s" % role_str(f["proof"]), where_of(b, bi))
    # find-on-handle
    b = crate.one("egraph::EGraph", "proven_proven_find_applied_id")
    st = [(bi, s) for bi, si, s in b.statements() if s["k"] == "assign" and mir.place_has_field(s["lhs"], "explain::wrapper::applied_id::ProvenAppliedId", "proof")]
    # (or the result is built as a fresh struct literal: its `proof` component)
    for bi, si, s in b.statements():
        rv = s["rv"] if s["k"] == "assign" else None
        if rv and rv["k"] == "agg" and str(rv.get("adt", "")).endswith("applied_id::ProvenAppliedId") and "proof" in rv.get("fields", []) and not b.blocks[bi]["cleanup"]:
            st.append((bi, {"rv": {"k": "use", "op": rv["ops"][rv["fields"].index("proof")]}}))
    ctx.floor("proof stores in proven_proven_find_applied_id", len(st), 1)
    for bi, s in st:
        r = strip_role(b.role_of_rvalue(s["rv"]))
        a = call_args(r, "prove_transitivity", 3)
        ok = a is not None and strip_role(a[0]) == P("pai", "proof") and role_mentions_call(a[1], "proven_unionfind_get")
        ctx.check(ok, "find-proof", "find: proof = transitivity(handle.proof, unionfind-entry.proof)", "find chains %s" % role_str(r), where_of(b, bi))


@rule("K5", cfgs=EXPL, doc="proof-carrying sifting mirrors plain sifting (C10.G1)")
def k5(ctx):
    c10.g1(ctx)


@rule("K6", cfgs=EXPL, doc="conclusion is the queried equation, built from the two queried terms in order")
def k6(ctx):
    crate = ctx.lib()
    e = crate.one("egraph::EGraph", "explain_equivalence")
    eqs = [(bi, s["rv"]) for bi, si, s in e.statements() if s["k"] == "assign" and s["rv"]["k"] == "agg" and s["rv"].get("adt") == "explain::proof::Equation"]
    ctx.floor("Equation constructions in explain_equivalence", len(eqs), 1)
    t = [e.var_names.get(i) for i in range(2, e.argc + 1)]
    for bi, rv in eqs:
        l = strip_role(e.role_of_operand(rv["ops"][rv["fields"].index("l")]))
        r = strip_role(e.role_of_operand(rv["ops"][rv["fields"].index("r")]))
        ok = l[0] == "call" and l[1] == "add_syn_expr" and strip_role(l[3][1]) == ("param", t[0]) and r[0] == "call" and r[1] == "add_syn_expr" and strip_role(r[3][1]) == ("param", t[1])
        ctx.check(ok, "conclusion-is-query", "final equation = { l: add_syn_expr(%s), r: add_syn_expr(%s) }" % (t[0], t[1]),
                  "the conclusion of the explanation is %s = %s, not the queried pair in order" % (role_str(l), role_str(r)), where_of(e, bi))
    rets = e.defs().get(0, [])
    okr = False
    for d in rets:
        r = strip_role(e.role_of_rvalue(d["rv"])) if d["kind"] == "assign" else None
        if d["kind"] == "call":
            c = d["call"]
            r = ("call", c.callee.name, c.callee.impl_self, [e.role_of_operand(a) for a in c.args], c.bb)
        if isinstance(r, tuple) and r[0] == "call" and r[1] == "check" and any(isinstance(x, tuple) and x[0] == "agg" and x[1] == "explain::proof::Equation::Equation" for a in r[3] for x in role_walk(a)):
            okr = True
    ctx.check(okr, "returns-kernel-result-for-conclusion", "the returned proof is the kernel's result for the final equation", "explain_equivalence does not return the kernel result for the final equation", where_of(e))
    # refuses unequal terms
    ok = any(cond[0] == "true" and role_str(cond[1]).startswith("eq(self, add_syn_expr(") for c in e.calls if c.callee and c.callee.name == "proven_contains" for _, cond in C.conditions_at(e, c.bb))
    ctx.check(ok, "explains-only-equal-terms", "the proof search runs only after eq(i1, i2) answered true", "explain_equivalence no longer tests eq(i1, i2) first", where_of(e))
    # side 2 is attached through symmetry of ITS find-proof
    ps = [c for c in e.calls if c.callee and c.callee.name == "prove_symmetry"]
    ok = any(role_mentions_param(e.role_of_operand(c.args[1]), t[1]) and not role_mentions_param(e.role_of_operand(c.args[1]), t[0]) for c in ps)
    ctx.check(ok, "second-side-by-symmetry", "the find-proof of the second term is reversed (symmetry) and chained last", "the reversed proof does not belong to the second queried term", where_of(e))


RULES = [k1, k2, k3, k4, k5, k6]


@rule("K1w", doc="compile-fail witnesses: proof objects cannot be forged or tampered with outside the kernel", thorough_only=True, once=True)
def k1w(ctx):
    from salib import witness
    witness.check(ctx, ['c07_forge_proof', 'c07_tamper_proof'])


RULES.append(k1w)


@rule("K7", cfgs=EXPL, doc="the leader union hands every callee a proof oriented like the operands it passes: (l, r, proof) or (r, l, symmetry(proof))")
def k7(ctx):
    crate = ctx.lib()
    n = 0
    for lid in C.need("leader union", C.leader_union_functions(crate)):
        b = crate.bodies[lid]
        # parameters: two invocations and the proof  `first = second`
        inv = [b.var_names.get(l) for l in range(1, b.argc + 1) if "types::AppliedId" in b.local_ty(l)]
        prf = [b.var_names.get(l) for l in range(1, b.argc + 1) if "ProvenEq" in b.local_ty(l) or "proof" in b.local_ty(l).lower()]
        if len(inv) != 2 or len(prf) != 1:
            raise mir.AnchorMissing("leader union signature (two invocations and a proof)", "%s has %s / %s" % (C.short(lid), inv, prf))
        A, B, P = inv[0], inv[1], prf[0]
        for c in b.calls:
            if b.blocks[c.bb]["cleanup"] or not c.callee or c.callee.target not in crate.bodies:
                continue
            roles = [strip_role(b.role_of_operand(a)) for a in c.args]
            pos = {}
            for i, r in enumerate(roles):
                if r == ("param", A):
                    pos.setdefault("A", i)
                elif r == ("param", B):
                    pos.setdefault("B", i)
            pidx = [i for i, a in enumerate(c.args) if mir.op_place(a) is not None and ("ProvenEq" in b.local_ty(mir.op_place(a)["l"]))]
            if not pos or not pidx:
                continue
            pr = b.role_of_operand(c.args[pidx[0]])
            if not role_mentions_param(pr, P):
                continue
            flipped = role_mentions_call(pr, "prove_symmetry")
            first = min(pos.items(), key=lambda kv: kv[1])[0]      # which operand comes first in the call
            n += 1
            want_flip = first == "B"
            ctx.check(flipped == want_flip, "proof-orientation:%s:%s-first" % (c.callee.name, first),
                      "%s(%s first) gets the proof %s" % (c.callee.name, A if first == "A" else B, "flipped with prove_symmetry" if want_flip else "as it is"),
                      "%s calls %s with `%s` as the first operand but hands it the proof %s: the callee expects a proof whose left side is its first operand (%s = ..), so the explanation it records proves the converse equation" % (
                          C.short(lid), c.callee.name, A if first == "A" else B, "flipped" if flipped else "unflipped", A if first == "A" else B), where_of(b, c.bb))
    ctx.floor("calls of the leader union that pass an operand and the proof on", n, 4)


RULES.append(k7)


@rule("K8", cfgs="explanations", doc="the key under which the proof registry de-duplicates equations is an injective renaming: every slot is numbered by the size of the map being filled")
def k8(ctx):
    crate = ctx.lib()
    n = 0
    for b in crate.fns():
        if "/explain/" not in (b.file or "") or b.auto_derived:
            continue
        for sub in b.all_bodies():
            for c in sub.calls:
                if sub.blocks[c.bb]["cleanup"] or not (c.callee and c.callee.name == "insert" and "SlotMap" in (c.callee.impl_self or "") and len(c.args) == 3):
                    continue
                m0 = strip_role(sub.role_of_operand(c.args[0]))
                sv = strip_role(sub.role_of_operand(c.args[2]))
                if not (isinstance(m0, tuple) and m0[0] == "call" and m0[1] in ("new", "default")):
                    continue
                if not (isinstance(sv, tuple) and sv[0] == "call" and sv[1] in ("numeric", "named")):
                    continue
                n += 1
                lens = [x for x in role_walk(sv) if isinstance(x, tuple) and x[0] == "call" and x[1] == "len"]
                own_len = sv[1] == "numeric" and bool(lens) and all(x[3] and strip_role(x[3][0]) == m0 for x in lens) and not any(isinstance(x, tuple) and x[0] in ("phi", "bin") for x in role_walk(sv))
                ctx.check(own_len, "key-renaming-injective:" + C.fkey(b), "%s numbers each slot by the current size of the renaming it is building" % C.short(b.id),
                          "%s numbers a slot with %s instead of the size of the renaming it is building: two different slots can get the same number, so different equations share one registry key and the registry hands out the stored proof of the one for the other (which equations collide depends on how the slot names sort)" % (C.short(b.id), role_str(sv)[:60]),
                          where_of(sub, c.bb))
    ctx.floor("slot numberings in the explanation code", n, 1)
    # a key renaming numbers EVERY slot of the equation once: each loop over a side's slots contains a numbering insert that lies
    # on every path through an iteration except the one on which the slot is already numbered (`contains_key` == true), and an
    # insert that comes after another loop filled the same map IS behind that test (re-numbering a slot that has a number does not
    # grow the map: the next new slot then shares its number with the previous one)
    for b in crate.fns():
        if "/explain/" not in (b.file or "") or b.auto_derived:
            continue
        sites = []
        for c in b.calls:
            if b.blocks[c.bb]["cleanup"] or not (c.callee and c.callee.name == "insert" and "SlotMap" in (c.callee.impl_self or "") and len(c.args) == 3):
                continue
            m0 = strip_role(b.role_of_operand(c.args[0]))
            sv = strip_role(b.role_of_operand(c.args[2]))
            if isinstance(m0, tuple) and m0[0] == "call" and m0[1] in ("new", "default") and isinstance(sv, tuple) and sv[0] == "call" and sv[1] == "numeric":
                sites.append((c, m0))
        if not sites:
            continue
        loops = [lp for lp in C.iterator_loops(b) if role_mentions_call(lp[1], "slots")]
        for k, lp in enumerate(loops):
            sb_, it, none_e, some_e, cs_ = lp
            body = b.reach(some_e, avoid=none_e)
            here = [(c, m0) for c, m0 in sites if c.bb in body]
            present_e = []
            for sb in b.switch_blocks():
                if sb not in body:
                    continue
                r = strip_role(b.role_of_operand(b.blocks[sb]["term"]["discr"]))
                neg = False
                if isinstance(r, tuple) and r[0] == "un" and r[1] == "Not":
                    r, neg = strip_role(r[2]), True
                if isinstance(r, tuple) and r[0] == "call" and r[1] == "contains_key" and here and strip_role(r[3][0]) == here[0][1]:
                    t = b.blocks[sb]["term"]
                    true_e = [("e", sb, "otherwise")] if any(v == "0" for v, _ in t["cases"]) else [("e", sb, "1")]
                    false_e = [("e", sb, "0")]
                    present_e += (false_e if neg else true_e)
            ok = bool(here) and b.must_pass(some_e, [sb_], {c.bb for c, _ in here} | set(present_e)) and C.loop_exhaustive(b, lp)
            ctx.check(ok, "every-slot-numbered:%s:%d" % (C.fkey(b), k), "every slot the loop over %s visits gets a number unless it has one" % role_str(it)[:40],
                      "%s: an iteration of the loop over %s can go on without numbering the slot (and without having found it numbered): the key renaming does not cover every slot of the equation — applying it fails, or two equations that differ in that slot share a registry key" % (C.short(b.id), role_str(it)[:40]), where_of(b, sb_))
            earlier = any(c2.bb not in body and b.dominated_by(sb_, [c2.bb]) or (c2.bb not in body and sb_ in b.reach(b.after(c2.bb))) for c2, m2 in sites if here and m2 == here[0][1])
            if here and earlier:
                guarded = all(any(cond[0] == "false" and isinstance(strip_role(cond[1]), tuple) and strip_role(cond[1])[0] == "call" and strip_role(cond[1])[1] == "contains_key" for e_, cond in C.conditions_at(b, c.bb)) for c, _ in here)
                ctx.check(guarded, "renumbering-guarded:%s:%d" % (C.fkey(b), k), "a slot that an earlier loop may have numbered is numbered only if it has no number yet",
                          "%s numbers the slots of the second side without asking whether the first loop already numbered them: overwriting an entry does not grow the map, so the next new slot gets the number of the previous one — the renaming is not injective and different equations share a registry key" % C.short(b.id), where_of(b, here[0][0].bb))
    from . import c03
    c03.h10(ctx)


RULES.append(k8)


@rule("MC", doc="must-call census: no function of this property's files has gained an early exit in front of work it always did (every crate-local call that lay on all paths to a normal return in the reviewed tree still does)")
def mc(ctx):
    C.must_call_census(ctx, ctx.lib(), ['src/explain/mod.rs', 'src/explain/proof.rs', 'src/explain/front.rs', 'src/explain/registry.rs', 'src/explain/wrapper/perm.rs', 'src/explain/wrapper/applied_id.rs', 'src/explain/wrapper/node.rs', 'src/explain/wrapper/contains.rs', 'src/egraph/union.rs', 'src/egraph/rebuild.rs', 'src/egraph/find.rs'])


RULES.append(mc)


@rule("K9", cfgs=EXPL, doc="an explanation is assembled from handles canonicalised AFTER the last change to the e-graph: no insertion (add_syn_expr ..) can run between a find and the use of its result")
def k9(ctx):
    crate = ctx.lib()
    n = 0
    for b in crate.fns():
        if not (b.file or "").endswith("explain/mod.rs") or b.argc < 1 or not b.local_ty(1).startswith("&mut egraph::EGraph<"):
            continue
        finds = [c for c in b.calls if c.callee and c.callee.name in ("proven_find_applied_id", "find_applied_id", "proven_proven_find_applied_id", "proven_unionfind_get", "unionfind_get", "find_id") and not b.blocks[c.bb]["cleanup"]]
        muts = [c for c in b.calls if c.callee and c.callee.target in crate.bodies and not b.blocks[c.bb]["cleanup"]
                and crate.bodies[c.callee.target].argc >= 1 and crate.bodies[c.callee.target].local_ty(1).startswith("&mut egraph::EGraph<")]
        if not finds or not muts:
            continue
        n += 1
        for f in finds:
            later = [m for m in muts if m.bb in b.reach(b.after(f.bb))]
            ctx.check(not later, "no-mutation-after-find:%s:%s" % (C.fkey(b), f.callee.name), "in %s nothing changes the e-graph after %s" % (C.short(b.id), f.callee.name),
                      "%s canonicalises a handle (%s) and then calls %s, which can change the e-graph (a term that is only present semantically gets a syntactic class and is merged by congruence — the old leader can die): the canonical handle is stale when the proof is assembled and the call panics for an equality that holds" % (C.short(b.id), f.callee.name, ", ".join(sorted({m.callee.name for m in later}))),
                      where_of(b, f.bb))
    ctx.floor("explanation entry points that insert and canonicalise", n, 1)


RULES.append(k9)


def _peel(r):
    """role with clones / borrows / derefs removed; returns (core role, number of prove_symmetry applications)"""
    flips = 0
    r = strip_role(r)
    for _ in range(12):
        if isinstance(r, tuple) and r[0] == "call" and r[3]:
            if r[1] in ("clone", "deref", "borrow", "as_ref", "to_owned"):
                r = strip_role(r[3][0])
                continue
            if r[1] == "prove_symmetry":
                flips += 1
                r = strip_role(r[3][-1])
                continue
        break
    return r, flips


def _component(crate, b, r):
    """(base call role, position) when r is a component of the value a crate function returns: `.k` of a tuple, or a named field of
    a private result struct (position = declaration order)"""
    if not (isinstance(r, tuple) and r[0] == "field"):
        return None
    base = strip_role(r[1])
    if not (isinstance(base, tuple) and base[0] == "call"):
        return None
    if str(r[2]).isdigit():
        return base, int(r[2])
    for cb_ in b.all_bodies():
        cs_ = cb_.call_at.get(base[4])
        if cs_ is not None and cs_.callee and cs_.callee.target in crate.bodies:
            adt_ = crate.adt_named(crate.bodies[cs_.callee.target].local_ty(0).split("<")[0])
            if adt_ is not None:
                names_ = [f["name"] for f in adt_["variants"][0]["fields"]]
                if r[2] in names_:
                    return base, names_.index(r[2])
    return None


@rule("K10", cfgs=EXPL, doc="a proof produced on the spot is handed on together with the operands it is about, in its own orientation: (a, b, proof) of a congruence step goes to union / shrink as (a, b) — shrink gets a —, the proof stored with a group element p goes with (identity invocation, p-renamed invocation); swapped operands need prove_symmetry")
def k10(ctx):
    crate = ctx.lib()
    n = 0
    for b0 in crate.fns():
        if not (b0.file or "").startswith("src/egraph/") or (b0.file or "").endswith("/check.rs"):
            continue
        for b in b0.all_bodies():
            for c in b.calls:
                if b.blocks[c.bb]["cleanup"] or not c.callee or c.callee.target not in crate.bodies:
                    continue
                tb = crate.bodies[c.callee.target]
                if tb.argc != len(c.args):
                    continue
                ids = [i for i in range(len(c.args)) if tb.local_ty(i + 1).lstrip("&").strip() == "types::AppliedId"]
                prf = [i for i in range(len(c.args)) if "ProvenEq" in tb.local_ty(i + 1)]
                if len(prf) != 1 or not ids or len(ids) > 2:
                    continue
                pr, flips = _peel(b.role_of_operand(c.args[prf[0]]))
                idr = [_peel(b.role_of_operand(c.args[i]))[0] for i in ids]
                comp = _component(crate, b, pr)
                where = where_of(b, c.bb)
                key = "%s:%s" % (C.fkey(b0), c.callee.name)
                if comp is not None and comp[1] == 2 and comp[0][1] == "pc_congruence":
                    # (a, b, proof) = pc_congruence(..): proof proves a = b
                    got = []
                    for r in idr:
                        cc = _component(crate, b, r)
                        got.append(cc[1] if cc is not None and cc[0] == comp[0] else None)
                    if any(g is None for g in got):
                        continue
                    n += 1
                    want = ([0, 1] if flips % 2 == 0 else [1, 0])[:len(got)]
                    ctx.check(got == want, "local-proof-orientation:" + key, "%s hands %s the congruence proof with the operand(s) it is about, in order" % (C.short(b0.id), c.callee.name),
                              "%s calls %s with component(s) %s of the congruence result and the %sproof of (component 0 = component 1): the callee takes its first invocation as the proof's left side, so the explanation it records is about the other invocation (same class, different slot names) — proofs built on it do not check" % (
                                  C.short(b0.id), c.callee.name, got, "flipped " if flips % 2 else ""), where)
                elif isinstance(pr, tuple) and pr[0] == "call" and pr[1] == "prove_explicit" and len(pr[3]) >= 3 and len(idr) == 2:
                    # proof = prove_explicit(l', r', justification) proves l' = r' where l' / r' are made from the operands
                    lr = [strip_role(x) for x in pr[3][-3:-1]]
                    def made_from(r):
                        hits = [k for k in (0, 1) if any(strip_role(x) == r for x in role_walk(lr[k]) if isinstance(x, tuple))]
                        return hits[0] if len(hits) == 1 else None
                    got = [made_from(r) for r in idr]
                    if None in got:
                        continue
                    n += 1
                    want = [0, 1] if flips % 2 == 0 else [1, 0]
                    ctx.check(got == want, "local-proof-orientation:" + key, "%s hands %s the two instantiated sides in the order the leaf proof states them" % (C.short(b0.id), c.callee.name),
                              "%s builds the leaf proof for (first side = second side) and calls %s with the operands in the other order (%s): the union records the user's equation as a proof of its converse" % (C.short(b0.id), c.callee.name, got), where)
                elif isinstance(pr, tuple) and pr[0] == "field" and pr[2] == "proof" and len(idr) == 2:
                    # the proof stored with a group element p proves  class[identity] = class[p]
                    pv = strip_role(pr[1])
                    def about(r):
                        if any(isinstance(x, tuple) and x[0] == "call" and x[1] in ("mk_sem_identity_applied_id", "mk_identity_applied_id", "identity") for x in role_walk(r)) and not any(strip_role(x) == pv for x in role_walk(r) if isinstance(x, tuple)):
                            return "identity"
                        if any(strip_role(x) == pv for x in role_walk(r) if isinstance(x, tuple)):
                            return "element"
                        return None
                    got = [about(r) for r in idr]
                    if None in got:
                        continue
                    n += 1
                    want = ["identity", "element"] if flips % 2 == 0 else ["element", "identity"]
                    ctx.check(got == want, "local-proof-orientation:" + key, "%s re-asserts a group element as (identity invocation, renamed invocation) with the element's own proof" % C.short(b0.id),
                              "%s calls %s with the operands (%s) and the %sproof stored with the group element, which proves class[identity] = class[element]: operands and proof are oriented differently, the recorded explanation proves the converse equation" % (
                                  C.short(b0.id), c.callee.name, ", ".join(got), "flipped " if flips % 2 else ""), where)
    ctx.floor("call sites that pass a locally produced proof with its operands", n, 2)


RULES.append(k10)


# ---------------------------------------------------------------------------- K11: the proof front end (explain/front.rs)
def _nrm(b, r, depth=0):
    """role as a string with parameters named by position (p1, p2 ..), transparent calls (clone / deref / borrow) removed and the
    proof registry abbreviated: insensitive to temporaries, clones and parameter names"""
    r = strip_role(r)
    if not isinstance(r, tuple) or depth > 10:
        return "?"
    k = r[0]
    if k == "param":
        i = b.param_index(r[1])
        if i is not None and "ProofRegistry" in b.local_ty(i):
            return "reg"
        if r[1] == "self":
            return "self"
        return "p%s" % i if i is not None else r[1]
    if k == "field":
        if r[2] == "proof_registry":
            return "reg"
        return "%s.%s" % (_nrm(b, r[1], depth + 1), r[2])
    if k == "call":
        if r[1] in ("clone", "deref", "borrow", "as_ref", "to_owned", "into", "equ") and r[3]:
            return _nrm(b, r[3][0], depth + 1)
        return "%s(%s)" % (r[1], ", ".join(_nrm(b, a, depth + 1) for a in r[3]))
    if k == "agg":
        return "%s{%s}" % (str(r[1]).split("::")[-1], ", ".join(_nrm(b, a, depth + 1) for a in r[2]))
    if k == "phi":
        return "phi[%s]" % "|".join(sorted({_nrm(b, a, depth + 1) for a in r[1]}))
    if k == "const":
        return "const"
    if k == "index":
        return "%s[]" % _nrm(b, r[1], depth + 1)
    if k == "variant":
        return _nrm(b, r[1], depth + 1)
    return k


def _aggs(b, adt_suffix):
    out = []
    for bi, si, s in b.statements():
        rv = s["rv"] if s["k"] == "assign" else None
        if rv and rv["k"] == "agg" and str(rv.get("adt", "")).endswith(adt_suffix) and not b.blocks[bi]["cleanup"]:
            f = rv.get("fields") or [str(i) for i in range(len(rv["ops"]))]
            out.append((bi, {n: _nrm(b, b.role_of_operand(rv["ops"][i])) for i, n in enumerate(f)}))
    return out


@rule("K11", cfgs=EXPL, doc="the proof front end builds each step for the equation it is about: symmetry of x proves x.r = x.l; transitivity of (x, y) proves x.l = y.r renamed by match(y.l, x.r); the redundancy proof of a class is find-proof ; symmetry(find-proof); dis-association chains the redundancy proof of the LEFT class in front and of the RIGHT class behind; the necessity test compares each side's slots with its own class; the e-graph level wrappers dis-associate what the kernel returned")
def k11(ctx):
    crate = ctx.lib()
    FR = "explain/front.rs"

    def free(name):
        bs = [b for b in crate.by_name.get(name, []) if b.kind == "Fn" and (b.file or "").endswith(FR)]
        if len(bs) != 1:
            bs = [b for b in crate.by_name.get(name, []) if b.kind != "Closure" and not (b.impl_self or "") and "explain" in (b.file or "")]
        if len(bs) != 1:
            raise mir.AnchorMissing("free function explain::front::" + name)
        return bs[0]

    def meth(name):
        bs = [b for b in crate.by_name.get(name, []) if b.kind != "Closure" and "egraph::EGraph" in (b.impl_self or "") and "explain" in (b.file or "")]
        if len(bs) != 1:
            raise mir.AnchorMissing("EGraph::" + name + " (explanations front end)")
        return bs[0]

    def one_agg(b, suffix):
        a = _aggs(b, suffix)
        if len(a) != 1:
            raise mir.AnchorMissing("the %s built in %s" % (suffix, b.id), "found %d" % len(a))
        return a[0]

    # -- the four kernel entry helpers
    b = mir.inline_view(crate, free("prove_symmetry"), keep=("check",))       # (an `Equation::flipped()` helper is looked through)
    bi, eq = one_agg(b, "proof::Equation")
    ctx.check((eq["l"], eq["r"]) == ("p1.r", "p1.l"), "symmetry-equation", "prove_symmetry(x) asks the kernel for x.r = x.l",
              "prove_symmetry(x) asks the kernel for %s = %s instead of x.r = x.l" % (eq["l"], eq["r"]), where_of(b, bi))
    b = free("prove_reflexivity")
    bi, eq = one_agg(b, "proof::Equation")
    ctx.check((eq["l"], eq["r"]) == ("p1", "p1"), "reflexivity-equation", "prove_reflexivity(i) asks for i = i", "prove_reflexivity(i) asks for %s = %s" % (eq["l"], eq["r"]), where_of(b, bi))
    b = free("prove_explicit")
    bi, eq = one_agg(b, "proof::Equation")
    ctx.check((eq["l"], eq["r"]) == ("p1", "p2"), "explicit-equation", "prove_explicit(l, r, j) asks for l = r", "prove_explicit(l, r, j) asks for %s = %s" % (eq["l"], eq["r"]), where_of(b, bi))
    b = free("prove_transitivity")
    bi, eq = one_agg(b, "proof::Equation")
    want = ("p1.l", "apply_slotmap_fresh(p2.r, match_app_id(p2.l, p1.r))")
    ctx.check((eq["l"], eq["r"]) == want, "transitivity-equation", "prove_transitivity(x, y) asks for x.l = y.r renamed by match_app_id(y.l, x.r)",
              "prove_transitivity(x, y) asks the kernel for %s = %s; it must be x.l = y.r.apply_slotmap_fresh(match_app_id(y.l, x.r)): the renaming that carries y's names into x's is found by matching y's LEFT side against x's RIGHT side" % (eq["l"], eq["r"]), where_of(b, bi))
    bi, tp = one_agg(b, "proof::TransitivityProof")
    ctx.check([tp[k] for k in sorted(tp)] == ["p1", "p2"], "transitivity-premises", "the premises are (x, y) in order", "prove_transitivity(x, y) hands the kernel the premises %s" % [tp[k] for k in sorted(tp)], where_of(b, bi))

    # -- redundancy proof of a class: syn-identity -> leader -> syn-identity
    b = meth("get_redundancy_proof")
    ret = _nrm(b, b.role_of_local(0))
    A = "proven_find_applied_id(self, mk_syn_identity_applied_id(self, p2)).proof"
    ctx.check(ret == "prove_transitivity(%s, prove_symmetry(%s, reg), reg)" % (A, A), "redundancy-proof", "get_redundancy_proof(i) = transitivity(find-proof(i), symmetry(find-proof(i)))",
              "get_redundancy_proof(i) returns %s; it must chain the find-proof of the class's syntactic identity invocation with ITS OWN reversal, in that order (identity -> leader -> identity): the other order proves leader = leader, which says nothing about the redundant slots" % ret[:200], where_of(b))

    # -- dis-association
    b = meth("disassociate_proven_eq")
    n_t = 0
    for c in b.calls:
        if not c.callee or c.callee.name != "prove_transitivity" or b.blocks[c.bb]["cleanup"]:
            continue
        args = [strip_role(b.role_of_operand(a)) for a in c.args]
        reds = [(i, a) for i, a in enumerate(args[:2]) if isinstance(a, tuple) and a[0] == "call" and a[1] == "get_redundancy_proof"]
        if len(reds) != 1:
            continue
        n_t += 1
        i, a = reds[0]
        idr = _nrm(b, a[3][-1])
        side = "l" if idr.endswith(".l.id") else "r" if idr.endswith(".r.id") else "?"
        ok = (i, side) in ((0, "l"), (1, "r"))
        ctx.check(ok, "disassociate-side:%d" % i, "the redundancy proof chained %s the equation is that of its %s class" % ("in front of" if i == 0 else "behind", "left" if i == 0 else "right"),
                  "disassociate_proven_eq chains the redundancy proof of the equation's %s class %s the equation: in front goes the LEFT class's, behind goes the RIGHT class's — the kernel's transitivity check fails whenever the two sides are different classes with redundant slots" % ({"l": "left", "r": "right"}.get(side, idr), "in front of" if i == 0 else "behind"), where_of(b, c.bb))
    ctx.floor("redundancy proofs chained in disassociate_proven_eq", n_t, 2)
    ctx.check(any(c.callee and c.callee.name == "disassociation_necessary" for c in b.calls), "disassociate-guarded", "dis-association is decided by disassociation_necessary", "disassociate_proven_eq no longer consults disassociation_necessary", where_of(b))

    b = meth("disassociation_necessary")
    n_c = 0
    sides = set()
    for c in b.all_calls():
        if not c.callee or c.callee.name != "contains" or c.body.blocks[c.bb]["cleanup"] or len(c.args) < 2:
            continue
        s0 = _nrm(c.body, c.body.role_of_operand(c.args[0]))
        s1 = _nrm(c.body, c.body.role_of_operand(c.args[1]))
        m0 = re.match(r"slots\(self, (.*)\.([lr])\.id\)$", s0)
        m1 = re.search(r"inverse\((.*?)\.([lr])\.m\)", s1)
        if not m0 or not m1:
            continue
        n_c += 1
        sides.add(m0.group(2))
        ctx.check(m0.group(2) == m1.group(2), "necessity-own-class:" + m0.group(2), "a shared slot is traced back through %s.m and looked up among the slots of %s's class" % (m0.group(2), m0.group(2)),
                  "disassociation_necessary traces a shared slot back through the %s side's map but looks it up among the slots of the %s side's class: the test answers for the wrong class, so a proof that still associates redundant slots is passed on (the kernel rejects a later step) or every proof is needlessly re-chained" % (m1.group(2), m0.group(2)), where_of(c.body, c.bb))
    ctx.floor("slot look-ups in disassociation_necessary", n_c, 2)
    trues = {d["bb"] for d in b.defs().get(0, []) if d["kind"] == "assign" and C.const_bool(d["rv"]) is True}
    for c in b.all_calls():
        if c.body is not b or not c.callee or c.callee.name != "contains" or b.blocks[c.bb]["cleanup"]:
            continue
        for sb in b.switch_blocks():
            t_ = b.blocks[sb]["term"]
            pl_ = mir.op_place(t_["discr"])
            if pl_ is not None and not pl_["p"] and pl_["l"] == c.dest["l"]:
                miss_e = [("e", sb, v) for v, _ in t_["cases"] if v == "0"]
                sd_ = re.search(r"\.([lr])\.id\)", _nrm(b, b.role_of_operand(c.args[0])))
                ctx.check(bool(trues) and bool(miss_e) and b.must_pass(miss_e, b.return_blocks(), trues), "necessity-missing-means-true:%s" % (sd_.group(1) if sd_ else "?"), "a shared slot that is not a slot of its class makes dis-association necessary",
                          "disassociation_necessary can find a shared slot missing from its class and still not answer true: a proof that associates redundant slots of the two sides is then passed on as it is, and a later kernel step rejects it", where_of(b, sb))
    ctx.check(sides == {"l", "r"}, "necessity-both-sides", "both sides of the equation are examined", "disassociation_necessary examines only the %s side" % sorted(sides), where_of(b))
    its = [l for l in C.iterator_loops(b)]
    shared = [l for l in its if "bitand(slots(" in _nrm(b, l[1]) and ".l)" in _nrm(b, l[1]) and ".r)" in _nrm(b, l[1])]
    ctx.check(bool(shared) or not its, "necessity-over-shared-slots", "the test ranges over the slots both sides mention", "disassociation_necessary no longer ranges over slots(l) & slots(r): %s" % [_nrm(b, l[1])[:80] for l in its], where_of(b))
    # true is returned exactly when a look-up fails
    for d in b.defs().get(0, []):
        if d["kind"] == "assign" and C.const_bool(d["rv"]) is True:
            conds = [cnd for e, cnd in C.conditions_at(b, d["bb"]) if cnd[0] == "false" and isinstance(strip_role(cnd[1]), tuple) and strip_role(cnd[1])[0] == "call" and strip_role(cnd[1])[1] == "contains"]
            ctx.check(bool(conds), "necessity-true-on-missing", "`true` is answered when a shared slot is not a slot of its class", "disassociation_necessary answers true on a path on which no slot was found missing", where_of(b, d["bb"]))

    # -- e-graph level wrappers
    for name in ("prove_explicit", "prove_reflexivity", "prove_symmetry", "prove_transitivity"):
        b = meth(name)
        b = crate.bodies.get(b.id, b)          # (the raw body: the free helper of the same name stays a call)
        ret = _nrm(b, b.role_of_local(0))
        ok = ret.startswith("disassociate_proven_eq(self, %s(" % name) and ret.endswith(", reg))")
        if not ok and ret.startswith("disassociate_proven_eq(self, check("):
            ctx.ok("wrapper-disassociates:" + name, "EGraph::%s dis-associates the kernel's result (helper folded in)" % name, where_of(b))
            continue
        ctx.check(ok, "wrapper-disassociates:" + name, "EGraph::%s = disassociate_proven_eq(%s(..))" % (name, name),
                  "EGraph::%s returns %s: every proof that enters the e-graph must be maximally dis-associated (redundant slots of the two sides not identified), the other front-end functions assume it" % (name, ret[:120]), where_of(b))
        # arguments in order
        inner = ret[len("disassociate_proven_eq(self, %s(" % name):-len(", reg))")] if ok else ""
        if ok:
            want_args = ", ".join("p%d" % i for i in range(2, b.argc + 1))
            ctx.check(inner == want_args, "wrapper-args:" + name, "the wrapper passes its arguments on in order", "EGraph::%s passes (%s) on to the kernel helper instead of (%s)" % (name, inner, want_args), where_of(b))
RULES.append(k11)


# ---------------------------------------------------------------------------- K12: what each kernel checks before it signs
def _elem_source(r, depth=0):
    """the collection an element role is drawn from: through next()/into_iter()/cloned(), index(), and positions of zip()"""
    r = strip_role(r)
    if not isinstance(r, tuple) or depth > 12:
        return r
    if r[0] == "variant":
        return _elem_source(r[1], depth + 1)
    if r[0] == "call" and r[1] in ("next", "into_iter", "iter", "cloned", "copied", "index", "get", "unwrap", "enumerate") and r[3]:
        return _elem_source(r[3][0], depth + 1)
    if r[0] == "field":
        inner = strip_role(r[1])
        if isinstance(inner, tuple) and inner[0] == "variant":
            return _elem_source(inner[1], depth + 1)          # (the payload of Some(..): not a position of a zip)
        src = _elem_source(r[1], depth + 1)
        if isinstance(src, tuple) and src[0] == "call" and src[1] == "zip" and len(src[3]) == 2 and r[2] in ("0", "1"):
            return _elem_source(src[3][int(r[2])], depth + 1)
        return ("field", src, r[2])
    return r


@rule("K12", cfgs=EXPL, doc="each kernel signs an equation only after comparing it with its premises the right way round: symmetry against (x.r, x.l); transitivity by the three equalities renamed(x).l = goal.l, renamed(y).r = goal.r, renamed(x).r = renamed(y).l; congruence child by child against (left node's i-th child, right node's i-th child); a match of invocations is inverse(a.m) ; b.m, a match of equations unions the left and the right match")
def k12(ctx):
    crate = ctx.lib()

    def kernel(name):
        bs = [b for b in crate.by_name.get("check", []) if (b.impl_self or "").endswith("proof::" + name)]
        if len(bs) != 1:
            raise mir.AnchorMissing(name + "::check")
        return bs[0]

    def asserted(b, c):
        """the comparison at call site c is an assertion: its false edge cannot reach a normal return"""
        for sb in b.switch_blocks():
            t = b.blocks[sb]["term"]
            pl = mir.op_place(t["discr"])
            if pl is not None and not pl["p"] and pl["l"] == c.dest["l"]:
                false_e = [("e", sb, v) for v, _ in t["cases"] if v == "0"]
                return bool(false_e) and not b.returns_reachable_from(false_e)
        return False

    # symmetry
    b = mir.inline_view(crate, kernel("SymmetryProof"), keep=("assert_match_equation", "insert"))
    eqs = _aggs(b, "proof::Equation")
    okf = any((f.get("l"), f.get("r")) == ("self.0.r", "self.0.l") for _, f in eqs)
    ctx.check(okf, "symmetry-premise-flipped", "SymmetryProof::check compares the goal with (x.r, x.l)",
              "SymmetryProof::check compares the goal with %s: the kernel must accept exactly the premise with its sides exchanged — compared with the premise as it is, `x.l = x.r` passes as its own symmetry and a proof of a = b is signed as a proof of b = a" % [(f.get("l"), f.get("r")) for _, f in eqs], where_of(b))
    ms = [c for c in b.calls if c.callee and c.callee.name == "assert_match_equation" and not b.blocks[c.bb]["cleanup"]]
    okm = any(_nrm(b, b.role_of_operand(c.args[0])) == "p2" and _nrm(b, b.role_of_operand(c.args[1])).startswith("Equation{self.0.r, self.0.l}") for c in ms)
    ctx.check(okm, "symmetry-premise-matched", "the goal is matched against the flipped premise", "SymmetryProof::check does not match the goal against the flipped premise: %s" % [(_nrm(b, b.role_of_operand(c.args[0])), _nrm(b, b.role_of_operand(c.args[1]))[:60]) for c in ms], where_of(b))

    # reflexivity
    b = kernel("ReflexivityProof")
    cs = [c for c in b.calls if c.callee and c.callee.name in ("eq", "ne") and len(c.args) == 2 and not b.blocks[c.bb]["cleanup"]]
    okr = any({_nrm(b, b.role_of_operand(c.args[0])), _nrm(b, b.role_of_operand(c.args[1]))} == {"p2.l", "p2.r"} and asserted(b, c) for c in cs)
    ctx.check(okr, "reflexivity-sides-equal", "ReflexivityProof::check asserts goal.l == goal.r", "ReflexivityProof::check signs without asserting that the two sides of the goal are the same invocation", where_of(b))

    # transitivity
    b = kernel("TransitivityProof")
    def cls(s):
        m = re.match(r"apply_slotmap\(self\.([01]), .*\)\.([lr])$", s)
        if m:
            return "R%s.%s" % (m.group(1), m.group(2))
        m = re.match(r"p2\.([lr])$", s)
        if m:
            return "G." + m.group(1)
        return None
    got = set()
    for c in b.calls:
        if c.callee and c.callee.name in ("eq", "ne") and len(c.args) == 2 and not b.blocks[c.bb]["cleanup"] and "AppliedId" in (c.callee.target or ""):
            a0, a1 = cls(_nrm(b, b.role_of_operand(c.args[0]))), cls(_nrm(b, b.role_of_operand(c.args[1])))
            if a0 and a1 and asserted(b, c):
                got.add(frozenset((a0, a1)))
    want = {frozenset(("R0.l", "G.l")): "renamed(x).l == goal.l", frozenset(("R1.r", "G.r")): "renamed(y).r == goal.r", frozenset(("R0.r", "R1.l")): "renamed(x).r == renamed(y).l"}
    for w, txt in want.items():
        ctx.check(w in got, "transitivity-asserts:" + "=".join(sorted(w)), "TransitivityProof::check asserts " + txt,
                  "TransitivityProof::check signs without asserting %s (asserted: %s): a chain x ; y whose middle terms differ, or whose ends are not the goal's, is accepted as a proof of the goal" % (txt, sorted("=".join(sorted(g)) for g in got)), where_of(b))

    # ... and how the two renamings are found (a kernel that cannot find them panics on a valid chain: the explanation call
    # then aborts for an equality that holds): theta1 starts from x.l -> goal.l, theta2 from y.r -> goal.r, each is completed
    # through the middle terms by the other (x.r^-1 ; y.l ; theta2  and  y.l^-1 ; x.r ; theta1), slots of a premise that remain
    # unnamed get fresh names, and theta2 is completed once more after theta1 was filled
    b = mir.inline_view(crate, b, keep=("compose_partial", "try_union", "apply_slotmap", "slots"))       # (a `fill missing with fresh` helper is looked through)
    inits = [(_nrm(b, b.role_of_operand(c.args[0])), _nrm(b, b.role_of_operand(c.args[1]))) for c in b.calls if c.callee and c.callee.name == "compose_partial" and not b.blocks[c.bb]["cleanup"]]
    ctx.check(("inverse(self.0.l.m)", "p2.l.m") in inits and ("inverse(self.1.r.m)", "p2.r.m") in inits, "transitivity-renaming-seeds", "theta1 = x.l.m^-1 ; goal.l.m and theta2 = y.r.m^-1 ; goal.r.m (partial compositions)",
              "TransitivityProof::check seeds its two renamings with %s: they must be compose_partial(inverse(x.l.m), goal.l.m) and compose_partial(inverse(y.r.m), goal.r.m) — partial, because a premise may mention slots the goal does not" % inits, where_of(b))
    chains = []
    for cl in [b] + list(b.closures):
        for c in cl.calls:
            if c.callee and c.callee.name == "try_union" and not cl.blocks[c.bb]["cleanup"]:
                chains.append(role_str(strip_role(cl.role_of_operand(c.args[1])), 12))
    def chain_ok(a, bside):
        return any(re.search(r"compose_partial\(compose_partial\(inverse\(.*%s\.m\), .*%s\.m\), " % (a, bside), ch) for ch in chains)
    ctx.check(chain_ok("0\\)*\\.r", "1\\)*\\.l") and chain_ok("1\\)*\\.l", "0\\)*\\.r"), "transitivity-renaming-completion", "each renaming is completed through the middle terms: x.r^-1 ; y.l ; theta2 and y.l^-1 ; x.r ; theta1",
              "TransitivityProof::check completes its renamings with %s: theta1 gets x.r.m^-1 ; y.l.m ; theta2 and theta2 gets y.l.m^-1 ; x.r.m ; theta1 (partial compositions, unioned into what is known)" % [c_[:90] for c_ in chains], where_of(b))
    recs = [c for c in b.calls if c.callee and c.callee.name in ("call", "call_mut", "call_once") and not b.blocks[c.bb]["cleanup"]]
    fills = [l for l in C.iterator_loops(b) if "slots(self." in _nrm(b, l[1])]
    okf = len(fills) == 2 and all(C.loop_exhaustive(b, l) for l in fills)
    for l in fills:
        body_ = b.reach(l[3], avoid=l[2])
        ins_ = [c for c in b.calls if c.bb in body_ and c.callee and c.callee.name == "insert" and not b.blocks[c.bb]["cleanup"] and _nrm(b, b.role_of_operand(c.args[2])) == "fresh()"]
        present = []
        for sb in b.switch_blocks():
            if sb in body_:
                r_ = strip_role(b.role_of_operand(b.blocks[sb]["term"]["discr"]))
                if isinstance(r_, tuple) and r_[0] == "call" and r_[1] == "contains_key":
                    t_ = b.blocks[sb]["term"]
                    present += [("e", sb, "otherwise")] if any(v == "0" for v, _ in t_["cases"]) else [("e", sb, "1")]
        okf = okf and bool(ins_) and b.must_pass(l[3], [l[0]], {c.bb for c in ins_} | set(present))
    ctx.check(okf, "transitivity-renaming-filled", "every slot of either premise that the renamings leave unnamed gets a fresh name", "TransitivityProof::check no longer gives every unnamed slot of both premises a fresh name (an iteration can pass without naming the slot): applying the renaming then fails on a valid chain", where_of(b))
    if len(fills) == 2 and recs:
        first_fill = min(l[0] for l in fills)
        second_fill = max(l[0] for l in fills)
        between = [c for c in recs if c.bb in b.reach([x for l in fills if l[0] == first_fill for x in l[2]]) and second_fill in b.reach(b.after(c.bb))]
        ctx.check(bool(between), "transitivity-renaming-recompleted", "theta2 is completed again after theta1 was filled with fresh names", "TransitivityProof::check does not complete theta2 again after theta1 got its fresh names: the middle terms then disagree on exactly those slots and a valid chain is rejected", where_of(b))
    # congruence
    b = kernel("CongruenceProof")
    eqs = []
    for bi, si, s in b.statements():
        rv = s["rv"] if s["k"] == "assign" else None
        if rv and rv["k"] == "agg" and str(rv.get("adt", "")).endswith("proof::Equation") and not b.blocks[bi]["cleanup"]:
            f = rv["fields"]
            eqs.append((bi, _elem_source(b.role_of_operand(rv["ops"][f.index("l")])), _elem_source(b.role_of_operand(rv["ops"][f.index("r")]))))
    def side_of(r):
        ms_ = {m.group(1) for m in re.finditer(r"p2\.([lr])\b", _nrm(b, r))}
        return ms_.pop() if len(ms_) == 1 else None
    okc = bool(eqs) and all(side_of(l) == "l" and side_of(r) == "r" for _, l, r in eqs)
    ctx.check(okc, "congruence-child-sides", "each child goal is (i-th child of the left node, i-th child of the right node)",
              "CongruenceProof::check builds a child goal whose sides come from %s: the left side must be a child of the goal's LEFT node and the right side a child of its RIGHT node, or a child proof of b = a is accepted for a = b" % [(side_of(l), side_of(r)) for _, l, r in eqs], where_of(b, eqs[0][0] if eqs else None))
    ms = [c for c in b.calls if c.callee and c.callee.name == "assert_match_equation" and not b.blocks[c.bb]["cleanup"]]
    okm = bool(ms) and all(_nrm(b, b.role_of_operand(c.args[0])).startswith("Equation{") and "self.0" in _nrm(b, _elem_source(b.role_of_operand(c.args[1]))) for c in ms)
    ctx.check(okm, "congruence-child-matched", "every child goal is matched against the child proof at the same position", "CongruenceProof::check does not match each child goal against the corresponding child proof", where_of(b))
    sh = [c for c in b.calls if c.callee and c.callee.name in ("eq", "ne") and len(c.args) == 2 and not b.blocks[c.bb]["cleanup"]
          and all("nullify_app_ids(" in _nrm(b, b.role_of_operand(a)) for a in c.args)]
    oks = any({side_of(b.role_of_operand(c.args[0])), side_of(b.role_of_operand(c.args[1]))} == {"l", "r"} and asserted(b, c) for c in sh)
    ctx.check(oks, "congruence-same-operator", "the two nodes are asserted equal up to their children", "CongruenceProof::check no longer asserts that the two nodes agree once their children are blanked out", where_of(b))
    lens = []
    for sb in b.switch_blocks():
        t = b.blocks[sb]["term"]
        r = strip_role(b.role_of_operand(t["discr"]))
        if isinstance(r, tuple) and r[0] == "bin" and r[1] in ("Eq", "Ne") and all("len(" in _nrm(b, x) for x in (r[2], r[3])):
            bad_e = [("e", sb, v) for v, _ in t["cases"] if v == "0"] if r[1] == "Eq" else [("e", sb, "otherwise")]
            if bad_e and not b.returns_reachable_from(bad_e):
                lens.append(sb)
    ctx.check(len(lens) >= 2, "congruence-arity", "both nodes have as many children as there are child proofs (zip would silently truncate)", "CongruenceProof::check no longer asserts the child counts: zip() truncates to the shortest list and the remaining children go unproved", where_of(b))

    # matching
    ma = [x for x in crate.by_name.get("match_app_id", []) if x.kind == "Fn"]
    if len(ma) != 1:
        raise mir.AnchorMissing("explain::proof::match_app_id")
    b = ma[0]
    ret = _nrm(b, b.role_of_local(0))
    ctx.check(ret == "compose(inverse(p1.m), p2.m)", "match-app-id", "match_app_id(a, b) = inverse(a.m) ; b.m", "match_app_id(a, b) returns %s: the renaming with a.apply(theta) = b is inverse(a.m).compose(b.m)" % ret[:80], where_of(b))
    me = [x for x in crate.by_name.get("assert_match_equation", []) if x.kind == "Fn"]
    if len(me) != 1:
        raise mir.AnchorMissing("explain::proof::assert_match_equation")
    b = me[0]
    tu = [c for c in b.calls if c.callee and c.callee.name == "try_union" and not b.blocks[c.bb]["cleanup"]]
    okt = any({_nrm(b, b.role_of_operand(c.args[0])), _nrm(b, b.role_of_operand(c.args[1]))} == {"match_app_id(p1.l, p2.l)", "match_app_id(p1.r, p2.r)"} for c in tu)
    ctx.check(okt, "match-equation", "assert_match_equation(a, b) unions match(a.l, b.l) with match(a.r, b.r)", "assert_match_equation(a, b) combines %s" % [(_nrm(b, b.role_of_operand(c.args[0]))[:40], _nrm(b, b.role_of_operand(c.args[1]))[:40]) for c in tu], where_of(b))
    ret = _nrm(b, b.role_of_local(0))
    ctx.check("try_union(" in ret and ("unwrap" in ret or "expect" in ret), "match-equation-conflict-panics", "a conflict between the two matches is fatal", "assert_match_equation no longer fails when the left and the right match disagree: %s" % ret[:80], where_of(b))


RULES.append(k12)


@rule("K13", cfgs=EXPL, doc="the congruence step assembles its proof in the order of its operands: child i is proved by transitivity(a's i-th child proof, symmetry(b's i-th child proof)), for every child; the node-level step is prove_congruence(a.src, b.src, children); the result is symmetry(a's find-proof) ; congruence ; b's find-proof and goes out with (a.target, b.target)")
def k13(ctx):
    crate = ctx.lib()
    bs = [b for b in crate.by_name.get("pc_congruence", []) if b.kind != "Closure"]
    if len(bs) != 1:
        raise mir.AnchorMissing("EGraph::pc_congruence")
    b = mir.inline_view(crate, bs[0], keep=("match_pcs", "align_pc_with", "prove_symmetry", "prove_transitivity", "prove_congruence", "src_id"))
    if any(c.callee and c.callee.target in crate.bodies and "ProvenContains" in crate.bodies[c.callee.target].local_ty(0) and crate.bodies[c.callee.target].id in getattr(b, "inlined", []) for c in bs[0].calls):
        b = bs[0]          # (the aligning helper stays a call)

    # the aligned pair: (a, b) = match_pcs(a, b) — or `a` itself and b = <helper>(a, b) when the helper answers only the renamed b
    aligners = {c.callee.name for c in b.calls if c.callee and c.callee.target in crate.bodies and not b.blocks[c.bb]["cleanup"]
                and [_nrm(b, b.role_of_operand(a)) for a in c.args] == ["self", "p2", "p3"] and "ProvenContains" in crate.bodies[c.callee.target].local_ty(0)}

    def N(r):
        s_ = _nrm(b, r)
        for al in sorted(aligners):
            if crate.bodies and any(x.name == al and x.local_ty(0).startswith("(") for x in crate.by_name.get(al, [])):
                s_ = s_.replace("%s(self, p2, p3).0" % al, "A").replace("%s(self, p2, p3).1" % al, "B")
            else:
                s_ = s_.replace("%s(self, p2, p3)" % al, "B")
                s_ = re.sub(r"\bp2\b(?=\.(node|pai)\b)", "A", s_)
                s_ = s_.replace("src_id(p2)", "src_id(A)")
        return s_
    ret = N(b.role_of_local(0))
    # the tuple / struct returned: three components
    m = re.match(r"^\w*\{(.*)\}$", ret)
    comps = []
    if m:
        depth = 0
        cur = ""
        for ch in m.group(1):
            if ch in "({[":
                depth += 1
            if ch in ")}]":
                depth -= 1
            if ch == "," and depth == 0:
                comps.append(cur.strip())
                cur = ""
            else:
                cur += ch
        comps.append(cur.strip())
    ok = len(comps) == 3 and comps[0] == "A.pai.elem" and comps[1] == "B.pai.elem"
    ctx.check(ok, "result-operands", "pc_congruence answers (a.target, b.target, proof) for the matched pair (a, b) in the order of its arguments",
              "pc_congruence returns the invocations %s: they must be the targets of the first and of the second argument, in that order (the proof that goes with them proves first = second)" % comps[:2], where_of(b))
    if len(comps) == 3:
        want = "prove_transitivity(prove_transitivity(prove_symmetry(A.pai.proof, reg), prove_congruence(self, src_id(A), src_id(B), new()), reg), B.pai.proof, reg)"
        ctx.check(comps[2] == want, "result-proof-chain", "the proof is symmetry(a.find-proof) ; congruence(a.src, b.src) ; b.find-proof",
                  "pc_congruence assembles %s; it must be %s: a.target -> a.src (the reversed find-proof of a), a.src -> b.src (congruence), b.src -> b.target" % (comps[2][:220], want), where_of(b))
    # the children
    lp = [l for l in C.iterator_loops(b) if "node.proofs" in N(l[1])]
    if len(lp) != 1:
        raise mir.AnchorMissing("the loop over the child proofs in pc_congruence", "found %d" % len(lp))
    l = lp[0]
    it = N(l[1])
    ctx.check(re.search(r"zip\((iter\()?A\.node\.proofs\)?, (iter\()?B\.node\.proofs\)?\)", it) is not None and C.loop_exhaustive(b, l), "children-zipped-in-order", "the child proofs of a and b are walked together, a's first, to the end",
              "pc_congruence walks the child proofs as %s: a's on the left, b's on the right, all of them" % it[:100], where_of(b, l[0]))
    body = b.reach(l[3], avoid=l[2])
    pushes = [c for c in b.calls if c.bb in body and c.callee and c.callee.name == "push" and not b.blocks[c.bb]["cleanup"]]
    okp = len(pushes) == 1 and b.must_pass(l[3], [l[0]], {pushes[0].bb})
    ctx.check(okp, "every-child-proved", "every iteration contributes one child proof", "an iteration of the child loop of pc_congruence can pass without contributing a child proof: the congruence kernel then gets fewer proofs than the node has children", where_of(b, l[0]))
    if pushes:
        v = _nrm(b, _elem_source_keep(b, pushes[0]))
        ctx.check(v == "prove_transitivity(self, E.0, prove_symmetry(self, E.1))", "child-proof-orientation", "child i is proved by transitivity(a_i, symmetry(b_i))",
                  "pc_congruence proves a child by %s; with (a_i : child -> a's spelling, b_i : child -> b's spelling) it must be transitivity(a_i, symmetry(b_i))" % v[:120], where_of(b, pushes[0].bb))


def _elem_source_keep(b, push):
    """role of the pushed value with the loop element abbreviated to E (so E.0 / E.1 are the zip positions)"""
    r = b.role_of_operand(push.args[1])

    def rw(x, depth=0):
        x = strip_role(x)
        if not isinstance(x, tuple) or depth > 12:
            return x
        if x[0] == "field":
            inner = strip_role(x[1])
            if isinstance(inner, tuple) and inner[0] == "variant":
                return ("param", "E")
            return ("field", rw(x[1], depth + 1), x[2])
        if x[0] == "call":
            return ("call", x[1], x[2], [rw(a, depth + 1) for a in x[3]], x[4])
        return x
    return rw(r)


RULES.append(k13)


@rule("K14", cfgs=EXPL, doc="lifting a congruence to the syntactic level keeps sides and positions apart: child i's goal is (i-th child of the LEFT node, i-th child of the RIGHT node) and is re-associated from the i-th child proof; the kernel is asked for (l, r) in order; re-association chains the LEFT class's redundancy proof in front and the RIGHT class's behind, and ties a left redundant slot to the right slot the goal associates it with")
def k14(ctx):
    crate = ctx.lib()

    def meth(name):
        bs = [b for b in crate.by_name.get(name, []) if b.kind != "Closure" and "egraph::EGraph" in (b.impl_self or "") and "explain" in (b.file or "")]
        if len(bs) != 1:
            raise mir.AnchorMissing("EGraph::" + name + " (explanations front end)")
        return bs[0]
    # ---- lift_sem_congruence
    b = meth("lift_sem_congruence")
    subs_ = [x for x in b.all_bodies() if x is not b]

    def aggs_all(suffix):
        """aggregates of b and of the closures created in it (a child loop written as `(0..n).map(|i| ..).collect()`), captured
        variables resolved to the parent's roles and parameters numbered as the parent's"""
        out = list(_aggs(b, suffix))
        for sub in subs_:
            for bi_, si_, s_ in sub.statements():
                rv_ = s_["rv"] if s_["k"] == "assign" else None
                if rv_ and rv_["k"] == "agg" and str(rv_.get("adt", "")).endswith(suffix) and not sub.blocks[bi_]["cleanup"]:
                    f_ = rv_.get("fields") or [str(i) for i in range(len(rv_["ops"]))]
                    out.append((b.line and 0, {n_: _nrm(b, sub.role_of_operand(rv_["ops"][i])) for i, n_ in enumerate(f_)}))
        return out
    eqs = aggs_all("proof::Equation")
    goals = [(bi, f) for bi, f in eqs if "applied_id_occurrences(" in f.get("l", "")]
    finals = [(bi, f) for bi, f in eqs if (f.get("l"), f.get("r")) == ("p2", "p3")]
    ctx.check(bool(finals), "lift:final-goal", "the kernel is asked for the equation (l, r) in order", "lift_sem_congruence asks the congruence kernel for %s" % [(f.get("l"), f.get("r")) for _, f in eqs if "applied_id_occurrences(" not in f.get("l", "")], where_of(b))
    ctx.floor("child goals in lift_sem_congruence", len(goals), 1)
    for bi, f in goals:
        ml = re.match(r"^index\(applied_id_occurrences\(alpha_normalize\(get_syn_node\(self, (p\d)\)\)\), (.*)\)$", f["l"])
        mr = re.match(r"^index\(applied_id_occurrences\(alpha_normalize\(get_syn_node\(self, (p\d)\)\)\), (.*)\)$", f["r"])
        ok = bool(ml and mr) and (ml.group(1), mr.group(1)) == ("p2", "p3") and ml.group(2) == mr.group(2)
        ctx.check(ok, "lift:child-goal", "child goal i = (left node's i-th child, right node's i-th child)",
                  "lift_sem_congruence builds a child goal from (%s, %s): its left side must be the i-th child of the LEFT term's node and its right side the child of the RIGHT term's node at the same position" % (f["l"][:90], f["r"][:90]), where_of(b, bi))
    an = [(x, c) for x in [b] + subs_ for c in x.calls if c.callee and c.callee.name == "associate_necessaries" and not x.blocks[c.bb]["cleanup"]]
    ctx.floor("re-association calls in lift_sem_congruence", len(an), 1)
    for x, c in an:
        a1 = _nrm(b, x.role_of_operand(c.args[1]))
        a2 = _nrm(b, x.role_of_operand(c.args[2]))
        # (the child proof is child_proofs[<the position the goal was built for>])
        idx_goal = re.findall(r"index\(applied_id_occurrences\(alpha_normalize\(get_syn_node\(self, p2\)\)\), (.*?)\), l?r?", a1)
        ctx.check(a1.startswith("Equation{") and a2.startswith("p4"), "lift:reassociate-child", "each child proof is re-associated towards its own child goal",
                  "lift_sem_congruence re-associates %s towards %s" % (a2[:60], a1[:60]), where_of(x, c.bb))
    lps = C.iterator_loops(b)
    if lps:
        ctx.check(all(C.loop_exhaustive(b, l) for l in lps), "lift:all-children", "every child is lifted", "the child loop of lift_sem_congruence can stop early", where_of(b))
    else:
        # adaptor form: (0..child_proofs.len()).map(|i| ..).collect() — nothing between the range and the collect but the map
        okm = False
        for c in b.calls:
            if c.callee and c.callee.name == "collect" and not b.blocks[c.bb]["cleanup"]:
                r_ = strip_role(b.role_of_operand(c.args[0]))
                if isinstance(r_, tuple) and r_[0] == "call" and r_[1] == "map" and len(r_[3]) == 2:
                    src_ = _nrm(b, r_[3][0])
                    cl_ = C._closure_of_role(crate, r_[3][1])
                    okm = okm or (re.match(r"^Range\{const, len\(p4\)\}$", src_) is not None and hasattr(cl_, "calls") and any(c2.callee and c2.callee.name == "associate_necessaries" for c2 in cl_.calls)
                                  and str(strip_role(strip_role(r_[3][0])[2][0])[1]).split("_")[0] == "0")
        ctx.check(okm, "lift:all-children", "every child is lifted (0..len(child proofs) mapped and collected)", "lift_sem_congruence does not lift every child: the traversal of the child proofs is not the full range 0..len", where_of(b))
    ret = _nrm(b, b.role_of_local(0))
    ctx.check(ret.startswith("disassociate_proven_eq(self, check(CongruenceProof{"), "lift:result", "the result is the dis-associated answer of the congruence kernel", "lift_sem_congruence returns %s" % ret[:100], where_of(b))
    # ---- associate_necessaries
    b = mir.inline_view(crate, meth("associate_necessaries"), keep=("get_redundancy_proof", "prove_transitivity", "prove_symmetry", "prove_reflexivity", "disassociate_proven_eq", "check", "syn_slots", "slots"))
    n_t = 0
    for bi, f in _aggs(b, "proof::TransitivityProof"):
        for pos, side in (("0", "l"), ("1", "r")):
            v = f.get(pos, "")
            if v.startswith("get_redundancy_proof(self, "):
                n_t += 1
                ok = v.endswith(".%s.id)" % side)
                ctx.check(ok, "reassociate:redundancy-side:" + pos, "the redundancy proof chained %s belongs to the %s class" % ("in front" if pos == "0" else "behind", "left" if side == "l" else "right"),
                          "associate_necessaries chains %s as premise %s of a transitivity step: in front goes the redundancy proof of the equation's LEFT class, behind that of its RIGHT class" % (v[:80], pos), where_of(b, bi))
    ctx.floor("redundancy proofs chained in associate_necessaries", n_t, 2)
    ga = [c for c in b.calls if c.callee and c.callee.name == "compose_partial" and not b.blocks[c.bb]["cleanup"] and _nrm(b, b.role_of_operand(c.args[0])).startswith("p2.")]
    okg = any((_nrm(b, b.role_of_operand(c.args[0])), _nrm(b, b.role_of_operand(c.args[1]))) == ("p2.l.m", "inverse(p2.r.m)") for c in ga)
    ctx.check(okg, "reassociate:goal-associations", "the goal's associations are goal.l.m ; goal.r.m^-1 (left class slot -> right class slot)", "associate_necessaries computes the goal's associations as %s" % [(_nrm(b, b.role_of_operand(c.args[0])), _nrm(b, b.role_of_operand(c.args[1]))) for c in ga], where_of(b))
    ins = [c for c in b.calls if c.callee and c.callee.name == "insert" and "SlotMap" in (c.callee.impl_self or "") and len(c.args) == 3 and not b.blocks[c.bb]["cleanup"]]
    sides = {}
    for c in ins:
        recv = _nrm(b, b.role_of_operand(c.args[0]))
        key = _nrm(b, b.role_of_operand(c.args[1]))
        val = _nrm(b, b.role_of_operand(c.args[2]))
        side = "l" if recv.endswith(".l.m") else "r" if recv.endswith(".r.m") else None
        if side:
            sides[side] = (key, val, c)
    if "l" in sides and "r" in sides:
        kl, vl, cl_ = sides["l"]
        kr, vr, cr_ = sides["r"]
        klr = strip_role(b.role_of_operand(cl_.args[1]))
        krr = strip_role(b.role_of_operand(cr_.args[1]))
        ok = vl == vr == "fresh()" and isinstance(krr, tuple) and krr[0] == "call" and krr[1] == "index" and len(krr[3]) == 2 \
            and _nrm(b, krr[3][0]) == "compose_partial(p2.l.m, inverse(p2.r.m))" and strip_role(krr[3][1]) == klr and not (isinstance(klr, tuple) and klr[0] == "call" and klr[1] == "index")
        ctx.check(ok, "reassociate:ties-associated-slots", "a left redundant slot x and the right slot goal_associations[x] get the same fresh name",
                  "associate_necessaries inserts (%s -> %s) on the left and (%s -> %s) on the right: the left key must be the open slot x itself, the right key goal_associations[x], both mapped to one fresh slot" % (kl[-50:], vl, kr[-70:], vr), where_of(b, cr_.bb))
    else:
        ctx.bad("reassociate:ties-associated-slots", "associate_necessaries no longer extends both sides of the sub-goal (found inserts on: %s)" % sorted(sides), where_of(b))
    # which slots get tied: those the goal associates and the proof does not yet (difference, in that order), among the slots
    # that are redundant in the LEFT class (syntactic slots minus class slots)
    subs = [(role_str(strip_role(b.role_of_operand(c.args[0])), 6), role_str(strip_role(b.role_of_operand(c.args[1])), 6)) for c in b.calls if c.callee and c.callee.name == "sub" and not b.blocks[c.bb]["cleanup"]]
    ok_open = any(a_.startswith("keys(compose_partial(goal.l.m") and b_.startswith("keys(compose_partial(") and "goal" not in b_ for a_, b_ in subs)
    ok_red = any(a_.startswith("syn_slots(self") and b_.startswith("slots(self") and a_.endswith(".l.id)") and b_.endswith(".l.id)") for a_, b_ in subs)
    ctx.check(ok_open, "reassociate:open-associations", "open associations = keys(goal associations) - keys(associations the proof already has)", "associate_necessaries computes the open associations as %s" % [x for x in subs if "keys(" in x[0]], where_of(b))
    ctx.check(ok_red, "reassociate:left-redundant-slots", "candidates are the left class's syntactic slots that are not class slots", "associate_necessaries computes the redundant slots of the left class as %s" % [x for x in subs if "slots(self" in x[0] or "slots(self" in x[1]], where_of(b))
    cur = [c for c in b.calls if c.callee and c.callee.name in ("compose_partial", "compose", "compose_fresh") and not b.blocks[c.bb]["cleanup"] and not _nrm(b, b.role_of_operand(c.args[0])).startswith("p2.")]
    ctx.check(bool(cur) and all(c.callee.name == "compose_partial" for c in cur), "reassociate:current-associations-partial", "the associations the proof already has are a PARTIAL composition (slots of one side that the other lacks are simply not associated)", "associate_necessaries composes the proof's two maps with %s: an invented image for an un-associated slot counts as 'already associated' and the slot is never tied" % sorted({c.callee.name for c in cur}), where_of(b))
    chk = [c for c in b.calls if c.callee and c.callee.name == "check" and "TransitivityProof" in (c.callee.impl_self or "") and not b.blocks[c.bb]["cleanup"]]
    okl = any(_nrm(b, b.role_of_operand(c.args[1])) == "p2" for c in chk)
    ctx.check(okl, "reassociate:final-goal", "the last transitivity step is checked against the goal", "associate_necessaries never asks the kernel for its goal", where_of(b))


RULES.append(k14)


@rule("K15", cfgs=EXPL, doc="prove_congruence derives the slot correspondence left -> right: bound / direct slots pairwise in occurrence order (left first), argument slots through each child proof (child_eq.l.m ; child_eq.r.m^-1, looked up in the LEFT child's map by its first and in the RIGHT child's map by its second component), renames the LEFT identity invocation by it and lifts (renamed left, right)")
def k15(ctx):
    crate = ctx.lib()
    bs = [b for b in crate.by_name.get("prove_congruence", []) if b.kind != "Closure" and "egraph::EGraph" in (b.impl_self or "")]
    if len(bs) != 1:
        raise mir.AnchorMissing("EGraph::prove_congruence")
    b = mir.inline_view(crate, bs[0], keep=("try_insert", "lift_sem_congruence", "apply_slotmap_fresh", "compose_partial", "mk_syn_identity_applied_id", "get_syn_node", "alpha_normalize", "nullify_app_ids"))     # (the correspondence loops may live in a helper)

    pl_, pr_ = b.var_names.get(2) or "l", b.var_names.get(3) or "r"

    def side(r, depth=0):
        """which of the two class parameters the value is drawn from — not counting what merely selects a position (the index of
        an `index(..)` / `get(..)`, a range bound)"""
        r = strip_role(r)
        sd = set()
        if not isinstance(r, tuple) or depth > 40:
            return sd
        if r == ("param", pl_):
            return {"l"}
        if r == ("param", pr_):
            return {"r"}
        k = r[0]
        if k == "call":
            args = r[3][:1] if r[1] in ("index", "get", "index_mut", "get_mut") else r[3]
            for a in args:
                sd |= side(a, depth + 1)
        elif k in ("field", "index", "variant", "discr"):
            sd |= side(r[1], depth + 1)
        elif k == "phi":
            for a in r[1]:
                sd |= side(a, depth + 1)
        elif k == "agg":
            if "Range" not in str(r[1]):
                for a in r[2]:
                    sd |= side(a, depth + 1)
        elif k == "bin":
            sd |= side(r[2], depth + 1) | side(r[3], depth + 1)
        return sd
    tis = [c for c in b.calls if c.callee and c.callee.name == "try_insert" and not b.blocks[c.bb]["cleanup"]]
    ctx.floor("correspondence inserts in prove_congruence", len(tis), 2)
    for k, c in enumerate(tis):
        a0, a1 = b.role_of_operand(c.args[0]), b.role_of_operand(c.args[1])
        s0, s1 = side(a0), side(a1)
        if s0 == {"l", "r"} and s1 == {"l", "r"}:
            # elements of zip(left occurrences, right occurrences): positions decide
            z0, z1 = side(_elem_source(a0)), side(_elem_source(a1))
            s0, s1 = z0, z1
        ctx.check(s0 == {"l"} and s1 == {"r"}, "congruence-map-direction:%d" % k, "the correspondence is recorded as (left slot -> right slot)",
                  "prove_congruence records a correspondence whose key comes from the %s side and whose value from the %s side: the map renames the LEFT identity invocation into the right one's names, so keys are left slots and values right slots" % (sorted(s0), sorted(s1)), where_of(b, c.bb))
    gets = [c for c in b.calls if c.callee and c.callee.name == "get" and "SlotMap" in (c.callee.impl_self or "") and not b.blocks[c.bb]["cleanup"]]
    n_g = 0
    for c in gets:
        sd = side(b.role_of_operand(c.args[0]))
        key = strip_role(b.role_of_operand(c.args[1]))
        comp = key[2] if isinstance(key, tuple) and key[0] == "field" else None
        if len(sd) != 1 or comp not in ("0", "1"):
            continue
        n_g += 1
        ok = (sd == {"l"} and comp == "0") or (sd == {"r"} and comp == "1")
        ctx.check(ok, "child-association-lookup:" + sorted(sd)[0], "a child association (a, b) is looked up as left-child.m[a] and right-child.m[b]",
                  "prove_congruence looks component %s of a child association up in the %s child's argument map: the association maps a slot of the LEFT child class to a slot of the RIGHT one (child_eq.l.m ; child_eq.r.m^-1)" % (comp, "left" if sd == {"l"} else "right"), where_of(b, c.bb))
    ctx.floor("child association look-ups in prove_congruence", n_g, 2)
    cps = [c for c in b.calls if c.callee and c.callee.name == "compose_partial" and not b.blocks[c.bb]["cleanup"]]
    okc = any(role_str(b.role_of_operand(c.args[0]), 30).endswith(".l.m") and role_str(b.role_of_operand(c.args[1]), 30).startswith("inverse(") and role_str(b.role_of_operand(c.args[1]), 30).endswith(".r.m)") for c in cps)
    ctx.check(okc, "child-association", "a child's association is child_eq.l.m ; child_eq.r.m^-1", "prove_congruence computes a child's association as %s" % [(role_str(b.role_of_operand(c.args[0]), 30)[-12:], role_str(b.role_of_operand(c.args[1]), 30)[-14:]) for c in cps], where_of(b))
    af = [c for c in b.calls if c.callee and c.callee.name == "apply_slotmap_fresh" and not b.blocks[c.bb]["cleanup"]]
    okf = any(side(b.role_of_operand(c.args[0])) == {"l"} for c in af)
    ctx.check(okf, "left-renamed", "the LEFT identity invocation is renamed by the correspondence", "prove_congruence renames %s by the left -> right correspondence" % [sorted(side(b.role_of_operand(c.args[0]))) for c in af], where_of(b))
    lf = [c for c in b.calls if c.callee and c.callee.name == "lift_sem_congruence" and not b.blocks[c.bb]["cleanup"]]
    okl = any(role_mentions_call(b.role_of_operand(c.args[1]), "apply_slotmap_fresh") and side(b.role_of_operand(c.args[2])) == {"r"} and not role_mentions_call(b.role_of_operand(c.args[2]), "apply_slotmap_fresh") for c in lf)
    ctx.check(okl, "lifts-renamed-left-and-right", "lift_sem_congruence(renamed left, right, child proofs)", "prove_congruence does not lift (renamed left invocation, right identity invocation) in that order", where_of(b))


RULES.append(k15)


@rule("K16", cfgs=EXPL, doc="a symmetry carried over on a class merge keeps a proof of ITS equation: with F the find-proof of the deprecated invocation (deprecated -> survivor), the transported proof is symmetry(F) ; generator's own proof ; F — survivor -> deprecated -> deprecated*perm -> survivor")
def k16(ctx):
    crate = ctx.lib()
    reg = C.merge_region(crate)
    n = 0
    for fid in sorted(reg["members"]):
        root = crate.bodies[fid]
        for b0 in root.all_bodies():
            mir.default_inline_policy(crate)
            # (a `mk_proven_perm(elem, proof)` constructor helper is looked through; the proof combinators stay calls)
            b = mir.inline_view(crate, b0, depth=2, policy=crate._cache.get("accessor_policy", set()), keep=("prove_transitivity", "prove_symmetry", "prove_reflexivity", "disassociate_proven_eq", "proven_find_applied_id"))
            for bi, f in _aggs(b, "perm::ProvenPerm"):
                pr = f.get("proof", "")
                if not pr.startswith("prove_transitivity("):
                    continue
                n += 1
                # structure: T(self, X, T(self, G, Y))  or  T(self, T(self, X, G), Y)
                roles = [x for x in role_walk(strip_role(b.role_of_rvalue([s for bi2, si2, s in b.statements() if bi2 == bi and s["k"] == "assign" and s["rv"]["k"] == "agg" and str(s["rv"].get("adt", "")).endswith("perm::ProvenPerm")][0]["rv"]))) if isinstance(x, tuple) and x[0] == "call" and x[1] == "prove_transitivity"]
                leaves = []

                def flat(r):
                    r0 = strip_role(r)
                    if isinstance(r0, tuple) and r0[0] == "call" and r0[1] == "prove_transitivity" and len(r0[3]) >= 2:
                        flat(r0[3][-2])
                        flat(r0[3][-1])
                    else:
                        leaves.append(r0)
                flat(roles[0])
                ok = False
                why = "chain of %d steps" % len(leaves)
                if len(leaves) == 3:
                    x, g, y = leaves
                    is_sym = isinstance(x, tuple) and x[0] == "call" and x[1] == "prove_symmetry"
                    inner = strip_role(x[3][-1]) if is_sym else None
                    gen_own = isinstance(g, tuple) and g[0] == "field" and g[2] == "proof"
                    y_find = role_mentions_call(y, "proven_find_applied_id") and not role_mentions_call(y, "prove_symmetry")
                    ok = is_sym and gen_own and y_find and inner == y
                    why = "first step %s, middle %s, last %s" % ("symmetry(F)" if is_sym and inner == y else role_str(x)[:40], "generator's proof" if gen_own else role_str(g)[:40], "F" if y_find else role_str(y)[:40])
                ctx.check(ok, "transport-proof-chain:" + C.fkey(root), "the transported generator's proof is symmetry(F) ; generator.proof ; F",
                          "%s pairs a transported symmetry with the proof chain (%s): it must run survivor -> deprecated (the REVERSED find-proof), deprecated -> deprecated*perm (the generator's own proof), deprecated*perm -> survivor (the find-proof) — in any other order the class ids of adjacent steps do not meet and the transitivity kernel panics whenever a class with a symmetry is merged away" % (C.short(fid), why), where_of(b, bi))
    ctx.floor("proofs of transported symmetries in the merge region", n, 1)


RULES.append(k16)


def _indexed_places(b):
    """every `base[i]` place of a body (statements and terminators, cleanup excluded): [(bb, role of base, role of i)]"""
    out = []

    def walk(x, bi):
        if isinstance(x, dict):
            if "l" in x and "p" in x and isinstance(x["p"], list):
                for k_, p in enumerate(x["p"]):
                    if isinstance(p, dict) and "idx" in p:
                        out.append((bi, b.role_of_place({"l": x["l"], "p": x["p"][:k_]}), b.role_of_local(int(p["idx"]))))
            for v in x.values():
                walk(v, bi)
        elif isinstance(x, list):
            for v in x:
                walk(v, bi)
    for bi, blk in enumerate(b.blocks):
        if not blk["cleanup"]:
            walk(blk["stmts"], bi)
            walk(blk["term"], bi)
    return out


@rule("K17", cfgs=EXPL, doc="the per-child proofs of a node stay attached to their children: chain_pn_map hands f the i-th child invocation together with the i-th child proof and the position i, and writes f's answer back to the same position of both lists, for every child; the reflexive node proves child i by reflexivity of child i's class over its syntactic slots, in occurrence order")
def k17(ctx):
    crate = ctx.lib()
    bs = [b for b in crate.by_name.get("chain_pn_map", []) if b.kind != "Closure"]
    if len(bs) != 1:
        raise mir.AnchorMissing("EGraph::chain_pn_map")
    b = mir.inline_view(crate, bs[0])
    w = where_of(b)
    fcalls = [c for c in b.calls if not b.blocks[c.bb]["cleanup"] and c.callee and c.callee.name in ("call", "call_mut", "call_once") and _nrm(b, b.role_of_operand(c.args[0])) == "p3"]
    if len(fcalls) != 1:
        raise mir.AnchorMissing("the call of the step function in chain_pn_map", "found %d" % len(fcalls))
    fc = fcalls[0]
    targ = strip_role(b.role_of_operand(fc.args[1]))
    comps = list(targ[2]) if isinstance(targ, tuple) and targ[0] == "agg" and len(targ[2]) == 2 else None
    if comps is None:
        raise mir.AnchorMissing("the (position, proven invocation) argument of the step function in chain_pn_map", role_str(targ)[:120])
    pos = _nrm(b, comps[0])
    pai = strip_role(comps[1])
    el = pr = "?"
    if isinstance(pai, tuple) and pai[0] == "agg" and len(pai[2]) == 2:
        names = list(pai[3]) if len(pai) > 3 and pai[3] else ["elem", "proof"]
        d = dict(zip(names, pai[2]))
        el, pr = _nrm(b, d.get("elem", pai[2][0])), _nrm(b, d.get("proof", pai[2][1]))
    occ = "applied_id_occurrences_mut(p2.elem)"
    idx = _indexed_places(b)
    # index form: `for i in 0..n { app_ids[i] .. proofs[i] .. f(i, ..) }`
    ia = {_nrm(b, b.role_of_operand(c.args[1])) for c in b.calls if not b.blocks[c.bb]["cleanup"] and c.callee and c.callee.name in ("index_mut", "index", "get_mut", "get")
          and occ in _nrm(b, b.role_of_operand(c.args[0]))}
    ia |= {_nrm(b, i) for (_, base, i) in idx if occ in _nrm(b, base)}
    ip = {_nrm(b, i) for (_, base, i) in idx if ".proofs" in _nrm(b, base)}
    ip |= {_nrm(b, b.role_of_operand(c.args[1])) for c in b.calls if not b.blocks[c.bb]["cleanup"] and c.callee and c.callee.name in ("index_mut", "index", "get_mut", "get")
           and ".proofs" in _nrm(b, b.role_of_operand(c.args[0]))}
    def enum_elem(x):
        """'E' when x is `E.<k>..` for E = next(enumerate(<traversal of the children, possibly zipped with the proofs>)), else None"""
        m_ = re.match(r"^(next\(enumerate\((?:into_iter\(|iter_mut\(|iter\(|zip\()*%s[^;]*?\)\)(?:\.0)?)\.[01]" % re.escape(occ), x)
        if m_ and not re.search(r"\b(rev|skip|take|step_by|filter|chain)\(", m_.group(1)):
            return m_.group(1)
        return None
    E = enum_elem(pos)
    if E is not None and pos == E + ".0":
        # enumerate form: `for (i, child) in children.into_iter().enumerate()` (the proofs indexed by i or zipped in)
        ok_el = el.startswith(E + ".1") and not ia
        ok_pr = (ip == {pos}) if ip else pr.startswith(E + ".1") and "zip(" in E and ".proofs" in E
        ctx.check(ok_el and ok_pr, "same-position", "child invocation, child proof and the position handed to f belong to one element of the enumeration",
                  "chain_pn_map: position %s, child %s, proof index %s / proof %s do not belong to one element of the traversal" % (pos[:80], el[:80], sorted(ip), pr[:80]), w)
        ctx.check(".proofs" in pr, "step-gets-child-and-its-proof", "f is handed (child invocation, its proof)", "f is handed elem=%s proof=%s" % (el[:80], pr[:80]), w)
    elif ia or ip:
        ctx.check(len(ia) == 1 and ia == ip and ia == {pos}, "same-position", "child invocation, child proof and the position handed to f are all taken at the loop's own index",
                  "chain_pn_map reads the child invocation at %s, the child proof at %s and tells f position %s: the three must be one and the same index, or child i travels with the proof of another child" % (sorted(ia), sorted(ip), pos), w)
        ctx.check(occ in el and ".proofs" in pr, "step-gets-child-and-its-proof", "f is handed (child invocation, its proof)", "f is handed elem=%s proof=%s" % (el[:80], pr[:80]), w)
    else:
        ctx.bad("same-position", "chain_pn_map: could not establish that child i (%s), its proof (%s) and the position (%s) belong together" % (el[:100], pr[:100], pos[:60]), w)
    # write-back of both components, on every iteration
    loops = [l for l in C.iterator_loops(b) if fc.bb in C.loop_body(b, l)]
    if len(loops) != 1:
        raise mir.AnchorMissing("the loop over the children in chain_pn_map", "found %d" % len(loops))
    l = loops[0]
    ctx.check(C.loop_exhaustive(b, l), "every-child", "the loop visits every child", "the loop of chain_pn_map can be left before every child was mapped", where_of(b, l[0]))
    it = _nrm(b, l[1])
    rng = strip_role(l[1])
    while isinstance(rng, tuple) and rng[0] == "call" and rng[1] in ("into_iter", "iter", "by_ref") and rng[3]:
        rng = strip_role(rng[3][0])
    if isinstance(rng, tuple) and rng[0] == "agg" and str(rng[1]).endswith("Range") and len(rng[2]) == 2:
        lo, hi = strip_role(rng[2][0]), _nrm(b, rng[2][1])
        okb = isinstance(lo, tuple) and lo[0] == "const" and str(lo[1]).split("_")[0] == "0" and hi == "len(%s)" % occ
    else:
        okb = re.match(r"^enumerate\((?:into_iter\(|iter_mut\(|iter\(|zip\()*%s" % re.escape(occ), it) is not None and not re.search(r"\b(rev|skip|take|step_by|filter|chain)\(", it)
    ctx.check(okb, "bound-is-child-count", "the loop runs over all children (0..len(children) or the children themselves)", "the loop of chain_pn_map ranges over %s" % it[:120], where_of(b, l[0]))
    stores = {}
    for bi, si, s in b.statements():
        if s["k"] == "assign" and not b.blocks[bi]["cleanup"] and "*" in s["lhs"]["p"] and bi in C.loop_body(b, l):
            v = strip_role(b.role_of_rvalue(s["rv"]))
            if isinstance(v, tuple) and v[0] == "field" and strip_role(v[1])[0] == "call" and strip_role(v[1])[4] == fc.bb if isinstance(strip_role(v[1]), tuple) and len(strip_role(v[1])) > 4 else False:
                dst = _nrm(b, b.role_of_local(s["lhs"]["l"]))
                stores[v[2]] = (bi, dst)
    for comp, marker in (("elem", occ), ("proof", ".proofs")):
        st = stores.get(comp)
        okw = st is not None and marker in st[1] and b.must_pass([fc.bb], [l[0]], {st[0]})
        ctx.check(okw, "written-back:" + comp, "f's %s is written over the child's own %s on every iteration" % (comp, comp),
                  "f's answer .%s is %s" % (comp, "stored into %s" % st[1][:100] if st else "not written back on every path"), w)

    # the reflexive node
    rp = [x for x in crate.by_name.get("refl_proof", []) if x.kind != "Closure"]
    rn = [x for x in crate.by_name.get("refl_pn", []) if x.kind != "Closure"]
    if len(rn) != 1:
        raise mir.AnchorMissing("EGraph::refl_pn")
    vb = mir.inline_view(crate, rn[0])
    vals = [_nrm(sb_, sb_.role_of_local(0)) for sb_ in vb.all_bodies() if sb_ is not vb]
    if rp:
        vals += [_nrm(rp[0], rp[0].role_of_local(0))]
    want = "prove_reflexivity(self, new(p1, identity(syn_slots(self, p1))))"
    got = [v for v in vals if "prove_reflexivity" in v]
    ctx.check(len(got) == 1 and got[0].replace("p2", "p1").replace("p1.id", "p1") == want, "refl-child-proof", "a child is proved reflexively as id[identity over its syntactic slots]",
              "the reflexive child proof is %s; it must be %s" % (got[:1], want), where_of(rp[0] if rp else vb))
    ret = _nrm(vb, vb.role_of_local(0))
    okr = "p2" in ret and "applied_id_occurrences(p2)" in ret.replace("iter(", "(").replace("into_iter(", "(")
    if not okr:
        # push-loop form: `for child in start.applied_id_occurrences() { proofs.push(refl_proof(child.id)) }`, the vector then stored
        for l_ in C.iterator_loops(vb):
            it_ = _nrm(vb, l_[1]).replace("into_iter(", "(").replace("iter(", "(")
            ps_ = [c for c in vb.calls if c.callee and c.callee.name == "push" and not vb.blocks[c.bb]["cleanup"] and c.bb in C.loop_body(vb, l_)]
            if "applied_id_occurrences(p2)" in it_ and not re.search(r"\b(rev|skip|take|filter|step_by|chain)\(", it_) and len(ps_) == 1 and C.loop_exhaustive(vb, l_) \
                    and vb.must_pass(l_[3], [l_[0]], {ps_[0].bb}) and re.search(r"prove_reflexivity|ReflexivityProof", _nrm(vb, vb.role_of_operand(ps_[0].args[1]))) \
                    and _nrm(vb, vb.role_of_operand(ps_[0].args[0])) in ret:
                okr = True
    ctx.check(okr, "refl-children-in-order", "the reflexive node carries one proof per child of the node handed in, in occurrence order",
              "refl_pn builds %s" % ret[:200], where_of(vb))


RULES.append(k17)

"""Role-set discovery shared by several properties.  Functions are found by what they
do (which field they write, which role functions they call), never by their name; the
names today are only printed into the evidence."""
import re
from salib import mir
from salib.mir import AnchorMissing, role_str, role_walk, strip_role
from salib.runner import where_of

EGRAPH = "egraph::EGraph"
ECLASS = "egraph::EClass"


def short(bid):
    """readable function name for messages and keys (no generics, no impl path)"""
    s = bid
    s = s.replace("<impl egraph::EGraph<L, N>>::", "")
    s = s.replace("egraph::EGraph::<L, N>::", "egraph::")
    return s


def fkey(body):
    """stable key for a function: its def path without generic parameter lists"""
    import re
    s = body.id
    s = re.sub(r"<impl ([^>]*?)(<[^>]*>)?>", lambda m: "<impl %s>" % m.group(1), s)
    s = s.replace("::<L, N>", "").replace("::<P>", "").replace("::<L>", "")
    return s


def writers(crate, adt, field, kinds=("store", "mutborrow")):
    w = crate.field_writers(adt, field)
    return {k: [x for x in v if x[2] in kinds] for k, v in w.items() if any(x[2] in kinds for x in v)}


def slot_writers(crate):
    """functions that store to EClass.slots (constructors build the struct by aggregate and
    are therefore not in the set)"""
    return sorted(writers(crate, ECLASS, "slots"))


def hashcons_writers(crate):
    return sorted(writers(crate, EGRAPH, "hashcons"))


def pending_writers(crate):
    return sorted(writers(crate, EGRAPH, "pending"))


def calls_to(crate, body, target_ids):
    """call sites in body (and its closures) whose resolved callee is one of target_ids"""
    return [c for c in body.all_calls() if c.callee and c.callee.target in target_ids]


def direct_callers(crate, target_ids):
    out = set()
    for b in crate.fns():
        if calls_to(crate, b, target_ids):
            out.add(b.id)
    return sorted(out)


def uf_setters(crate):
    """union-find setter: takes RefCell::borrow_mut on the field `unionfind` and then pushes to /
    index-assigns the vector (path compression goes through a &mut slice parameter instead)."""
    out = []
    for b in crate.fns():
        has_bm = False
        for c in b.all_calls():
            if c.callee and c.callee.name == "borrow_mut" and c.args:
                r = c.body.role_of_operand(c.args[0])
                if mir.role_mentions_field(r, "unionfind"):
                    has_bm = True
        if not has_bm:
            continue
        writes = [c for c in b.all_calls() if c.callee and c.callee.name in ("push", "index_mut", "insert", "swap", "truncate", "clear", "pop", "remove")
                  and c.args and mir.role_mentions_field(c.body.role_of_operand(c.args[0]), "unionfind")]
        if writes:
            out.append(b.id)
    return sorted(out)


def uf_borrowers_mut(crate):
    out = []
    for b in crate.fns():
        for c in b.all_calls():
            if c.callee and c.callee.name == "borrow_mut" and c.args:
                r = c.body.role_of_operand(c.args[0])
                if mir.role_mentions_field(r, "unionfind"):
                    out.append(b.id)
                    break
    return sorted(set(out))


def drain_functions(crate):
    """the rebuild function: removes from EGraph.pending"""
    out = []
    for b in crate.fns():
        for c in b.all_calls():
            if c.callee and c.callee.name in ("remove", "remove_entry", "pop_first", "take") and c.args and mir.role_mentions_field(c.body.role_of_operand(c.args[0]), "pending"):
                # the drain picks the key from the work-list itself (a handler that takes a stale entry of its own key along is not a drain)
                if len(c.args) > 1 and not mir.role_mentions_field(c.body.role_of_operand(c.args[1]), "pending"):
                    continue
                out.append(b.id)
                break
    return sorted(set(out))


def modify_drain_functions(crate):
    """functions that hand queued ids to the user's Analysis::modify hook"""
    out = []
    for b in crate.fns():
        if any(c.callee and c.callee.name == "modify" and (c.callee.trait or "").endswith("Analysis") for c in b.calls):
            out.append(b.id)
    return sorted(out)


def rebuild_roots(crate):
    """the rebuild entry: the function that drains `pending` and then `modify_queue` — both loops in its own body, or
    (when the loops were split off) the function that calls the pending drain and the modify drain"""
    pd, md = set(drain_functions(crate)), set(modify_drain_functions(crate))
    both = pd & md
    if both:
        return sorted(both)
    out = []
    for b in crate.fns():
        if b.id in pd or b.id in md:
            if b.id in pd and any(c.body is b for c in calls_to(crate, b, md)):
                out.append(b.id)
            elif b.id in md and any(c.body is b for c in calls_to(crate, b, pd)):
                out.append(b.id)
            continue
        if any(c.body is b for c in calls_to(crate, b, pd)) and any(c.body is b for c in calls_to(crate, b, md)):
            out.append(b.id)
    return sorted(out)


def requeue_functions(crate):
    """touched_class: iterates EClass.usages and inserts into EGraph.pending"""
    out = []
    for bid in pending_writers(crate):
        b = crate.bodies[bid]
        reads_usages = bid in crate.field_readers(ECLASS, "usages")
        if reads_usages:
            out.append(bid)
    return sorted(out)


def merge_functions(crate):
    """move_to: calls a union-find setter directly and a hashcons writer directly — or through a private
    single-use helper it was split into (the node-migration loop extracted: looked through with the inline view)"""
    key = "merge_functions"
    if key in crate._cache:
        return crate._cache[key][0]
    ufs = set(uf_setters(crate))
    hw = set(hashcons_writers(crate))
    keep = tuple(short(x).split("::")[-1] for x in (ufs | hw))
    out = []
    absorbed = set()
    for b in crate.fns():
        if b.id in ufs or b.id in hw:
            continue
        if not calls_to(crate, b, ufs):
            continue
        if calls_to(crate, b, hw):
            out.append(b.id)
            continue
        v = mir.inline_view(crate, b, keep=keep)
        if v is not b and calls_to(crate, v, hw):
            out.append(b.id)
            absorbed |= {f for f in getattr(v, "inlined", []) if calls_to(crate, crate.bodies[f], hw)}
    crate._cache[key] = (sorted(out), absorbed)
    return crate._cache[key][0]


def merge_helpers(crate):
    """private single-use helpers of the class merge that write the node index (part of the merge, not a re-insert function)"""
    merge_functions(crate)
    return crate._cache["merge_functions"][1]


def leader_union_functions(crate):
    """union_leaders: the function that can shrink either of its two invocation parameters (it calls a
    slot-set writer with two different parameters as the subject)"""
    key = "leader_union_functions"
    if key in crate._cache:
        return crate._cache[key]
    sw = set(slot_writers(crate))
    out = []
    for b in crate.fns():
        if b.id in sw:
            continue
        subj = set()
        for c in calls_to(crate, b, sw):
            if c.body is b and len(c.args) > 1:
                r = strip_role(b.role_of_operand(c.args[1]))
                if isinstance(r, tuple) and r[0] == "param":
                    subj.add(r[1])
        if len(subj) >= 2:
            out.append(b.id)
    crate._cache[key] = sorted(out)
    return crate._cache[key]


def need(setname, members, n=1, exact=False):
    if len(members) < n or (exact and len(members) != n):
        raise AnchorMissing(setname, "role set has %d member(s) %s, expected %s%d" % (len(members), members, "exactly " if exact else ">= ", n))
    return members


# ---------------------------------------------------------------------------- conditions

def edge_condition(role, truth):
    """normalise (discriminant role, truth on the edge) to ('eq'|'ne', a, b) | ('true'|'false', role)"""
    r = role
    neg = False
    while isinstance(r, tuple) and r[0] == "un" and r[1] == "Not":
        r = r[2]
        neg = not neg
    if truth is None:
        return ("unknown", r)
    val = truth != neg
    if isinstance(r, tuple) and r[0] == "call" and r[1] in ("eq", "ne") and len(r[3]) == 2:
        is_eq = (r[1] == "eq") == val
        return ("eq" if is_eq else "ne", r[3][0], r[3][1])
    if isinstance(r, tuple) and r[0] == "bin" and r[1] in ("Eq", "Ne"):
        is_eq = (r[1] == "Eq") == val
        return ("eq" if is_eq else "ne", r[2], r[3])
    return ("true" if val else "false", r)


def flag_defs(body, sb):
    """if the switch at block sb tests a boolean local that is only ever assigned the constants true / false
    (`let mut ok = true; .. ok = false; ..`, `matches!(..)`, a lowered `&&`), return [(value, def)] — else None"""
    t = body.blocks[sb]["term"]
    pl = mir.op_place(t["discr"])
    if pl is None or pl["p"]:
        return None
    l = pl["l"]
    defs = body.defs()
    for _ in range(6):
        ds = defs.get(l, [])
        if len(ds) == 1 and ds[0]["kind"] == "assign" and ds[0]["rv"]["k"] == "use" and ds[0]["rv"]["op"].get("k") in ("copy", "move") and not ds[0]["rv"]["op"]["pl"]["p"]:
            l = ds[0]["rv"]["op"]["pl"]["l"]
        else:
            break
    ds = defs.get(l, [])
    if len(ds) < 2 or any(d["kind"] != "assign" for d in ds):
        return None
    vals = [(const_bool(d["rv"]), d) for d in ds]
    if any(v is None for v, _ in vals):
        return None
    return vals


def conditions_at(body, bb, _depth=0, expand=True):
    """normalised conditions of all switch edges dominating bb.  A test of a boolean flag that is assigned constants
    only is looked through: if exactly one assignment gives the flag the value the edge needs, the conditions of that
    assignment hold as well"""
    out = []
    for e, role, truth in body.guards_dominating(bb):
        cond = edge_condition(role, truth)
        out.append((e, cond))
        if expand and _depth < 3 and cond[0] in ("true", "false") and len(cond) > 1 and isinstance(cond[1], tuple) and cond[1][0] == "phi":
            fd = flag_defs(body, e[1])
            if fd:
                want = cond[0] == "true"
                m = [d for v, d in fd if v == want]
                if len(m) == 1:
                    out.extend(conditions_at(body, m[0]["bb"], _depth + 1))
    return out


def roles_pair_match(a, b, pa, pb):
    """{a,b} match predicates {pa,pb} in either order"""
    return (pa(a) and pb(b)) or (pa(b) and pb(a))


def unwrap_delegation(crate, body, max_depth=3):
    """if `body` only forwards its parameters to one crate-local function and returns its result,
    analyse that function instead (so extracting a body into a helper keeps the verdict)."""
    for _ in range(max_depth):
        rets = body.defs().get(0, [])
        if len(rets) != 1 or rets[0]["kind"] != "call":
            return body
        c = rets[0]["call"]
        if c.callee is None or c.callee.target not in crate.bodies:
            return body
        # every other call must be trivial (clone/deref) and args must be parameters
        others = [x for x in body.calls if x is not c and not body.blocks[x.bb]["cleanup"] and (x.name not in mir.TRANSPARENT_CALLS)]
        if others:
            return body
        body = crate.bodies[c.callee.target]
    return body


# ---------------------------------------------------------------------------- work-list summaries
DIRTY_METHODS = {"insert", "entry", "push", "extend", "or_insert", "or_insert_with", "append", "extend_from_slice"}


def direct_dirty_sites(crate, body):
    """call sites in `body` (not its closures) that put something into EGraph.pending / modify_queue"""
    out = []
    for c in body.calls:
        if body.blocks[c.bb]["cleanup"] or c.callee is None or not c.args:
            continue
        if c.callee.name in DIRTY_METHODS:
            r = body.role_of_operand(c.args[0])
            for x in role_walk(r):
                if isinstance(x, tuple) and x[0] == "field" and x[2] in ("pending", "modify_queue"):
                    out.append(c)
                    break
    return out


class Worklist:
    """P(f): if the work-lists are empty when f is entered they are empty when it returns.
       S(f): the work-lists are empty whenever f returns.
    Greatest fixpoint (sound for these partial-correctness summaries, also through recursion);
    the drain function is S by axiom (its own shape is rule P3).  Calls that do not resolve to a
    crate-local body (trait methods of user types, boxed closures, std) are assumed P: they can
    reach the e-graph only through the public API, whose P-ness is what is being established."""

    def __init__(self, crate):
        self.crate = crate
        self.pend_drains = set(drain_functions(crate))
        self.mod_drains = set(modify_drain_functions(crate))
        self.drains = set(rebuild_roots(crate))     # S by axiom; their own shape is rule P3
        fns = {b.id: b for b in crate.fns()}
        self.fns = fns
        self.P = set(fns)
        self.S = set(fns)
        self.why = {}
        self.direct = {}
        for fid, b in fns.items():
            d = []
            for bb in b.all_bodies():
                ds = direct_dirty_sites(crate, bb)
                if bb is b:
                    d.extend(("op", c.bb, c) for c in ds)
                elif ds:
                    # a dirty op inside a closure: charged to the block that creates the closure
                    top = bb
                    while top.parent_body is not None and top.parent_body is not b:
                        top = top.parent_body
                    if top.creation is not None:
                        d.append(("closure-op", top.creation[1], ds[0]))
                    else:
                        d.append(("closure-op", 0, ds[0]))
            self.direct[fid] = d
        changed = True
        while changed:
            changed = False
            for fid in list(self.P):
                if fid in self.drains:
                    continue
                bad = self._p_violations(fns[fid])
                if bad:
                    self.P.discard(fid)
                    self.why[fid] = bad
                    changed = True
            for fid in list(self.S):
                if fid in self.drains:
                    continue
                b = fns[fid]
                sb = self.s_blocks(b)
                ok = fid in self.P and b.must_pass([0], b.return_blocks(), sb) and bool(sb)
                if not ok:
                    self.S.discard(fid)
                    changed = True

    def s_blocks(self, b):
        return {c.bb for c in b.calls if c.callee and c.callee.target in self.S and not b.blocks[c.bb]["cleanup"]}

    def dirty_sites(self, b):
        """[(kind, bb, callsite)] in body b: direct ops, calls to local functions that are not P,
        closures (created in b) that contain either"""
        out = list(self.direct[b.id]) if b.id in self.direct else []
        for c in b.calls:
            if b.blocks[c.bb]["cleanup"] or c.callee is None:
                continue
            t = c.callee.target
            if t in self.fns and t not in self.P:
                out.append(("call", c.bb, c))
        for cb in b.closures:
            for sub in cb.all_bodies():
                for c in sub.calls:
                    if c.callee and c.callee.target in self.fns and c.callee.target not in self.P and not sub.blocks[c.bb]["cleanup"]:
                        top = cb
                        out.append(("closure-call", top.creation[1] if top.creation else 0, c))
        return out

    def _p_violations(self, b):
        sb = self.s_blocks(b)
        bad = []
        for kind, bb, c in self.dirty_sites(b):
            if bb in sb and kind == "call":
                continue
            if not b.must_pass(b.after(bb), b.return_blocks(), sb):
                bad.append((kind, bb, c))
        return bad


def variant_edges(body, sb, vi, nvariants=2):
    """edges of the switch at block sb on which the discriminant equals variant index vi
    (the otherwise edge counts when all other variants have explicit cases)"""
    t = body.blocks[sb]["term"]
    vals = [v for v, _ in t["cases"]]
    out = []
    if str(vi) in vals:
        out.append(("e", sb, str(vi)))
    else:
        others = {str(i) for i in range(nvariants)} - {str(vi)}
        if others <= set(vals):
            out.append(("e", sb, "otherwise"))
    return out


def known_variant_edges(crate, body, is_subject, adt_name, variant):
    """edges on which a value of a field-less enum is known to be `variant`: an arm of `match x` / `if let`, the true
    edge of `x == Enum::Variant`, the false edge of `x != Enum::Variant`, and for a two-variant enum the complementary
    tests against the other variant.  is_subject(role) says whether a (stripped) role is the value asked about."""
    adt = crate.adt_named(adt_name)
    names = [v["name"] for v in adt["variants"]] if adt else []
    if variant not in names:
        return []
    out = []
    for sb in body.switch_blocks():
        r = body.role_of_operand(body.blocks[sb]["term"]["discr"])
        if r[0] == "discr" and is_subject(strip_role(r[1])):
            out += variant_edges(body, sb, names.index(variant), nvariants=len(names))
    for e, cond in all_cond_edges(body):
        if cond[0] in ("eq", "ne") and len(cond) == 3:
            a, b2, holds = strip_role(cond[1]), strip_role(cond[2]), cond[0] == "eq"
        elif cond[0] in ("true", "false") and len(cond) >= 2:
            r = strip_role(cond[1])
            if not (isinstance(r, tuple) and r[0] == "call" and r[1] in ("eq", "ne") and len(r[3]) == 2):
                continue
            a, b2 = strip_role(r[3][0]), strip_role(r[3][1])
            holds = (cond[0] == "true") == (r[1] == "eq")         # on this edge: a == b2
        else:
            continue
        for x, y in ((a, b2), (b2, a)):
            if is_subject(x) and isinstance(y, tuple) and y[0] == "agg" and isinstance(y[1], str) and y[1].rsplit("::", 1)[0].split("::")[-1] == adt_name.split("::")[-1]:
                v = y[1].rsplit("::", 1)[1]
                if (v == variant and holds) or (v != variant and not holds and len(names) == 2):
                    out.append(e)
    return out


# ---------------------------------------------------------------------------- loops
def iterator_loops(body):
    """for/while-let loops driven by Iterator::next / pop: [(bb of the switch on the Option discriminant,
    role of the iterator expression, none_edges, some_edges, call site)]"""
    out = []
    for sb in body.switch_blocks():
        t = body.blocks[sb]["term"]
        r = body.role_of_operand(t["discr"])
        if r[0] != "discr":
            continue
        inner = strip_role(r[1])
        if isinstance(inner, tuple) and inner[0] == "call" and inner[1] in ("next", "pop", "next_back", "pop_front") and inner[3]:
            none_e = variant_edges(body, sb, 0)
            some_e = variant_edges(body, sb, 1)
            # it is a loop if the switch block is reachable from its own Some edge
            if some_e and sb in body.reach(some_e):
                out.append((sb, inner[3][0], none_e, some_e, body.call_at.get(inner[4])))
    return out


def loop_body(body, loop):
    """blocks of the natural loop: reachable from the Some edge without taking the None edge, and able to get back to the
    loop head (code reached through a `break` is not part of the body)"""
    sb, it, none_e, some_e, cs = loop
    fwd = body.reach(some_e, avoid=set(none_e))
    return {x for x in fwd if isinstance(x, int) and sb in body.reach([x], avoid=set(none_e))}


def loop_exhaustive(body, loop):
    """the loop body has no way out except the iterator's None edge: every path from the Some
    edge to a return passes through the None edge (break / return inside the loop violate it;
    continue and panics do not)"""
    sb, it, none_e, some_e, cs = loop
    return bool(none_e) and body.must_pass(some_e, body.return_blocks(), none_e)


# ---------------------------------------------------------------------------- skip conditions
def skip_conditions(body, bb):
    """conditions (other than loop-iterator Some edges, matches on parameters' enum discriminants and
    `if CHECKS`) that dominate block bb: [(edge, kind, text, role)]"""
    out = []
    # the edges themselves, not what a flag test implies: an implied condition is not a second reason to skip
    for e, cond in conditions_at(body, bb, expand=False):
        r = cond[1] if len(cond) > 1 else None
        if cond[0] in ("true", "false", "unknown") and isinstance(r, tuple):
            sr = strip_role(r)
            if r[0] == "const":
                continue
            if r[0] == "discr":
                continue
            if r[0] == "phi" and all(isinstance(x, tuple) and x[0] == "const" for x in r[1]):
                continue   # drop flags
        txt = " ".join(role_str(x) for x in cond[1:])
        out.append((e, cond[0], txt, cond))
    return out


def check_only_allowed_skips(ctx, body, bb, allowed, key, what):
    """allowed: list of (kind, predicate(text, cond)) ; reports every dominating condition that matches none"""
    ok = True
    seen = []
    for e, kind, txt, cond in skip_conditions(body, bb):
        if any(k == kind and pred(txt, cond) for k, pred in allowed):
            seen.append((kind, txt[:80]))
            continue
        ok = False
        ctx.bad("extra-skip:%s:%s %s" % (key, kind, txt[:60]),
                "%s is additionally guarded by [%s %s] — instances can be skipped for a reason other than the legitimate ones" % (what, kind, txt[:200]),
                where_of(body, e[1]))
    if ok:
        ctx.ok("only-allowed-skips:" + key, "%s is guarded only by %s" % (what, seen), where_of(body, bb))
    return ok


def role_calls_deep(crate, role, name):
    """the role mentions a call `name`, directly or inside a closure that occurs in the role"""
    for x in role_walk(role):
        if isinstance(x, tuple) and x[0] == "call" and x[1] == name:
            return True
        if isinstance(x, tuple) and x[0] == "fnconst" and str(x[1]).split("::")[-1].split("<")[0] == name:
            return True      # the function item itself handed to an adaptor: iter.map(name)
        if isinstance(x, tuple) and x[0] == "agg" and isinstance(x[1], str) and x[1] in crate.bodies:
            cb = crate.bodies[x[1]]
            for sub in cb.all_bodies():
                if any(c.callee and c.callee.name == name for c in sub.calls):
                    return True
    return False


# ---------------------------------------------------------------------------- merge region (robust to helper extraction)
def merge_region(crate):
    """core   : functions that directly call the union-find setter and a hashcons writer (the class merge proper)
    members: functions from which a core function is reachable but the leader union is not (wrappers around
             the merge), plus helpers called only from members
    entries: members called directly from the leader union"""
    key = "merge_region"
    if key in crate._cache:
        return crate._cache[key]
    core = set(merge_functions(crate))
    leaders = set(leader_union_functions(crate))
    fns = {b.id: b for b in crate.fns()}
    reach = {fid: crate.reachable_from([fid], resolve_traits=False) for fid in fns}
    members = {fid for fid in fns if (core & reach[fid]) and not (leaders & reach[fid])}
    # helpers: called from members, not reaching the leader union, all of whose callers are members/helpers
    callers = {}
    for fid, b in fns.items():
        for c in b.all_calls():
            if c.callee and c.callee.target in fns:
                callers.setdefault(c.callee.target, set()).add(fid)
    changed = True
    helpers = set()
    while changed:
        changed = False
        for fid in fns:
            if fid in members or fid in helpers or fid in leaders:
                continue
            cs = callers.get(fid, set())
            if cs and cs <= (members | helpers) and not (leaders & reach[fid]):
                # only functions that take the e-graph mutably matter
                b = fns[fid]
                if b.argc >= 1 and "egraph::EGraph<" in b.local_ty(1) and b.local_ty(1).startswith("&mut"):
                    helpers.add(fid)
                    changed = True
    entries = {fid for fid in members if any(l in callers.get(fid, set()) for l in leaders)}
    out = {"core": sorted(core), "members": sorted(members | helpers), "entries": sorted(entries)}
    crate._cache[key] = out
    return out


def lift_param(crate, fn_id, pname, top_ids, depth=0):
    """names of the parameters of the functions in top_ids that the parameter `pname` of fn_id is bound to,
    following calls that pass parameters through unchanged: {(top fn id, top param name)}"""
    if fn_id in top_ids:
        return {(fn_id, pname)}
    if depth > 4:
        return set()
    out = set()
    callee = crate.bodies[fn_id]
    pidx = callee.param_index(pname)
    if pidx is None:
        return out
    for b in crate.fns():
        for c in calls_to(crate, b, {fn_id}):
            if c.body is not b or pidx - 1 >= len(c.args):
                continue
            r = strip_role(b.role_of_operand(c.args[pidx - 1]))
            if isinstance(r, tuple) and r[0] == "param":
                out |= lift_param(crate, b.id, r[1], top_ids, depth + 1)
    return out


# ---------------------------------------------------------------------------- leader-union region (robust to helper extraction)
def leader_helpers(crate):
    """functions called (transitively) from the leader union that cannot reach it again and are neither
    slot writers nor part of the merge region: branch bodies that were extracted into helpers"""
    key = "leader_helpers"
    if key in crate._cache:
        return crate._cache[key]
    leaders = set(leader_union_functions(crate))
    sw = set(slot_writers(crate))
    reg = set(merge_region(crate)["members"])
    fns = {b.id: b for b in crate.fns()}
    out = set()
    work = list(leaders)
    while work:
        f = work.pop()
        b = fns.get(f)
        if b is None:
            continue
        for c in b.all_calls():
            t = c.callee.target if c.callee else None
            if t in fns and t not in leaders and t not in out and t not in sw and t not in reg:
                tb = fns[t]
                if not (tb.argc >= 1 and tb.local_ty(1).startswith("&mut egraph::EGraph<")):
                    continue
                if leaders & crate.reachable_from([t], resolve_traits=False):
                    continue
                out.add(t)
                work.append(t)
    crate._cache[key] = sorted(out)
    return crate._cache[key]


def leader_add_sites(crate):
    """Group::add sites on a class group inside the leader union or one of its helpers:
    [{'call': CallSite, 'body': Body, 'leader': Body, 'conds': [cond...] (local + at the helper's call site in
      the leader), 'pmap': {helper param name: leader param name}}]"""
    out = []
    leaders = leader_union_functions(crate)
    helpers = leader_helpers(crate)
    for lid in leaders:
        lb = crate.bodies[lid]
        for fid in [lid] + list(helpers):
            fb = crate.bodies[fid]
            for c in fb.calls:
                if not (c.callee and c.callee.is_("add", "group::Group")) or fb.blocks[c.bb]["cleanup"]:
                    continue
                conds = [cond for e, cond in conditions_at(fb, c.bb)]
                pmap = {fb.var_names.get(i): fb.var_names.get(i) for i in range(1, fb.argc + 1)}
                if fid != lid:
                    sites = [x for x in lb.calls if x.callee and x.callee.target == fid and not lb.blocks[x.bb]["cleanup"]]
                    if len(sites) != 1:
                        continue
                    cs = sites[0]
                    conds = conds + [cond for e, cond in conditions_at(lb, cs.bb)]
                    pmap = {}
                    for i in range(1, fb.argc + 1):
                        r = strip_role(lb.role_of_operand(cs.args[i - 1])) if i - 1 < len(cs.args) else None
                        if isinstance(r, tuple) and r[0] == "param":
                            pmap[fb.var_names.get(i)] = r[1]
                out.append({"call": c, "body": fb, "leader": lb, "conds": conds, "pmap": pmap})
    return out


# ---------------------------------------------------------------------------- loop-exit census
# file -> (reviewed number of loops that mutate the e-graph and may be left before the iterator is exhausted, reason): none today
EARLY_EXIT_LOOPS = {
}


EGRAPH_STATE_TYPES = ("egraph::EGraph<", "egraph::EClass<", "group::Group<")


def loop_effects(body, lp):
    """calls inside the loop body that receive a `&mut` derived from a `&mut EGraph / EClass / Group` parameter of
    the enclosing function: the loop changes e-graph state"""
    sb, it, none_e, some_e, cs = lp
    inside = loop_body(body, lp)
    out = []
    for c in body.calls:
        if c.bb not in inside or body.blocks[c.bb]["cleanup"] or not c.callee or c is cs:
            continue
        if c.callee.name in ("next", "next_back", "into_iter", "iter", "iter_mut", "peek", "by_ref", "size_hint", "clone", "deref", "deref_mut", "borrow", "as_ref"):
            continue        # advancing / creating an iterator over e-graph data is not a change of the e-graph
        for a in c.args:
            pl = mir.op_place(a)
            if pl is None or not body.local_ty(pl["l"]).startswith("&mut"):
                continue
            for x in role_walk(body.role_of_operand(a)):
                if isinstance(x, tuple) and x[0] == "param":
                    pi = body.param_index(x[1])
                    if pi is not None and body.local_ty(pi).startswith("&mut") and any(t in body.local_ty(pi) for t in EGRAPH_STATE_TYPES):
                        out.append((c, x[1]))
                        break
    return out


def loop_census(ctx, crate):
    """every iterator-driven loop of the library that mutates state reachable from a `&mut` parameter
    runs until its iterator is exhausted, except a frozen, per-file reviewed number of error-propagation
    loops (pure search loops are not counted: leaving them early loses nothing)"""
    tot = 0
    eff = 0
    early = {}
    for b in crate.bodies.values():
        if not (b.file or "").startswith("src/") or (b.file or "").endswith("tst.rs"):
            continue
        for lp in iterator_loops(b):
            tot += 1
            fx = loop_effects(b, lp)
            if not fx:
                continue
            eff += 1
            if not loop_exhaustive(b, lp):
                # restart idiom: the loop is abandoned only to run the whole function again on the same input
                restart = {c.bb for c in b.calls if c.callee and c.callee.target == b.id and not b.blocks[c.bb]["cleanup"]}
                if restart and b.must_pass(lp[3], b.return_blocks(), set(lp[2]) | restart):
                    continue
                early.setdefault(b.file, []).append((crate.root_of(b), b, lp, fx))
    for file, sites in sorted(early.items()):
        ent = EARLY_EXIT_LOOPS.get(file)
        if ent is not None and len(sites) <= ent[0]:
            ctx.ok("early-exit:%s" % file, "%d reviewed early-exit loop(s) in %s — %s" % (len(sites), file, ent[1]), where_of(sites[0][1], sites[0][2][0]))
        else:
            root, b, lp, fx = sites[-1]
            ctx.bad("early-exit:%s" % file,
                    "unreviewed early exit from a state-changing loop: %d loop(s) in %s that mutate through a &mut parameter can be left before their iterator is exhausted (break / return / `?` in the body), %d reviewed; e.g. the loop over %s in %s (it calls %s on `%s`). Elements after the exit are never processed" % (
                        len(sites), file, ent[0] if ent else 0, role_str(lp[1])[:80], short(root.id), fx[0][0].callee.name, fx[0][1]), where_of(b, lp[0]))
    ctx.floor("iterator-driven loops in the library", tot, 60)
    ctx.floor("of which state-changing (through &mut EGraph / EClass / Group)", eff, 8)
    ctx.ok("census", "%d iterator-driven loops, %d state-changing, %d of those with a reviewed early exit, all others run to exhaustion" % (tot, eff, sum(len(v) for v in early.values())))


# ---------------------------------------------------------------------------- slot inclusion at re-insert
def all_cond_edges(body):
    """[(edge, normalised condition)] for every edge of every boolean / discriminant switch of the body"""
    out = []
    for sb in body.switch_blocks():
        t = body.blocks[sb]["term"]
        role = body.role_of_operand(t["discr"])
        vals = [v for v, _ in t["cases"]]
        for label in vals + ["otherwise"]:
            if label == "otherwise":
                truth = True if vals == ["0"] else None
            else:
                truth = False if label == "0" else (True if label == "1" else None)
            out.append((("e", sb, label), edge_condition(role, truth)))
    return out


def reinsert_functions(crate):
    """handle_pending: reachable from the work-list drain, removes an e-node from the hashcons and adds it
    back under its re-canonicalised form (calls two different hashcons writers directly), is neither the
    class merge nor the leader union"""
    hw = set(hashcons_writers(crate))
    reach = set(crate.reachable_from(rebuild_roots(crate) or drain_functions(crate)))
    excl = set(merge_functions(crate)) | merge_helpers(crate) | set(leader_union_functions(crate)) | hw
    out = []
    for b in crate.fns():
        if b.id in excl or b.id not in reach:
            continue
        tg = {c.callee.target for c in calls_to(crate, b, hw)}
        if len(tg) >= 2:
            out.append(b.id)
    return sorted(out)


def slot_inclusion(ctx, crate):
    """a re-canonicalised e-node is put back into its class only after `slots(class) ⊆ slots(node)` was
    established: every path from the entry of the re-insert function to the hashcons insert passes through the
    true edge of that subset test or through a call that reaches the slot-set writer (the shrink)"""
    fns = need("re-insert function (handle_pending)", reinsert_functions(crate))
    sw = set(slot_writers(crate))
    cg = crate.callgraph()
    reaches_sw = {f for f in crate.bodies if sw & set(crate.reachable_from([f]))}
    hw = set(hashcons_writers(crate))
    for fid in fns:
        # helpers the handler was split into (canonicalise-and-shrink step ..) are looked through
        b = mir.inline_view(crate, crate.bodies[fid], keep=tuple(short(x).split("::")[-1] for x in hw))
        # the adder is the hashcons writer called last on every path (the one whose call is not followed by another writer)
        sites = calls_to(crate, b, hw)
        adds = [c for c in sites if c.callee.name != "remove" and not any(o is not c and o.callee.target != c.callee.target and o.bb in b.reach([c.bb]) for o in sites)]
        if not ctx.check(bool(adds), "add-site:" + fkey(b), "re-insert site found in %s" % short(fid), "no re-insert site found in %s" % short(fid), where_of(b)):
            continue
        sub_true = []
        stale_tests = []
        for e, cond in all_cond_edges(b):
            if cond[0] != "true":
                continue
            r = strip_role(cond[1])
            if not (isinstance(r, tuple) and r[0] == "call" and r[1] in ("is_subset", "is_superset") and len(r[3]) == 2):
                continue
            small, big = (r[3][0], r[3][1]) if r[1] == "is_subset" else (r[3][1], r[3][0])
            cls_side = mir.role_mentions_call(small, "slots") and (mir.role_mentions_call(small, "find_applied_id") or mir.role_mentions_call(small, "mk_sem_identity_applied_id") or mir.role_mentions_call(small, "mk_syn_identity_applied_id"))
            node_side = mir.role_mentions_call(big, "slots") and (mir.role_mentions_call(big, "find_enode") or mir.role_mentions_call(big, "apply_slotmap"))
            if cls_side and node_side:
                sub_true.append(e)
                stale_tests.append((e, big, small))
        shrink_calls = {c.bb for c in b.calls if c.callee and c.callee.target in reaches_sw and not b.blocks[c.bb]["cleanup"]}
        ctx.check(bool(sub_true), "subset-test:" + fkey(b), "%s tests slots(class invocation) ⊆ slots(re-canonicalised node)" % short(fid),
                  "%s has no test `slots(class invocation).is_subset(slots(re-canonicalised node))`: whether the class must shrink is decided by something weaker than set inclusion (a count comparison misses nodes that carry redundant slots of their own)" % short(fid), where_of(b))
        ctx.check(bool(shrink_calls), "shrink-call:" + fkey(b), "%s can shrink the class (calls into the slot-set writer)" % short(fid),
                  "%s never reaches the slot-set writer: a class whose node lost a slot is never shrunk" % short(fid), where_of(b))
        # when the test is evaluated again after a shrink (`while !subset { shrink }`), it looks at the node and the invocation as
        # they are AFTER that shrink: both operands are re-canonicalised inside the loop (a phi of the value before the loop and
        # the value refreshed in it).  Testing the node as it was before the first shrink never sees that a node which refers to
        # its own class shrank with it
        for e, big, small in stale_tests:
            sb_ = e[1]
            loop_shrinks = [x for x in shrink_calls if sb_ in b.reach(b.after(x)) and x in b.reach([sb_])]
            if not loop_shrinks:
                continue
            def refreshed(r_):
                return any(isinstance(x, tuple) and x[0] == "phi" for x in role_walk(r_)) or any(isinstance(x, tuple) and x[0] == "cycle" for x in role_walk(r_)) or "cycle:" in role_str(r_, 30)
            ctx.check(refreshed(big), "inclusion-test-sees-refreshed-node:" + fkey(b), "the subset test that is repeated after a shrink looks at the e-node re-canonicalised after that shrink",
                      "%s repeats `slots(class) ⊆ slots(node)` after a shrink but the node side of the test is the e-node as it was BEFORE the first shrink (it is not re-canonicalised inside the loop): an e-node that refers to its own class loses the slot together with the class, the loop ends believing the inclusion holds, and the class keeps a slot this node lacks" % short(fid),
                      where_of(b, sb_))
        for c in adds:
            ok = b.must_pass([0], {c.bb}, set(sub_true) | shrink_calls)
            ctx.check(ok, "inclusion-before-insert:" + fkey(b), "every path to the re-insert in %s passes the subset test's true edge or the shrink" % short(fid),
                      "%s can put the e-node back into its class on a path where neither `slots(class) ⊆ slots(node)` was tested true nor the class was shrunk: the class keeps a slot that none of its nodes mentions (extraction then returns a term outside the class, look-ups of it miss)" % short(fid), where_of(b, c.bb))
            # one shrink does not establish the inclusion: when the e-node refers to its OWN class with shifted slots
            # (union(t, f(t·π))), shrinking the class also shrinks the node, and the class can again have a slot the node lacks.
            # The inclusion has to be *tested true* after the last shrink (`while !subset { shrink }`), not assumed.
            ok2 = b.must_pass([0], {c.bb}, set(sub_true))
            ctx.check(ok2, "inclusion-tested-after-shrink:" + fkey(b), "in %s the re-insert is reached only through the true edge of slots(class) ⊆ slots(node)" % short(fid),
                      "%s re-inserts the e-node after ONE shrink without testing slots(class) ⊆ slots(node) again: for an e-node that refers to its own class with shifted slots (t($0,$1,$2) = neg(t($1,$2,$3))) the shrink also shrinks the node, the inclusion is false again, and the total composition a few lines later fails its assertion — a plain union panics in the build with internal checks (the default build stores, for a moment, an e-node that lacks a slot of its class)" % short(fid),
                      where_of(b, c.bb))


# ---------------------------------------------------------------------------- "for all elements: pred" recognisers
def const_bool(rv):
    """True/False if the rvalue is the constant bool, else None"""
    if rv.get("k") == "use" and rv["op"].get("k") == "const":
        op = rv["op"]
        if op.get("ty") == "bool":
            if op.get("text") == "true" or op.get("int") == "1":
                return True
            if op.get("text") == "false" or op.get("int") == "0":
                return False
    return None


def is_forall_role(crate, role, pred_name, over=()):
    """the boolean role means `every element satisfies <pred_name>`:
       * iter.all(|x| .. pred_name(..) ..)
       * f(..) for a crate-local f that is a loop returning false at the first element failing pred_name and true
         only when the iterator is exhausted
    `over`: call names one of which the iterated collection must mention (e.g. ids)"""
    r = strip_role(role)
    if not (isinstance(r, tuple) and r[0] == "call"):
        return False
    if r[1] == "all" and len(r[3]) == 2:
        if over and not any(mir.role_mentions_call(r[3][0], o) for o in over):
            return False
        cl = strip_role(r[3][1])
        if cl[0] == "agg" and cl[1] in crate.bodies:
            cb = crate.bodies[cl[1]]
            ret = cb.role_of_local(0)
            # the closure's value is the predicate itself (not its negation, not a disjunction with something else)
            sr = strip_role(ret)
            return isinstance(sr, tuple) and sr[0] == "call" and sr[1] == pred_name
        return False
    # crate-local helper
    cands = [b for b in crate.by_name.get(r[1], []) if b.kind != "Closure"]
    for f in cands:
        f = unwrap_delegation(crate, f)
        loops = [lp for lp in iterator_loops(f) if not over or any(mir.role_mentions_call(lp[1], o) for o in over)]
        if len(loops) != 1:
            continue
        sb, it, none_e, some_e, cs = loops[0]
        ok = True
        seen_true = seen_false = False
        for d in f.defs().get(0, []):
            if d["kind"] != "assign":
                ok = False
                break
            v = const_bool(d["rv"])
            if v is True:
                seen_true = True
                ok = ok and f.dominated_by(d["bb"], none_e)
            elif v is False:
                seen_false = True
                conds = [c for e, c in conditions_at(f, d["bb"]) if c[0] == "false" and isinstance(strip_role(c[1]), tuple) and strip_role(c[1])[0] == "call" and strip_role(c[1])[1] == pred_name]
                ok = ok and bool(conds)
            else:
                ok = False
        if ok and seen_true and seen_false:
            return True
    return False


def is_forall_flag(crate, body, sb, pred_name, over=()):
    """the switch at block sb tests a boolean flag that means `every element satisfies <pred_name>`:
         let mut flag = true; for x in <over> { if !pred(x) { flag = false; break } }
    Returns the truth value of the flag that stands for 'all satisfy' (True) or None."""
    t = body.blocks[sb]["term"]
    pl = mir.op_place(t["discr"])
    if pl is None or pl["p"]:
        return None
    l = pl["l"]
    defs = body.defs()
    for _ in range(6):
        ds = defs.get(l, [])
        if len(ds) == 1 and ds[0]["kind"] == "assign" and ds[0]["rv"]["k"] == "use" and ds[0]["rv"]["op"].get("k") in ("copy", "move") and not ds[0]["rv"]["op"]["pl"]["p"]:
            l = ds[0]["rv"]["op"]["pl"]["l"]
        else:
            break
    ds = defs.get(l, [])
    if not ds or any(d["kind"] != "assign" for d in ds):
        return None
    vals = [(const_bool(d["rv"]), d) for d in ds]
    if any(v is None for v, _ in vals) or {v for v, _ in vals} != {True, False}:
        return None
    loops = [lp for lp in iterator_loops(body) if not over or any(mir.role_mentions_call(lp[1], o) for o in over)]
    for lp in loops:
        inside = loop_body(body, lp) | body.reach(lp[3], avoid=set(lp[2]))
        ok = True
        for v, d in vals:
            if v is False:
                conds = [c for e, c in conditions_at(body, d["bb"]) if c[0] == "false" and isinstance(strip_role(c[1]), tuple) and strip_role(c[1])[0] == "call" and strip_role(c[1])[1] == pred_name]
                ok = ok and bool(conds) and d["bb"] in inside
            else:
                ok = ok and d["bb"] not in loop_body(body, lp)
        if ok:
            return True
    return None


# ---------------------------------------------------------------------------- iterator-adaptor chains
PASS_ADAPTORS = {"into_iter", "iter", "iter_mut", "cloned", "copied", "by_ref", "deref", "as_slice", "borrow", "as_ref", "to_vec", "clone", "into_values", "values", "keys", "enumerate", "zip", "rev_NOT"}
SINKS = {"collect", "for_each", "extend", "sum", "count", "fold", "try_for_each", "last", "max", "min", "unzip", "partition"}


def adaptor_chains(body, source_name):
    """adaptor chains that start at a call `source_name(..)` and end in a consumer (collect / for_each / extend(.., chain) ..):
    [{'sink': CallSite, 'source': role of the source call, 'adaptors': [(name, closure Body | fn name | None)]}] (adaptors
    listed from the source outwards)"""
    crate = body.crate
    out = []
    for c in body.calls:
        if body.blocks[c.bb]["cleanup"] or not c.callee or c.callee.name not in SINKS or not c.args:
            continue
        # for_each / try_for_each / fold: the closure argument is itself the last "adaptor"
        tail = []
        args = [body.role_of_operand(a) for a in c.args]
        recv = args[0]
        if c.callee.name == "extend" and len(args) > 1:
            recv = args[1]
        elif c.callee.name in ("for_each", "try_for_each", "fold") and len(args) > 1:
            tail = [(c.callee.name, _closure_of_role(crate, args[-1]))]
        chain = []
        r = strip_role(recv)
        src = None
        while isinstance(r, tuple) and r[0] == "call" and r[3]:
            if r[1] == source_name:
                src = r
                break
            chain.append((r[1], _closure_of_role(crate, r[3][1]) if len(r[3]) > 1 else None))
            r = strip_role(r[3][0])
        if src is None:
            continue
        chain.reverse()
        out.append({"sink": c, "source": src, "adaptors": chain + tail})
    return out


def _closure_of_role(crate, r):
    r = strip_role(r)
    if isinstance(r, tuple) and r[0] == "agg" and isinstance(r[1], str) and r[1] in crate.bodies:
        return crate.bodies[r[1]]
    if isinstance(r, tuple) and r[0] == "fnconst":
        return str(r[1])
    return None


def result_sinks(b, out_param):
    """call sites that add to the function's result collection: extend/push/append on the `&mut Vec` out-parameter, or on
    the local collection the function returns"""
    rets = [strip_role(b.role_of_local(0))]
    for d in b.defs().get(0, []):          # a function with several arms returns a different collection in each
        if d["kind"] == "assign":
            rets.append(strip_role(b.role_of_rvalue(d["rv"])))
    rets = [r for r in rets if isinstance(r, tuple) and r[0] == "call" and r[1] in ("new", "default", "with_capacity")]
    out = []
    for c in b.calls:
        if b.blocks[c.bb]["cleanup"] or not c.callee or c.callee.name not in ("extend", "push", "append", "extend_from_slice") or not c.args:
            continue
        r = strip_role(b.role_of_operand(c.args[0]))
        if r == ("param", out_param) or r in rets:
            out.append(c)
    return out


# ---------------------------------------------------------------------------- must-call census
def _mc_key(b):
    return "%s::%s" % (b.file, b.name)


def _direct_must_calls(crate, b):
    """[(name, target id or None)] of the weighty crate-local calls on every path from the entry of b to a normal return"""
    key = ("dmc", b.id, id(b) if hasattr(b, "origin") else 0)      # (an inline view shares its id with the body it was made from)
    if key in crate._cache:
        return crate._cache[key]
    rets = b.return_blocks()
    out = []
    if rets:
        mods = crate._cache.get("crate_modules")
        if mods is None:
            mods = crate._cache["crate_modules"] = {re.sub(r"^<+", "", bid).split("::")[0].split(" ")[0] for bid in crate.bodies if not bid.startswith("<std") and not bid.startswith("<core")} - {"std", "core", "alloc"}
        for c in b.calls:
            if b.blocks[c.bb]["cleanup"] or not c.callee:
                continue
            tgt = None
            if c.callee.target in crate.bodies:
                t = crate.bodies[c.callee.target]
                if t.kind == "Closure" or t.auto_derived or not (t.file or "").startswith("src/") or not t.name:
                    continue
                nm, tgt = t.name, t
            else:
                # a method of one of the library's own traits, dispatched on a type parameter (`N::make`, `L::weak_shape`)
                tr = c.callee.trait or ""
                if not tr or tr.split("::")[0] not in mods or tr.startswith("std::") or tr.startswith("core::"):
                    continue
                nm = c.callee.name
            if b.must_pass([0], rets, {c.bb}):
                out.append((nm, tgt))
    crate._cache[key] = out
    return out


def _weighty(t):
    """the callee can change something (&mut parameter) or does real work (not a small read-only accessor such as iter / ids /
    len, which a refactoring replaces by an equivalent without a second thought)"""
    live = sum(1 for bl in t.blocks if not bl["cleanup"])
    return live >= 10 or any(t.local_ty(l).startswith("&mut") for l in range(1, t.argc + 1))


def must_calls(crate, b, weighty_only=True):
    """names of the weighty crate-local functions that run on every path from the entry of b to a normal return — directly or
    inside a callee that itself runs on every path (transitive, so splitting a function into helpers or folding a helper back
    does not change the set)"""
    if not b.return_blocks():
        return None
    out = set()
    seen = set()
    work = [b]
    while work:
        f = work.pop()
        if f.id in seen:
            continue
        seen.add(f.id)
        for nm, t in _direct_must_calls(crate, f):
            if t is None or not weighty_only or _weighty(t):
                out.add(nm)
            if t is not None:
                work.append(t)
    out.discard(b.name)
    return out


def must_call_table(crate):
    per = {}
    for b in crate.fns():
        if b.kind == "Closure" or b.auto_derived or not (b.file or "").startswith("src/") or not b.name or (b.file or "").endswith("tst.rs"):
            continue
        per.setdefault(_mc_key(b), []).append(b)
    tab = {}
    for k, bs in per.items():
        if len(bs) != 1:
            continue
        m = must_calls(crate, bs[0])
        if m:
            tab[k] = sorted(m)
    return tab


_MUSTCALL = None


def _guard_moved_in(crate, b, ref, ctx):
    """b has gained an early exit.  Legitimate in one shape: b is a private function with a single call site, that call site sits in
    a loop of its caller, in the reviewed tree an iteration of that loop did NOT always reach the call (it was skipped under some
    test) and now every iteration does — the skip test of the caller became the early return of the callee."""
    if b.vis == "pub" or b.kind == "Closure" or not _weighty(b):      # (only weighty callees are recorded in the loop table)
        return False
    sites = [(g, c) for g in crate.bodies.values() for c in g.calls if c.callee and c.callee.target == b.id and not g.blocks[c.bb]["cleanup"] and g.id != b.id]
    if len(sites) != 1:
        return False
    g, c = sites[0]
    g = crate.root_of(g)
    if g.kind == "Closure" or not g.name:
        return False
    lref = (_MUSTCALL or {}).get("loops:" + (ctx.cur_cfg or "default")) or (_MUSTCALL or {}).get("loops:default") or {}
    gk = _mc_key(g)
    alias = getattr(crate, "aliases", {}).get(b.id) or b.name
    now = loop_must_calls(crate, g)
    for lk, names in now.items():
        if any(t is not None and t.id == b.id for nm, t in names):
            was = lref.get("%s@%s" % (gk, lk), [])
            if alias not in was and alias not in (ref.get(gk) or []):
                return True
    return False


def must_call_census(ctx, crate, files):
    """MC: a function of `files` still calls, on every path to a normal return, each function it called on every path in the
    reviewed tree (mustcall.json).  Functions that no longer exist (folded into their callers) put no obligation."""
    global _MUSTCALL
    import json as _json, os as _os
    if _MUSTCALL is None:
        try:
            _MUSTCALL = _json.load(open(_os.path.join(_os.path.dirname(_os.path.dirname(_os.path.abspath(__file__))), "mustcall.json")))
        except Exception:
            _MUSTCALL = {}
    ref = _MUSTCALL.get(ctx.cur_cfg or "default") or _MUSTCALL.get("default") or {}
    if not ref:
        raise AnchorMissing("mustcall.json", "no reference table")
    names_now = {b.name for b in crate.fns() if b.name} | set(getattr(crate, "aliases", {}).values()) | {c.callee.name for b in crate.fns() for c in b.calls if c.callee and c.callee.target not in crate.bodies}
    by_key = {}
    by_name = {}
    for b in crate.fns():
        if b.kind == "Closure" or not b.name:
            continue
        by_key.setdefault(_mc_key(b), []).append(b)
        by_name.setdefault(b.name, []).append(b)
    n = 0
    for k, want in sorted(ref.items()):
        f, name = k.rsplit("::", 1)
        if f not in files or f.endswith("/check.rs"):       # (check.rs is the debug invariant checker: not part of any property's mechanism)
            continue
        bs = by_key.get(k)
        if not bs:
            # moved to another file / renamed (alias): found by (old) name when unique
            bs = by_name.get(name, [])
        if len(bs) != 1:
            continue                    # the function is gone (folded into its callers) or ambiguous: no obligation here
        b = bs[0]
        got = must_calls(crate, b, weighty_only=False)       # (weight is judged on the reviewed tree only)
        if got is None:
            continue
        # a callee steered by a constant flag / enum argument (`add_expr(re) = add_expr_with(re, AddKind::Semantic)`): what it
        # always calls *for that constant* counts — look at the function with such callees spliced in and their dispatch decided
        steered = set()
        for c in b.calls:
            if c.callee and c.callee.target in crate.bodies and c.callee.target != b.id and not b.blocks[c.bb]["cleanup"]:
                for a in c.args:
                    r = strip_role(b.role_of_operand(a))
                    if isinstance(r, tuple) and ((r[0] == "agg" and not r[2] and isinstance(r[1], str) and "::" in r[1]) or (r[0] == "const" and str(r[1]) in ("true", "false"))):
                        steered.add(c.callee.target)
        if steered:
            v = mir.inline_view(crate, b, depth=1, policy=steered, keep=())
            if v is not b:
                seen_ = set()
                work_ = []
                for nm_, t_ in _direct_must_calls(crate, v):
                    got.add(nm_)
                    if t_ is not None:
                        work_.append(t_)
                while work_:
                    f_ = work_.pop()
                    if f_.id in seen_:
                        continue
                    seen_.add(f_.id)
                    got |= (must_calls(crate, f_, weighty_only=False) or set())
        # report a lost call where it was lost: not again in every function that always calls that one
        inherited = set()
        for nm_, t_ in _direct_must_calls(crate, b):
            if t_ is not None and t_.name:
                rk = ref.get(_mc_key(t_))
                if rk:
                    g2 = must_calls(crate, t_, weighty_only=False) or set()
                    inherited |= {w for w in rk if w not in g2}
        # a callee that no longer exists (folded into its callers) cannot be missed
        n += 1
        lost = [w for w in want if w in names_now and w != name and w not in inherited and w not in got]
        if lost and _guard_moved_in(crate, b, ref, ctx):
            ctx.ok("early-exit:%s:guard-moved-in" % fkey(b), "%s returns early where its only caller used to skip the call: the guard moved from the call site into the function" % short(b.id))
            continue
        for w in want:
            if w not in names_now or w == name or w in inherited:
                continue
            ctx.check(w in got, "early-exit:%s:%s" % (fkey(b), w), "%s still calls %s on every path to a normal return" % (short(b.id), w),
                      "%s can now return normally without calling %s, which every path through it called in the reviewed tree: an early exit / fast path was put in front of work this function always did" % (short(b.id), w),
                      where_of(b))
    ctx.floor("functions compared with the must-call table", n, 1)
    loop_must_call_census(ctx, crate, files)
    closure_must_call_census(ctx, crate, files)
    co_exec_census(ctx, crate, files)
    return_census(ctx, crate, files)
    ghost_census(ctx, crate, files)


def self_symmetry_sites(crate):
    """[(root function, call site of Group::add on a class's group)] outside the leader union and the slot-set writers.  The
    root is the innermost function that (with its single-use helpers spliced in) both enumerates group-compatible variants and
    adds to a class group: a helper holding only the tail of the loop (add_self_symmetry) is seen through its caller, and a
    caller that merely absorbs the whole deriver (handle_pending, rebuild) is not taken for it"""
    key = "self_symmetry_sites"
    if key in crate._cache:
        return crate._cache[key]
    sw = set(slot_writers(crate))
    leaders = set(leader_union_functions(crate)) | set(leader_helpers(crate))
    cands = {}
    for b in crate.fns():
        if b.id in leaders or b.id in sw:
            continue
        v = mir.inline_view(crate, b, keep=tuple(sorted(leaders | sw)))
        adds = [c for c in v.all_calls() if c.callee and c.callee.is_("add", "group::Group") and c.args and mir.role_mentions_field(c.body.role_of_operand(c.args[0]), "classes") and not c.body.blocks[c.bb]["cleanup"]]
        if not adds:
            continue
        has_var = any(c.callee and "variants" in (c.callee.name or "") for c in v.all_calls())
        cands[b.id] = (b, v, adds, has_var)
    full = {k for k, x in cands.items() if x[3]} or set(cands)
    # drop outer wrappers: a candidate whose view spliced in another full candidate
    inner = {k for k in full if not any(o in getattr(cands[k][1], "inlined", []) for o in full if o != k)}
    out = []
    for k in sorted(inner):
        b, v, adds, _ = cands[k]
        for c in adds:
            out.append((b, c))
    crate._cache[key] = out
    return out


# ---------------------------------------------------------------------------- per-iteration must-call census
def loop_must_calls(crate, b):
    """{loop key: names} — for every iterator-driven loop of b (raw body), the weighty crate-local calls that lie on EVERY path
    through one iteration (from the Some-edge of next() back to the next() call; paths that leave the loop do not count).
    The key names the loop by what it iterates (`<source call>#k`), not by position."""
    out = {}
    seen = {}
    raw = []
    for lp in iterator_loops(b):
        sb_, it, none_e, some_e, cs_ = lp
        if cs_ is None:
            continue
        head = cs_.bb
        src = None
        for x in role_walk(it):
            if isinstance(x, tuple) and x[0] == "call" and x[1] not in PASS_ADAPTORS and x[1] not in ("next", "into_iter", "iter", "iter_mut", "enumerate", "zip", "clone", "cloned", "deref"):
                src = x[1]
                break
        if src is None:
            continue
        k = seen.get(src, 0)
        seen[src] = k + 1
        body = b.reach(some_e, avoid=set(none_e))
        names = set()
        for nm, t in []:
            pass
        for c in b.calls:
            if c.bb not in body or b.blocks[c.bb]["cleanup"] or not c.callee or c.bb == head:
                continue
            # an adaptor call that every iteration makes, with a closure that always calls X (`acc.into_iter().flat_map(|a| X(..))`):
            # the inner loop in adaptor form — X is owed zero or more times per outer iteration
            if c.callee.target not in crate.bodies and c.callee.name in ("flat_map", "map", "for_each", "filter_map", "extend", "fold", "try_for_each", "try_fold"):
                if b.must_pass(some_e, {head}, {c.bb}):
                    for a in c.args:
                        for x in role_walk(b.role_of_operand(a)):
                            if isinstance(x, tuple) and x[0] == "agg" and isinstance(x[1], str) and x[1] in crate.bodies and crate.bodies[x[1]].kind == "Closure":
                                for nm_, t_ in _direct_must_calls(crate, crate.bodies[x[1]]):
                                    names.add(("*" + nm_, t_))
            tgt = crate.bodies.get(c.callee.target)
            if tgt is not None:
                if tgt.kind == "Closure" or tgt.auto_derived or not (tgt.file or "").startswith("src/") or not tgt.name:
                    continue
                nm = tgt.name
            else:
                tr = c.callee.trait or ""
                mods = crate._cache.get("crate_modules") or set()
                if not tr or tr.split("::")[0] not in mods:
                    continue
                nm = c.callee.name
            if b.must_pass(some_e, {head}, {c.bb}):
                names.add((nm, tgt))
        out["%s#%d" % (src, k)] = names
        raw.append((lp, "%s#%d" % (src, k), body))
    # an inner loop that every iteration of the outer loop runs through: what each of ITS iterations always calls is owed by the
    # outer iteration too, zero or more times (`*name`) — `for child { for st in acc { .. match(child, st) .. } }`: a `continue` in
    # front of the inner loop skips the child for every accumulated state
    for lp, key, body in raw:
        sb_, it, none_e, some_e, cs_ = lp
        for lp2, key2, body2 in raw:
            if lp2 is lp or lp2[0] not in body or lp[0] in body2 and len(body2) >= len(body):
                continue
            if b.must_pass(some_e, {cs_.bb}, {lp2[0]}):
                out[key] = set(out[key]) | {("*" + nm, tgt) for nm, tgt in out.get(key2, ()) if not nm.startswith("*")}
    return out


def loop_must_call_table(crate):
    _direct_must_calls(crate, next(iter(crate.fns())))      # initialises crate_modules
    per = {}
    for b in crate.fns():
        if b.kind == "Closure" or b.auto_derived or not (b.file or "").startswith("src/") or not b.name or (b.file or "").endswith("tst.rs") or (b.file or "").endswith("/check.rs"):
            continue
        per.setdefault(_mc_key(b), []).append(b)
    tab = {}
    for k, bs in per.items():
        if len(bs) != 1:
            continue
        for lk, names in loop_must_calls(crate, bs[0]).items():
            w = sorted({nm for nm, t in names if t is None or _weighty(t)})
            if w:
                tab["%s@%s" % (k, lk)] = w
    return tab


def closure_must_calls(crate, f):
    """{name: (number of closures of f in which the weighty crate-local function `name` runs on every path to a normal return,
    number of closures of f that call it at all)}"""
    must, anyc = {}, {}
    for cb in f.all_bodies():
        if cb is f or cb.kind != "Closure":
            continue
        for nm, t in set((nm_, t_) for nm_, t_ in _direct_must_calls(crate, cb)):
            must.setdefault(nm, [0, t])[0] += 1
        names_here = set()
        for c in cb.calls:
            if cb.blocks[c.bb]["cleanup"] or not c.callee:
                continue
            t = crate.bodies.get(c.callee.target)
            if t is not None and t.name and t.kind != "Closure":
                names_here.add(t.name)
        for nm in names_here:
            anyc[nm] = anyc.get(nm, 0) + 1
    return must, anyc


def closure_must_call_table(crate):
    _direct_must_calls(crate, next(iter(crate.fns())))
    per = {}
    for b in crate.fns():
        if b.kind == "Closure" or b.auto_derived or not (b.file or "").startswith("src/") or not b.name or (b.file or "").endswith("tst.rs") or (b.file or "").endswith("/check.rs"):
            continue
        per.setdefault(_mc_key(b), []).append(b)
    tab = {}
    for k, bs in per.items():
        if len(bs) != 1:
            continue
        must, _ = closure_must_calls(crate, bs[0])
        w = {nm: n for nm, (n, t) in must.items() if t is None or _weighty(t)}
        if w:
            tab[k] = w
    return tab


def closure_must_call_census(ctx, crate, files):
    """CMC: MC for the closures of a function.  A weighty call that ran on every path of k closures of f in the reviewed tree still
    does so in k closures — unless fewer closures of f call it at all (a closure turned into a loop or a helper puts no obligation).
    `|x| { if let Some(hit) = memo.get(..) { return hit } ..; find(x) }`: the per-element step gained a path that skips its work."""
    ref = (_MUSTCALL or {}).get("clos:" + (ctx.cur_cfg or "default")) or (_MUSTCALL or {}).get("clos:default") or {}
    if not ref:
        raise AnchorMissing("mustcall.json", "no closure table")
    by_key, by_name = {}, {}
    for b in crate.fns():
        if b.kind == "Closure" or not b.name:
            continue
        by_key.setdefault(_mc_key(b), []).append(b)
        by_name.setdefault(b.name, []).append(b)
    n = 0
    for k, want in sorted(ref.items()):
        f, name = k.rsplit("::", 1)
        if f not in files:
            continue
        bs = by_key.get(k) or by_name.get(name, [])
        if len(bs) != 1:
            continue
        b = bs[0]
        must, anyc = closure_must_calls(crate, b)
        for w, cnt in sorted(want.items()):
            n += 1
            now = must.get(w, [0, None])[0]
            calling = anyc.get(w, 0)
            ctx.check(now >= min(cnt, calling), "closure-early-exit:%s:%s" % (fkey(b), w), "the closures of %s that always called %s still do (%d)" % (short(b.id), w, now),
                      "a closure of %s calls %s on some of its paths only (%d closure(s) call it, it runs on every path of %d; in the reviewed tree of %d): the per-element step has gained an early exit / cached answer in front of work it always did" % (short(b.id), w, calling, now, cnt),
                      where_of(b))
    ctx.info("closure must-call pairs compared: %d" % n)


def loop_must_call_census(ctx, crate, files):
    """LMC: an iteration of a loop still makes, on every path that goes on to the next element, each weighty call it made on every
    such path in the reviewed tree: no new `continue` in front of the loop's work."""
    global _MUSTCALL
    import json as _json, os as _os
    if _MUSTCALL is None:
        try:
            _MUSTCALL = _json.load(open(_os.path.join(_os.path.dirname(_os.path.dirname(_os.path.abspath(__file__))), "mustcall.json")))
        except Exception:
            _MUSTCALL = {}
    ref = _MUSTCALL.get("loops:" + (ctx.cur_cfg or "default")) or _MUSTCALL.get("loops:default") or {}
    if not ref:
        raise AnchorMissing("mustcall.json", "no loop table")
    _direct_must_calls(crate, next(iter(crate.fns())))
    names_now = {b.name for b in crate.fns() if b.name} | set(getattr(crate, "aliases", {}).values()) | {c.callee.name for b in crate.fns() for c in b.calls if c.callee and c.callee.target not in crate.bodies}
    by_key, by_name = {}, {}
    for b in crate.fns():
        if b.kind == "Closure" or not b.name:
            continue
        by_key.setdefault(_mc_key(b), []).append(b)
        by_name.setdefault(b.name, []).append(b)
    n = 0
    cache = {}
    for k, want in sorted(ref.items()):
        fk, lk = k.rsplit("@", 1)
        f, name = fk.rsplit("::", 1)
        if f not in files:
            continue
        bs = by_key.get(fk) or by_name.get(name, [])
        if len(bs) != 1:
            continue
        b = bs[0]
        if b.id not in cache:
            cache[b.id] = loop_must_calls(crate, b)
        cur = cache[b.id]
        if lk not in cur:
            continue            # the loop is gone (rewritten as an adaptor chain, moved into a helper): no obligation here
        n += 1
        got = {nm for nm, t in cur[lk]}
        # a loop-invariant call hoisted in front of the loop is still made
        got |= (must_calls(crate, b, weighty_only=False) or set())
        # calls made inside a callee that is itself always called count as well
        for nm, t in cur[lk]:
            if t is not None:
                got |= (must_calls(crate, t, weighty_only=False) or set())
        for w in want:
            if w.lstrip("*") not in names_now or w.lstrip("*") == name:
                continue
            if w.startswith("*") and w[1:] in got:
                continue        # (the inner loop was flattened: the call is now made directly on every iteration)
            ctx.check(w in got, "skipped-iteration:%s:%s:%s" % (fkey(b), lk, w), "every iteration of the loop over %s in %s still calls %s" % (lk, short(b.id), w),
                      "an iteration of the loop over %s in %s can now go on to the next element without calling %s, which every iteration did in the reviewed tree: a `continue` / guard was put in front of the loop's work, so some elements are skipped" % (lk, short(b.id), w),
                      where_of(b))
    # (no floor: loops come and go with refactorings — a loop that is gone puts no obligation)
    ctx.info("loops compared with the per-iteration must-call table: %d" % n)


# ---------------------------------------------------------------------------- data slice of an operand inside one body
def local_slice(b, op, max_defs=200):
    """definitions (as returned by Body.defs(), each with its block) that feed operand `op` through locals of b: copies, binary /
    unary operations, casts, references, aggregates and call results (the slice stops at a call: its arguments are not followed)"""
    d = b.defs()
    out, seen, work = [], set(), []
    pl = mir.op_place(op)
    if pl is not None:
        work.append(pl["l"])
    while work and len(out) < max_defs:
        l = work.pop()
        if l in seen:
            continue
        seen.add(l)
        for df in d.get(l, []):
            out.append(df)
            if df["kind"] != "assign":
                continue
            rv = df["rv"]
            ops = []
            k = rv["k"]
            if k in ("use", "cast", "repeat"):
                ops = [rv["op"]]
            elif k == "bin":
                ops = [rv["a"], rv["b"]]
            elif k == "un":
                ops = [rv["a"]]
            elif k == "agg":
                ops = list(rv["ops"])
            elif k in ("ref", "discr", "rawptr"):
                work.append(rv["pl"]["l"])
            for o in ops:
                p2 = mir.op_place(o)
                if p2 is not None:
                    work.append(p2["l"])
    return out


# ---------------------------------------------------------------------------- co-execution census
def _local_call(crate, b, c):
    """(name, target body or None) when call site c of b is a call of a named library function (or of a method of one of the
    library's own traits dispatched on a type parameter), else None"""
    if b.blocks[c.bb]["cleanup"] or not c.callee:
        return None
    if c.callee.target in crate.bodies:
        t = crate.bodies[c.callee.target]
        if t.kind == "Closure" or t.auto_derived or not (t.file or "").startswith("src/") or not t.name:
            return None
        return t.name, t
    mods = crate._cache.get("crate_modules")
    if mods is None:
        _direct_must_calls(crate, next(iter(crate.fns())))
        mods = crate._cache.get("crate_modules") or set()
    tr = c.callee.trait or ""
    if not tr or tr.split("::")[0] not in mods or tr.startswith("std::") or tr.startswith("core::"):
        return None
    return c.callee.name, None


def co_exec(crate, b, weighty_only=True, direct_only=False):
    """{X: {Y}} over the named library functions called directly in b (raw body): every path from the entry of b to a normal
    return that goes through a call of X also goes through a call of Y — made directly, or inside a direct callee that makes it
    on all its paths.  (Unordered: Y may come before or after X, so swapping two independent statements changes nothing.)"""
    rets = b.return_blocks()
    if not rets:
        return {}
    sites = {}
    provides = {}          # Y -> blocks in which Y is certainly executed
    ghost = b.ghost_blocks()[0]
    for c in b.calls:
        lc = _local_call(crate, b, c)
        if lc is None or c.bb in ghost:
            continue
        nm, t = lc
        sites.setdefault(nm, []).append((c.bb, t))
        provides.setdefault(nm, set()).add(c.bb)
        if t is not None and not direct_only:
            for y in (must_calls(crate, t, weighty_only=False) or ()):
                provides.setdefault(y, set()).add(c.bb)
    out = {}
    wt = {}
    def weighty_name(nm):
        if nm not in wt:
            ts = [t for t in crate.by_name.get(nm, []) if t.kind != "Closure"]
            wt[nm] = (not ts) or any(_weighty(t) for t in ts)
        return wt[nm]
    for x, xs in sites.items():
        if weighty_only and not weighty_name(x):
            continue
        for y, yb in provides.items():
            if y == x or y == b.name or (weighty_only and not weighty_name(y)):
                continue
            if all(bbx in yb or b.must_pass([0], [bbx], yb) or b.must_pass(b.after(bbx), rets, yb) for bbx, _ in xs):
                out.setdefault(x, set()).add(y)
    return out


def co_exec_table(crate):
    per = {}
    for b in crate.fns():
        if b.kind == "Closure" or b.auto_derived or not (b.file or "").startswith("src/") or not b.name or (b.file or "").endswith("tst.rs") or (b.file or "").endswith("/check.rs"):
            continue
        per.setdefault(_mc_key(b), []).append(b)
    tab = {}
    for k, bs in per.items():
        if len(bs) != 1:
            continue
        b = bs[0]
        always = must_calls(crate, b, weighty_only=False) or set()
        def unique(nm):
            # (a name shared by several functions of the library — new, insert, compose, check .. — says too little)
            return len([t for t in crate.by_name.get(nm, []) if t.kind != "Closure" and (t.file or "").startswith("src/")]) <= 1
        def mutating(nm):
            ts = [t for t in crate.by_name.get(nm, []) if t.kind != "Closure"]
            return len(ts) == 1 and any(ts[0].local_ty(l).startswith("&mut") for l in range(1, ts[0].argc + 1))
        for x, ys in co_exec(crate, b, direct_only=True).items():
            # (Y as well is a step that changes something: a read-only companion is typically the test that guards X, and a guard
            #  may be replaced by an equivalent one — `if !g.contains(p) { g.add(p) }` by `if g.add(p)`)
            ys = sorted(y for y in ys if y not in always and unique(y) and mutating(y))       # (what runs on every path anyway is the must-call census' business)
            # X is a step that changes something (a callee with a &mut parameter): a read-only call may be hoisted out of a loop
            # or shared between branches by a refactoring, which changes what accompanies it
            xt = [t for t in crate.by_name.get(x, []) if t.kind != "Closure"]
            if not (len(xt) == 1 and any(xt[0].local_ty(l).startswith("&mut") for l in range(1, xt[0].argc + 1))):
                continue
            if ys and x not in always and unique(x):
                tab["%s@%s" % (k, x)] = ys
    return tab


def co_exec_census(ctx, crate, files):
    """CC: wherever a function of `files` calls X, it still also calls — on every path through that call — each function Y that
    accompanied X on every such path in the reviewed tree (mustcall.json, tables `co:<cfg>`): the follow-up work of a step
    (allocate -> hand to the congruence step -> rebuild; take out -> put back) was not put behind a new condition or dropped."""
    global _MUSTCALL
    import json as _json, os as _os
    if _MUSTCALL is None:
        try:
            _MUSTCALL = _json.load(open(_os.path.join(_os.path.dirname(_os.path.dirname(_os.path.abspath(__file__))), "mustcall.json")))
        except Exception:
            _MUSTCALL = {}
    ref = _MUSTCALL.get("co:" + (ctx.cur_cfg or "default")) or _MUSTCALL.get("co:default") or {}
    if not ref:
        raise AnchorMissing("mustcall.json", "no co-execution table")
    names_now = {b.name for b in crate.fns() if b.name} | set(getattr(crate, "aliases", {}).values()) | {c.callee.name for b in crate.fns() for c in b.calls if c.callee and c.callee.target not in crate.bodies}
    by_key, by_name = {}, {}
    for b in crate.fns():
        if b.kind == "Closure" or not b.name:
            continue
        by_key.setdefault(_mc_key(b), []).append(b)
        by_name.setdefault(b.name, []).append(b)
    cache = {}
    n = 0
    for k, want in sorted(ref.items()):
        fk, x = k.rsplit("@", 1)
        f, name = fk.rsplit("::", 1)
        if f not in files:
            continue
        bs = by_key.get(fk) or by_name.get(name, [])
        if len(bs) != 1:
            continue
        b = bs[0]
        if b.id not in cache:
            cache[b.id] = co_exec(crate, b, weighty_only=False)
        cur = cache[b.id]
        if x not in cur and not any(_local_call(crate, b, c) and _local_call(crate, b, c)[0] == x for c in b.calls):
            continue            # the function no longer makes this call itself (moved into a helper / folded away): no obligation
        n += 1
        got = cur.get(x, set()) | (must_calls(crate, b, weighty_only=False) or set())
        for y in want:
            if y not in names_now or y == name:
                continue
            ctx.check(y in got, "lost-companion:%s:%s:%s" % (fkey(b), x, y), "in %s a call of %s is still accompanied by %s on every path" % (short(b.id), x, y),
                      "%s can now call %s and return normally without calling %s, which accompanied that call on every path in the reviewed tree: the follow-up of a step was dropped or put behind a new condition" % (short(b.id), x, y),
                      where_of(b))
    ctx.info("call sites compared with the co-execution table: %d" % n)


# ---------------------------------------------------------------------------- census of the code under `if CHECKS`
_GHOST_IGNORE = {"new_display", "new_debug", "new", "new_const", "new_v1", "panic_fmt", "assert_failed", "panic", "fmt", "deref", "clone", "borrow", "as_ref",
                 "into_iter", "iter", "next", "len", "eq", "ne", "unwrap", "expect", "is_some", "is_none", "index", "get", "contains", "contains_key",
                 "collect", "map", "cloned", "to_string", "into", "from", "default", "drop"}


def ghost_calls(crate, b):
    """names of the library functions (and notable std ones) called from blocks that run only under `if CHECKS` in b and its closures"""
    out = {}
    for sub in b.all_bodies():
        g = sub.ghost_blocks()[0]
        for c in sub.calls:
            if c.bb in g and c.callee and c.callee.name and c.callee.name not in _GHOST_IGNORE:
                nm = {"is_superset": "is_subset"}.get(c.callee.name, c.callee.name)      # (a ⊇ b is b ⊆ a)
                out[nm] = out.get(nm, 0) + 1
    return out


def _ghost_sum(crate, bs):
    out = {}
    for b in bs:
        for nm, cnt in ghost_calls(crate, b).items():
            out[nm] = out.get(nm, 0) + cnt
    return out


def ghost_table(crate):
    tab = {}
    per = {}
    for b in crate.fns():
        if b.kind == "Closure" or b.auto_derived or not (b.file or "").startswith("src/") or not b.name or (b.file or "").endswith("tst.rs"):
            continue
        per.setdefault(_mc_key(b), []).append(b)
    for k, bs in per.items():
        g = _ghost_sum(crate, bs)      # (functions of one name in one file — `extract` — are taken together)
        if g:
            tab[k] = dict(sorted(g.items()))      # name -> number of call sites
    return tab


def ghost_census(ctx, crate, files=None):
    """GA: the assertions compiled in by `--features checks` are the reviewed ones.  Each of them is a proof obligation ("this
    always holds") that was checked against the invariants when it was written; the analysis cannot discharge a new one.  A
    function whose `if CHECKS` code calls something it did not call in the reviewed tree has a new or re-worded assertion:
    reported as unreviewed (an assertion that is stricter than the invariant aborts `checks` builds on valid inputs)."""
    global _MUSTCALL
    import json as _json, os as _os
    if _MUSTCALL is None:
        try:
            _MUSTCALL = _json.load(open(_os.path.join(_os.path.dirname(_os.path.dirname(_os.path.abspath(__file__))), "mustcall.json")))
        except Exception:
            _MUSTCALL = {}
    ref = _MUSTCALL.get("ghost:" + (ctx.cur_cfg or "default")) or _MUSTCALL.get("ghost:default")
    if ref is None:
        raise AnchorMissing("mustcall.json", "no table of the calls under `if CHECKS`")
    all_ref = set()
    for v in ref.values():
        all_ref |= set(v)
    by_key, by_name = {}, {}
    for b in crate.fns():
        if b.kind == "Closure" or not b.name or not (b.file or "").startswith("src/") or b.auto_derived:
            continue
        by_key.setdefault(_mc_key(b), []).append(b)
        by_name.setdefault(b.name, []).append(b)
    aliases = getattr(crate, "aliases", {})
    n = 0
    for k, bs in sorted(by_key.items()):
        b = bs[0]
        if files is not None and b.file not in files:
            continue
        g = _ghost_sum(crate, bs)
        if not g:
            continue
        n += 1
        want = set(ref.get(k) or [])
        if not want:
            # moved / renamed function: found under its old name
            for k2, v in ref.items():
                if k2.rsplit("::", 1)[1] == (aliases.get(b.id) or b.name):
                    want |= set(v)
        # assertion code travels with the code around it: extracting a block into a helper moves it to a callee, folding a helper
        # back moves it to the caller — what a direct caller or callee of this function asserted in the reviewed tree *and no
        # longer asserts* (fewer call sites of that name under its `if CHECKS` than it had) may have moved here
        near = {}
        ids = {x.id for x in bs}
        for bx in bs:
            for c in bx.all_calls():
                if c.callee and c.callee.target in crate.bodies:
                    t = crate.bodies[c.callee.target]
                    near[_mc_key(t)] = t
        for b2 in crate.fns():
            if b2.name and b2.kind != "Closure" and any(c.callee and c.callee.target in ids for c in b2.all_calls()):
                near[_mc_key(b2)] = b2
        near.pop(k, None)
        for k2, v in ref.items():
            nb = near.get(k2)
            if nb is None:
                # (a moved / renamed neighbour is found by its reviewed name)
                nb = next((t for kk, t in near.items() if (aliases.get(t.id) or t.name) == k2.rsplit("::", 1)[1] and kk not in ref), None)
            if nb is not None:
                now2 = _ghost_sum(crate, by_key.get(_mc_key(nb), [nb]))
                want |= {x for x, cnt in v.items() if now2.get(x, 0) < cnt}
        # ... and a function of the reviewed tree that no longer exists was folded into its callers: what it asserted may now
        # be asserted by any function of its file
        for k2, v in ref.items():
            f2, n2 = k2.rsplit("::", 1)
            if f2 == b.file and n2 not in by_name and n2 not in set(aliases.values()):
                want |= set(v)
        # a helper the ghost code was split into keeps the names of what it calls; calls of functions that did not exist in the
        # reviewed tree are looked through one level
        known_fns = {kk.rsplit("::", 1)[1] for kk in ref} | all_ref
        new = set()
        # ... and what a reviewed helper that the assertion code called did inside (anchors_calls.json) is reviewed, too: the helper may
        # come back under a new name, as a free function, with `is_superset` for `is_subset`
        ctab = mir._anchor_calls()
        want_inner = set(want)
        for kk, vv in ctab.items():
            if kk.rsplit("::", 1)[1] in want:
                want_inner |= {{"is_superset": "is_subset"}.get(x, x) for x in vv}
        for nm in set(g) - want:
            ts = [t for t in by_name.get(nm, [])]
            if ts and nm not in _anchor_names(crate):
                inner = set()
                for t in ts:
                    inner |= {{"is_superset": "is_subset"}.get(c.callee.name, c.callee.name) for c in t.all_calls() if c.callee and c.callee.name and c.callee.name not in _GHOST_IGNORE}
                new |= {x for x in inner if x not in want_inner}
            else:
                new.add(nm)
        ctx.check(not new, "ghost-census:" + fkey(b), "the `if CHECKS` code of %s calls nothing it did not call in the reviewed tree" % short(b.id),
                  "the code of %s that runs only with `--features checks` now calls %s, which it did not in the reviewed tree: a new or re-worded internal assertion. Every such assertion claims an invariant; one that is stricter than what the library guarantees (exact equality where only equality modulo the class's symmetries holds, ..) aborts assertion builds on valid inputs" % (short(b.id), sorted(new)),
                  where_of(b))
    if files is None:
        ctx.floor("functions with code under `if CHECKS`", n, 5)


def _anchor_names(crate):
    k = "anchor_names_all"
    if k not in crate._cache:
        crate._cache[k] = {kk.rsplit("::", 1)[1] for kk in mir._anchors()}
    return crate._cache[k]


# ---------------------------------------------------------------------------- return-source census
def return_kinds(crate, b):
    """what a function can answer with, by kind: the constants it returns and the reviewed library functions whose result it
    returns as it is (seen through private helpers that did not exist in the reviewed tree)"""
    v = mir.inline_view(crate, b)
    names = _anchor_names(crate)
    out = set()
    my_sig = ([b.local_ty(l) for l in range(1, b.argc + 1)], b.local_ty(0), b.impl_self)

    def sibling(nm):
        """a reviewed function of the same type with the same parameter and return types: another operation that could be asked
        the same question (compose / compose_partial / compose_fresh, union / try_union ..)"""
        for t in crate.by_name.get(nm, []):
            if t.kind != "Closure" and t.id != b.id and ([t.local_ty(l) for l in range(1, t.argc + 1)], t.local_ty(0), t.impl_self) == my_sig:
                return True
        return False

    def classify(r, depth=0):
        r0 = r
        # (keep clone / to_owned transparent, but a call that IS the answer counts)
        r = strip_role(r)
        if not isinstance(r, tuple) or depth > 6:
            return
        if r[0] == "const":
            t = str(r[1])
            # (numeric constants only: `true` / `false` answers come and go with the style a predicate is written in)
            if re.match(r"^-?\d+(_[ui](8|16|32|64|128|size))?$", t):
                out.add("const " + re.sub(r"_(u|i)(8|16|32|64|128|size)$", "", t))
        elif r[0] == "call":
            if r[1] in names and r[1] != b.name and sibling(r[1]):
                out.add("call " + r[1])
        elif r[0] == "phi":
            for a in r[1]:
                classify(a, depth + 1)
        elif r[0] == "agg":
            if isinstance(r[1], str) and r[1].split("::")[-1] in ("None", "Some", "Ok", "Err") and r[2]:
                for a in r[2]:
                    classify(a, depth + 1)
    if b.local_ty(0) == "()":
        return out
    live_defs = [d for d in v.defs().get(0, []) if not v.blocks[d["bb"]]["cleanup"]]
    for d in live_defs:
        if d["kind"] == "assign":
            classify(v.role_of_rvalue(d["rv"]))
        else:
            c = d["call"]
            if c.callee and c.callee.name in names and c.callee.name != b.name and sibling(c.callee.name):
                out.add("call " + c.callee.name)
    if len(live_defs) <= 1:
        # a function whose ONLY answer is another operation's result delegates unconditionally (a wrapper, or a refactoring that
        # prepares the arguments and calls the sibling): no shortcut
        out = {k for k in out if not k.startswith("call ")}
    return out


def return_table(crate):
    per = {}
    for b in crate.fns():
        if b.kind == "Closure" or b.auto_derived or not (b.file or "").startswith("src/") or not b.name or (b.file or "").endswith(("tst.rs", "/check.rs", "debug.rs")):
            continue
        per.setdefault(_mc_key(b), []).append(b)
    tab = {}
    for k, bs in per.items():
        if len(bs) == 1:
            tab[k] = sorted(return_kinds(crate, bs[0]))
    return tab


def return_census(ctx, crate, files):
    """RS: a function answers only with the kinds of value it answered with in the reviewed tree: no new constant answer (`=> 2`,
    `return Vec::new()` is not a constant and not covered) and no new 'hand the question to another operation' (`return
    self.compose_partial(other)`).  A fast path typically shows as exactly that."""
    global _MUSTCALL
    import json as _json, os as _os
    if _MUSTCALL is None:
        try:
            _MUSTCALL = _json.load(open(_os.path.join(_os.path.dirname(_os.path.dirname(_os.path.abspath(__file__))), "mustcall.json")))
        except Exception:
            _MUSTCALL = {}
    ref = _MUSTCALL.get("ret:" + (ctx.cur_cfg or "default")) or _MUSTCALL.get("ret:default")
    if ref is None:
        raise AnchorMissing("mustcall.json", "no return-source table")
    by_key, by_name = {}, {}
    for b in crate.fns():
        if b.kind == "Closure" or not b.name:
            continue
        by_key.setdefault(_mc_key(b), []).append(b)
        by_name.setdefault(b.name, []).append(b)
    n = 0
    for k, want in sorted(ref.items()):
        f, name = k.rsplit("::", 1)
        if f not in files:
            continue
        bs = by_key.get(k) or by_name.get(name, [])
        if len(bs) != 1:
            continue
        b = bs[0]
        if getattr(b, "out_param_as_return", None):
            continue        # (what it returns is what it used to write through its `&mut` parameter: not an answer the table knows)
        n += 1
        got = return_kinds(crate, b)
        new = sorted(got - set(want))
        ctx.check(not new, "new-answer:%s" % fkey(b), "%s answers with the kinds of value it did in the reviewed tree" % short(b.id),
                  "%s can now answer with %s, which it never did in the reviewed tree: a shortcut that answers with a constant, or hands the question to another operation, in front of the computation the function is there for" % (short(b.id), new),
                  where_of(b))
    ctx.info("functions compared with the return-source table: %d" % n)


# ---------------------------------------------------------------------------- fresh slots are drawn where they are used
def _is_fresh_fn(x):
    return isinstance(x, tuple) and x[0] == "fnconst" and str(x[1]).replace(" ", "").endswith("Slot::fresh")


def fresh_hoist_census(ctx, crate):
    """FH: a value drawn from Slot::fresh() (directly, or through `cond.then(Slot::fresh)` and the like) outside a loop is not
    consumed inside one, and a per-element closure does not use a fresh slot drawn outside it.  Expected count: zero; the
    census of fresh sites inside loops is the positive control (floor)."""
    in_loop = 0
    for b in crate.bodies.values():
        if not (b.file or "").startswith("src/") or (b.file or "").endswith("tst.rs") or crate.root_of(b).auto_derived:
            continue
        src = {}
        for cs in b.calls:
            if b.blocks[cs.bb]["cleanup"] or not cs.callee:
                continue
            if cs.callee.name == "fresh" and "Slot" in (cs.callee.target or ""):
                src[cs.bb] = "Slot::fresh()"
            elif any(_is_fresh_fn(strip_role(b.role_of_operand(a))) for a in cs.args):
                src[cs.bb] = "%s(.., Slot::fresh)" % cs.callee.name
        if b.kind == "Closure":
            # a fresh slot that reaches the closure from outside (captured), while the closure draws none itself
            own = set(src)
            for cs in b.calls:
                if b.blocks[cs.bb]["cleanup"]:
                    continue
                for a in cs.args:
                    for x in role_walk(b.role_of_operand(a)):
                        if isinstance(x, tuple) and x[0] == "call" and x[1] == "fresh" and len(x) > 4 and x[4] not in own and cs.callee and cs.callee.name in ("insert", "push", "or_insert", "apply_slotmap", "apply_slotmap_fresh"):
                            ctx.bad("fresh-hoisted:" + fkey(crate.root_of(b)), "a closure of %s inserts a fresh slot that was drawn OUTSIDE the closure: every element it is applied to gets the same slot" % short(crate.root_of(b).id), where_of(b, cs.bb))
        if not src:
            continue
        loops = iterator_loops(b)
        bodies_ = [(l, loop_body(b, l)) for l in loops]
        for sbb, what in src.items():
            if any(sbb in lb for _, lb in bodies_):
                in_loop += 1
            for l, lb in bodies_:
                if sbb in lb:
                    continue
                hit = None
                for c2 in b.calls:
                    if c2.bb in lb and not b.blocks[c2.bb]["cleanup"]:
                        for a in c2.args:
                            if any(isinstance(x, tuple) and x[0] == "call" and len(x) > 4 and x[4] == sbb and (x[1] == "fresh" or what.startswith(x[1] + "(")) for x in role_walk(b.role_of_operand(a))):
                                hit = c2
                if hit is not None:
                    ctx.bad("fresh-hoisted:" + fkey(crate.root_of(b)),
                            "%s draws %s in front of a loop and uses the value inside it (%s): every iteration gets the SAME slot where each needs a brand-new one — two different slots are renamed to one name" % (short(crate.root_of(b).id), what, hit.callee.name if hit.callee else "?"),
                            where_of(b, hit.bb))
    ctx.floor("Slot::fresh sites inside loops (positive control)", in_loop, 3)       # (a vacuity guard: 7 today in the default configuration; merging copies behind a helper lowers it)
    ctx.ok("fresh-not-hoisted", "no fresh slot drawn outside a loop / per-element closure is consumed inside it (%d sites draw inside their loop)" % in_loop)

"""C17 — fresh slots are new, names are injective.  Proof by abstract interpretation of slot.rs (E5a)."""
import re
from salib import mir, absint
from salib.absint import Aff, Base, Exec, Opaque, cond_implies_gt
from salib.mir import role_str, role_walk, strip_role, role_mentions_field, role_mentions_call
from salib.runner import rule, where_of
from . import common as C

META = {
    "level": "proof",
    "explanation": "Slots are u32 values partitioned by residue mod 4: numeric = 4n, fresh / f<n> = 4n+1, interned names = 4i+2. "
                   "The proof obligations are discharged by a path-enumerating abstract interpreter (affine forms over one symbolic base "
                   "with intervals and residues) on the MIR of every function of slot.rs: O1 constructor privacy; O2 residue of every "
                   "Slot(..) construction; O3 the fresh counter is 1 mod 4 at every store (inductive); O4 every store to the counter "
                   "strictly increases it and fresh() returns the pre-increment value; O5 after parsing f<n> the counter is above that "
                   "slot on every path; O6 interning assigns index = length-before-push on a map miss only, vec push and map insert "
                   "together, single writer; O7 Display inverts the three encodings with the same constants; O8 a number parsed from text "
                   "becomes a numeric / fresh slot only if the text is its canonical decimal; O9 every overflow assertion in slot.rs is "
                   "discharged from the bounds established by the guards (parsed numbers < 2^30).",
    "not_decided": "nothing of the statement is left undecided under the stated assumptions",
    "assumptions": ["fewer than 2^30 - 2 calls of Slot::fresh per thread (the u32 counter fresh_idx stays below 2^32 - 8); this is the only use of the overflow assumption",
                    "Slot::numeric(u) is called with u < 2^30 (the property's own bound)",
                    "std: str::parse::<u32> accepts exactly optional '+' followed by decimal digits with value <= u32::MAX; u32::to_string is the canonical decimal; HashMap::get/insert and Vec::push/len behave as documented"],
    "trusted_base": ["rustc nightly MIR construction", "sefacts fact dump", "salib.absint (affine/interval/residue interpreter, ~300 lines)", "the call models for parse_canonical_u30 (re-verified from its own MIR on every run), HashMap::get, Vec::len"],
}

SLOTF = "src/slot.rs"
B30 = 1 << 30


def slot_table(crate):
    """the interning table of slot.rs, found by its shape (not by names): a struct of that file with a u32 counter, a
    Vec<String> of names and a HashMap<String, u32> of codes: {'adt', 'counter', 'vec', 'map'}"""
    key = "slot_table"
    if key in crate._cache:
        return crate._cache[key]
    for path, a in crate.adts.items():
        if not path.startswith("slot::") or len(a["variants"]) != 1:
            continue
        fs = a["variants"][0]["fields"]
        cnt = [f["name"] for f in fs if f["ty"] == "u32"]
        vec = [f["name"] for f in fs if f["ty"].startswith("std::vec::Vec<std::string::String")]
        mp = [f["name"] for f in fs if "HashMap<std::string::String, u32" in f["ty"]]
        if len(cnt) == 1 and len(vec) == 1 and len(mp) == 1:
            crate._cache[key] = {"adt": path, "counter": cnt[0], "vec": vec[0], "map": mp[0]}
            return crate._cache[key]
    raise mir.AnchorMissing("the slot interning table of slot.rs (struct with a u32 counter, a Vec<String> and a HashMap<String, u32>)")


def body(crate, bid):
    b = crate.bodies.get(bid)
    if b is None:
        raise mir.AnchorMissing(bid)
    return b


def closure_of(crate, fn_id):
    b = body(crate, fn_id)
    cl = [c for c in b.closures]
    if not cl:
        # the closure written as a named function of the table and passed by path (`with_borrow_mut(SlotTable::alloc_fresh)`)
        for c in b.calls:
            if c.callee and c.callee.name in ("with_borrow_mut", "with", "with_borrow") and not b.blocks[c.bb]["cleanup"]:
                for a in c.args:
                    for x in role_walk(b.role_of_operand(a)):
                        if isinstance(x, tuple) and x[0] == "fnconst" and str(x[1]) in crate.bodies and (crate.bodies[str(x[1])].file or "").endswith(SLOTF):
                            cl.append(crate.bodies[str(x[1])])
    if len(cl) != 1:
        raise mir.AnchorMissing("the with_borrow_mut closure of " + fn_id, "found %d closures" % len(cl))
    return cl[0]


def verify_parse_contract(ctx, crate):
    """parse_canonical-style helper: returns Some(x) only under  x < BOUND  and  to_string(x) == s.
    Returns the bound proved (exclusive upper limit on the payload) or None."""
    hs = [b for b in crate.fns() if (b.file or "").endswith(SLOTF) and any(c.callee and c.callee.name == "parse" and "u32" in " ".join(c.callee.gargs) for c in b.calls)]
    if not ctx.floor("functions of slot.rs calling str::parse::<u32>", len(hs), 1):
        return {}
    out = {}
    for h in hs:
        somes = [(bi, s) for bi, si, s in h.statements() if s["k"] == "assign" and s["lhs"]["l"] == 0 and s["rv"]["k"] == "agg" and s["rv"].get("variant") == "Some"]
        uses_direct = [bi for bi, si, s in h.statements() if s["k"] == "assign" and s["rv"]["k"] == "agg" and s["rv"].get("adt") == "slot::Slot"]
        bound = None
        canon = False
        if "Option<u32>" in h.local_ty(0) and somes and not uses_direct:
            for bi, s in somes:
                payload = strip_role(h.role_of_operand(s["rv"]["ops"][0]))
                bnd = None
                cn = False
                for e, cond in C.conditions_at(h, bi):
                    if cond[0] == "true":
                        r = cond[1]
                        if isinstance(r, tuple) and r[0] == "bin" and r[1] == "Lt" and strip_role(r[2]) == payload:
                            rhs = r[3]
                            if rhs[0] == "bin" and rhs[1] == "Shl" and rhs[2][0] == "const" and rhs[3][0] == "const":
                                bnd = int(re.sub(r"_.*", "", rhs[2][1])) << int(re.sub(r"_.*", "", rhs[3][1]))
                            elif rhs[0] == "const":
                                bnd = int(re.sub(r"_.*", "", rhs[1]))
                            elif rhs[0] == "bin" and rhs[1] in ("Sub", "SubWithOverflow"):
                                pass
                    if cond[0] in ("true", "eq"):
                        txt = " ".join(role_str(x) for x in cond[1:])
                        if "to_string(" in txt and ("eq(" in txt or cond[0] == "eq"):
                            # to_string(payload) == s
                            if any(isinstance(x, tuple) and x[0] == "call" and x[1] == "to_string" and strip_role(x[3][0]) == payload for x in role_walk(cond[1])) and any(x == ("param", h.var_names.get(1)) for x in role_walk(cond[1])):
                                cn = True
                if bnd is not None and (bound is None or bnd > bound):
                    bound = bnd
                canon = cn if bound == bnd else canon
                if not cn:
                    canon = False
            ctx.check(bound is not None and bound <= B30, "O8:bound:" + C.fkey(h), "%s returns Some(x) only for x < %s" % (C.short(h.id), bound),
                      "%s can return Some(x) without an upper bound <= 2^30 on x: x*4 overflows u32 or leaves the 30-bit name space" % C.short(h.id), where_of(h))
            ctx.check(bound is not None and bound >= B30, "O8:bound-covers-printer:" + C.fkey(h), "%s accepts every number below 2^30 (all that Display prints for a numeric slot)" % C.short(h.id),
                      "%s rejects numbers from %s on, but Slot::numeric / Display produce `$n` for every n < 2^30: the top of the range prints as a number that parses back as an ordinary NAME — a different slot with the same spelling (names not injective, print/parse does not round-trip)" % (C.short(h.id), bound), where_of(h))
            ctx.check(canon, "O8:canonical:" + C.fkey(h), "%s returns Some(x) only if x.to_string() == s (canonical decimal)" % C.short(h.id),
                      "%s turns text into a number without requiring the text to be the canonical decimal of the number: \"01\", \"+1\" and \"1\" denote the same slot (names not injective, printing does not invert parsing)" % C.short(h.id), where_of(h))
            out[h.id] = bound if canon else None
        elif "Option<u32>" in h.local_ty(0) and not uses_direct and _filter_contract(crate, h) is not None:
            bound, canon = _filter_contract(crate, h)
            ctx.check(bound is not None and bound <= B30, "O8:bound:" + C.fkey(h), "%s returns Some(x) only for x < %s (filter predicate)" % (C.short(h.id), bound),
                      "%s can return Some(x) without an upper bound <= 2^30 on x" % C.short(h.id), where_of(h))
            ctx.check(bound is not None and bound >= B30, "O8:bound-covers-printer:" + C.fkey(h), "%s accepts every number below 2^30 (filter predicate)" % C.short(h.id),
                      "%s rejects numbers from %s on, but Slot::numeric / Display produce `$n` for every n < 2^30: the top of the range parses back as an ordinary name" % (C.short(h.id), bound), where_of(h))
            ctx.check(canon, "O8:canonical:" + C.fkey(h), "%s returns Some(x) only if x.to_string() == s (filter predicate)" % C.short(h.id),
                      "%s turns text into a number without requiring the text to be the canonical decimal of the number" % C.short(h.id), where_of(h))
            out[h.id] = bound if canon else None
        else:
            # the number is used directly by a Slot constructor function: needs the same two guards at the construction
            ctx.bad("O8:unguarded-parse:" + C.fkey(h), "%s parses a u32 from text and builds a slot from it without a canonical-form / range helper" % C.short(h.id), where_of(h))
    return out


def _filter_contract(crate, h):
    """`s.parse::<u32>().ok().filter(|x| *x < BOUND && x.to_string() == s)`: (bound, canonical?) read off the filter predicate"""
    r = strip_role(h.role_of_local(0))
    if not (isinstance(r, tuple) and r[0] == "call" and r[1] == "filter" and len(r[3]) == 2 and role_mentions_call(r[3][0], "parse")):
        return None
    cl = C._closure_of_role(crate, r[3][1])
    if not hasattr(cl, "calls"):
        return None
    bound = None
    canon = False
    # the predicate's value: false, or (under x < BOUND) the comparison to_string(x) == s
    ok_shape = True
    for d in cl.defs().get(0, []):
        if d["kind"] == "assign" and C.const_bool(d["rv"]) is False:
            continue
        rr = cl.role_of_rvalue(d["rv"]) if d["kind"] == "assign" else ("call", d["call"].callee.name if d["call"].callee else "?", "", [cl.role_of_operand(a) for a in d["call"].args], d["bb"])
        txt = role_str(rr)
        if "to_string(" in txt and (txt.startswith("eq(") or "eq(" in txt):
            canon = True
            for e, cond in C.conditions_at(cl, d["bb"]):
                if cond[0] == "true" and isinstance(cond[1], tuple) and cond[1][0] == "bin" and cond[1][1] == "Lt":
                    rhs = cond[1][3]
                    if rhs[0] == "bin" and rhs[1] == "Shl" and rhs[2][0] == "const" and rhs[3][0] == "const":
                        bound = int(re.sub(r"_.*", "", rhs[2][1])) << int(re.sub(r"_.*", "", rhs[3][1]))
                    elif rhs[0] == "const":
                        bound = int(re.sub(r"_.*", "", rhs[1]))
        else:
            ok_shape = False
    return (bound, canon and ok_shape)


def make_model(crate, parse_bounds, counter):
    helper_names = {crate.bodies[h].name: b for h, b in parse_bounds.items()}
    # (a renamed helper is listed under the name it has in the source as well: the interpreter reads callee names off the raw MIR)
    helper_names.update({getattr(crate.bodies[h], "real_name", crate.bodies[h].name): b for h, b in parse_bounds.items()})

    def model(name, args, st, term):
        if name in helper_names:
            k = counter[0]
            counter[0] += 1
            bound = helper_names[name]
            hi = (bound - 1) if bound else absint.U32_MAX
            base = Base("P%d" % k, 0, hi, None)
            return [(("variant", 1, Aff(base, 1, 0)), ("parsed", name, True)), (("variant", 0, None), ("parsed", name, False))]
        if name == "get":
            base = Base("M", 0, absint.U32_MAX, 2)     # hypothesis: values of named_map are 2 mod 4 (O6 proves it inductive)
            return [(("variant", 1, Aff(base, 1, 0)), ("map-hit",)), (("variant", 0, None), ("map-miss",))]
        if name == "len":
            # the length of the name VECTOR (which Display indexes) is "L"; the length of anything else is a different quantity
            what = str(getattr(args[0], "what", "")) if args else ""
            key = what[4:].split(".")[-1] if what.startswith("ref:") else what.split(".")[-1]
            vecf = slot_table(crate)["vec"]
            nm_ = "L" if (key == vecf or not key) else "LEN_OF_" + key
            return [(Aff(Base(nm_, 0, (1 << 30) - 1, None), 1, 0), None)]
        if name == "starts_with":
            return [(Opaque("starts_with"), None)]
        if name == "replace" and args and isinstance(args[0], Opaque) and str(args[0].what).startswith("ref:"):
            # std::mem::replace(&mut tab.field, new): returns the old value, stores the new one
            key = str(args[0].what)[4:].split(".")[-1]
            old_v = st["mem"].get(key, Opaque("mem:" + key))
            st["mem"][key] = args[1]
            st["events"].append(("store", key, args[1], list(st["conds"])))
            return [(old_v, None)]
        if name in ("copied", "cloned") and args:
            return [(args[0], None)]
        if name == "and_then" and len(args) == 2 and term is not None:
            f = term["args"][1]
            fname = f.get("name") if f.get("k") == "const" else None
            if fname in helper_names:
                inner = model(fname, [Opaque("text")], st, None)
                if isinstance(args[0], tuple) and args[0][0] == "variant":
                    return inner if args[0][1] == 1 else [(("variant", 0, None), None)]
                return inner + [(("variant", 0, None), ("bool", Opaque("and_then:none"), None))]
        if name == "filter" and len(args) == 2 and isinstance(args[1], tuple) and args[1][0] == "closure":
            opt = args[0]
            if isinstance(opt, tuple) and opt[0] == "variant" and opt[1] == 0:
                return [(opt, None)]
            if isinstance(opt, tuple) and opt[0] == "variant" and opt[1] == 1:
                cb = crate.bodies.get(args[1][1])
                if cb is not None:
                    pv = {1: ("upvars", {i: v for i, v in enumerate(args[1][2])}), 2: opt[2]}
                    sub = Exec(cb, model, mem_init=dict(st["mem"]), param_vals=pv, max_paths=50)
                    alts = []
                    for p_ in sub.run():
                        r_ = p_.ret
                        if isinstance(r_, tuple) and r_[0] == "cmp":
                            alts.append((opt, ("and", list(p_.conds) + [("cmp", r_[1], r_[2], r_[3], True)])))
                            alts.append((("variant", 0, None), ("and", list(p_.conds) + [("cmp", r_[1], r_[2], r_[3], False)])))
                        elif isinstance(r_, Aff) and r_.base is None:
                            alts.append(((opt if r_.c else ("variant", 0, None)), ("and", list(p_.conds))))
                        else:
                            alts.append((opt, ("and", list(p_.conds) + [("bool", r_, True)])))
                            alts.append((("variant", 0, None), ("and", list(p_.conds) + [("bool", r_, False)])))
                    if alts:
                        return alts
        if name == "branch" and args and isinstance(args[0], tuple) and args[0][0] == "variant":
            # `?` on an Option: Some(v) -> ControlFlow::Continue(v) (variant 0), None -> ControlFlow::Break (variant 1)
            return [(("variant", 0, args[0][2]), None)] if args[0][1] == 1 else [(("variant", 1, None), None)]
        if name == "from_residual":
            return [(("variant", 0, None), None)]      # Option::None
        return [(Opaque("ret:%s" % name), None)]
    return model


def slot_view(crate, b, parse_bounds):
    """the body with every helper of slot.rs inlined (except the parse helpers, which are modelled by their verified
    contract): extracting a branch of a constructor into a private function does not change what is interpreted"""
    pol = {x.id for x in crate.fns() if (x.file or "").endswith(SLOTF) and x.kind != "Closure" and x.id not in parse_bounds
           and not any(c.callee and c.callee.target == x.id for c in x.all_calls())}
    return mir.inline_view(crate, b, depth=4, policy=pol - {b.id})


def run_closure(crate, cl, parse_bounds, F):
    ex = Exec(cl, make_model(crate, parse_bounds, [0]), mem_init={slot_table(crate)["counter"]: Aff(F, 1, 0)})
    return ex.run()


@rule("O1", doc="constructor privacy: the field of Slot is private, all Slot(..) constructions are in slot.rs", once=True)
def o1(ctx):
    crate = ctx.lib("default")
    adt = crate.adt_named("slot::Slot")
    if adt is None:
        raise mir.AnchorMissing("slot::Slot")
    f = adt["variants"][0]["fields"]
    ctx.check(len(f) == 1 and f[0]["vis"] not in ("pub", "crate") and f[0]["ty"] == "u32", "field-private", "Slot's u32 field is private to module slot (%s)" % f[0]["vis"],
              "Slot's representation field is %s %s: code outside slot.rs can forge slot values" % (f[0]["vis"], f[0]["ty"]))
    n = 0
    for cr in (crate, ctx.tests("default")):
        for b in cr.bodies.values():
            for bi, si, s in b.statements():
                if s["k"] == "assign" and s["rv"]["k"] == "agg" and s["rv"].get("adt") == "slot::Slot":
                    root = cr.root_of(b)
                    if root.auto_derived:
                        continue
                    n += 1
                    ctx.check((b.file or "").endswith(SLOTF), "construction-site:" + C.fkey(root), "Slot(..) constructed in %s" % C.short(root.id),
                              "Slot(..) is constructed outside slot.rs in %s" % C.short(root.id), where_of(b, bi, s.get("line")))
    ctx.floor("Slot(..) construction sites", n, 4)
    # writers of the table
    tab = slot_table(crate)
    for fld in (tab["counter"], tab["vec"], tab["map"]):
        w = C.writers(crate, tab["adt"], fld)
        ok = all(w_.startswith("slot::") for w_ in w)
        ctx.check(ok and len(w) >= 1, "table-writers:" + fld, "SlotTable.%s is written only in slot.rs (%s)" % (fld, sorted(C.short(x) for x in w)),
                  "SlotTable.%s is written by %s" % (fld, sorted(w)))


@rule("O2-O6", doc="residues, counter invariant, monotonicity, f<n> bump, interning — abstract interpretation of every slot constructor", once=True)
def o2(ctx):
    crate = ctx.lib("default")
    parse_bounds = verify_parse_contract(ctx, crate)
    F = Base("F", 1, (1 << 32) - 9, 1)      # hypothesis: counter = 1 mod 4 (O3 shows every store preserves it), no wrap (assumption)
    # initial value
    init = [s for b in crate.bodies.values() for bi, si, s in b.statements() if s["k"] == "assign" and s["rv"]["k"] == "agg" and s["rv"].get("adt") == slot_table(crate)["adt"]]
    ctx.floor("SlotTable initialisers", len(init), 1)
    for s in init:
        rv = s["rv"]
        v = rv["ops"][rv["fields"].index(slot_table(crate)["counter"])]
        ctx.check(v.get("int") is not None and int(v["int"]) % 4 == 1, "O3:init", "fresh_idx starts at %s = 1 mod 4" % v.get("int"), "fresh_idx is initialised to %s, not 1 mod 4" % v.get("text"))
    # --- numeric
    num = slot_view(crate, body(crate, "slot::Slot::numeric"), parse_bounds)
    U = Base("u", 0, B30 - 1, None)
    paths = Exec(num, make_model(crate, parse_bounds, [0]), param_vals={1: Aff(U, 1, 0)}).run()
    sites = 0
    for p in paths:
        for ev in p.events:
            if ev[0] == "agg" and ev[1] == "slot::Slot::Slot":
                sites += 1
                v = ev[2][0]
                ctx.check(isinstance(v, Aff) and v.mod4() == 0, "O2:numeric", "Slot::numeric(u) = %r = 0 mod 4" % (v,), "Slot::numeric builds %r which is not 0 mod 4" % (v,), where_of(num))
                ctx.check(isinstance(v, Aff) and v.base is U and v.a == 4 and v.c == 0, "O7:numeric-encoding", "numeric encoding is 4*u", "numeric encoding is %r" % (v,), where_of(num))
            check_overflow(ctx, ev, "numeric", num)
    # --- fresh
    fr = slot_view(crate, closure_of(crate, "slot::Slot::fresh"), parse_bounds)
    for p in run_closure(crate, fr, parse_bounds, F):
        stores = [e for e in p.events if e[0] == "store" and e[1] == slot_table(crate)["counter"]]
        ctx.check(len(stores) == 1, "O4:fresh-stores", "fresh() stores the counter exactly once", "fresh() stores the counter %d times on a path" % len(stores), where_of(fr))
        ret = None
        for ev in p.events:
            if ev[0] == "agg" and ev[1] == "slot::Slot::Slot":
                sites += 1
                ret = ev[2][0]
            check_overflow(ctx, ev, "fresh", fr)
        ctx.check(isinstance(ret, Aff) and ret.base is F and ret.a == 1 and ret.c == 0, "O4:fresh-returns-old", "fresh() returns the pre-increment counter value F",
                  "fresh() returns %r, not the counter value before the increment" % (ret,), where_of(fr))
        ctx.check(isinstance(ret, Aff) and ret.mod4() == 1, "O2:fresh", "fresh slot = 1 mod 4", "fresh slot %r is not 1 mod 4" % (ret,), where_of(fr))
        for st in stores:
            v = st[2]
            ctx.check(isinstance(v, Aff) and v.mod4() == 1, "O3:fresh-store", "counter after fresh() = %r = 1 mod 4" % (v,), "fresh() stores %r into the counter (not 1 mod 4)" % (v,), where_of(fr))
            ctx.check(isinstance(v, Aff) and isinstance(ret, Aff) and cond_implies_gt(p.conds, v, ret), "O4:fresh-increases", "counter after fresh() (%r) > returned slot (%r)" % (v, ret),
                      "after fresh() the counter %r is not above the returned slot %r: the next fresh() can return the same slot" % (v, ret), where_of(fr))
    # --- named: outer function (numeric branch) and the closure
    nm = slot_view(crate, body(crate, "slot::Slot::named"), parse_bounds)
    for p in Exec(nm, make_model(crate, parse_bounds, [0])).run():
        for ev in p.events:
            if ev[0] == "agg" and ev[1] == "slot::Slot::Slot":
                sites += 1
                v = ev[2][0]
                ctx.check(isinstance(v, Aff) and v.mod4() == 0 and v.a == 4 and v.c == 0, "O2:named-numeric", "named(<canonical number n>) = 4n (same as numeric(n))",
                          "the numeric branch of Slot::named builds %r" % (v,), where_of(nm))
            check_overflow(ctx, ev, "named-numeric", nm)
    ncl = slot_view(crate, closure_of(crate, "slot::Slot::named"), parse_bounds)
    paths = run_closure(crate, ncl, parse_bounds, F)
    kinds = {"f": 0, "hit": 0, "new": 0}
    for p in paths:
        parsed = [c for c in p.conds if c[0] == "parsed" and c[2]]
        hit = any(c == ("map-hit",) for c in p.conds)
        miss = any(c == ("map-miss",) for c in p.conds)
        aggs = [e for e in p.events if e[0] == "agg" and e[1] == "slot::Slot::Slot"]
        stores = [e for e in p.events if e[0] == "store" and e[1] == slot_table(crate)["counter"]]
        for ev in p.events:
            check_overflow(ctx, ev, "named", ncl)
        if len(aggs) != 1:
            ctx.bad("O2:named-one-construction", "a path through Slot::named's closure builds %d slots" % len(aggs), where_of(ncl))
            continue
        v = aggs[0][2][0]
        sites += 1
        vb = v.base.name if isinstance(v, Aff) and v.base is not None else ""
        if parsed and not vb.startswith("P") and (hit or miss):
            parsed = []          # the number was rejected by a guard; the text is interned as an ordinary name
        if parsed:
            kinds["f"] += 1
            ctx.check(isinstance(v, Aff) and v.mod4() == 1 and v.a == 4 and v.c == 1, "O2:named-f", "named(\"f<n>\") = 4n+1 (the slot fresh() numbers n)", "the f<n> branch builds %r" % (v,), where_of(ncl))
            # O3 for its store, O5: counter after the call > out on this path
            Fend = Aff(F, 1, 0)
            for st in stores:
                Fend = st[2]
                ctx.check(isinstance(st[2], Aff) and st[2].mod4() == 1, "O3:named-f-store", "counter stored in the f<n> branch = %r = 1 mod 4" % (st[2],), "the f<n> branch stores %r into the counter" % (st[2],), where_of(ncl))
                ctx.check(cond_implies_gt(st[3], st[2], Aff(F, 1, 0)), "O4:named-f-store-increases", "the f<n> branch only raises the counter (%r > F under its guard)" % (st[2],),
                          "the f<n> branch can lower the counter: it stores %r without the guard F <= out" % (st[2],), where_of(ncl))
            ok = isinstance(Fend, Aff) and cond_implies_gt(p.conds, Fend, v)
            ctx.check(ok, "O5:f-counter-above:%s" % ("bumped" if stores else "kept"),
                      "after parsing f<n> the counter (%r) is above the parsed slot (%r) on the %s path" % (Fend, v, "bumped" if stores else "not-bumped"),
                      "after Slot::named(\"f<n>\") the fresh counter (%r) is not provably above the parsed slot (%r) on the path where the counter is %s: a later Slot::fresh() can return the slot the user already owns" % (Fend, v, "bumped" if stores else "left unchanged"),
                      where_of(ncl))
        # on every path the name vector and the name map grow together: an insert into the map without a push to the vector (a
        # numeric / f<n> name memoised in the map) makes map.len() and vec.len() drift apart — harmless alone, fatal together
        # with any index taken from the map's size
        n_push = sum(1 for e in p.events if e[0] == "call" and e[1] == "push")
        n_ins = sum(1 for e in p.events if e[0] == "call" and e[1] == "insert")
        ctx.check(n_push == n_ins, "O6:vector-and-map-grow-together", "on this path the name vector and the name map receive the same number of entries (%d)" % n_push,
                  "a path through the interning code inserts %d entr%s into the name map but pushes %d onto the name vector: the two tables no longer describe the same set of names (an index derived from one does not address the other)" % (n_ins, "y" if n_ins == 1 else "ies", n_push), where_of(ncl))
        if parsed:
            pass
        elif hit:
            kinds["hit"] += 1
            ctx.check(isinstance(v, Aff) and v.base is not None and v.base.name == "M" and v.a == 1 and v.c == 0, "O6:hit-returns-mapped", "a known name returns the interned value", "a known name returns %r" % (v,), where_of(ncl))
            ctx.check(not stores and not any(e[0] == "call" and e[1] in ("push", "insert") for e in p.events), "O6:hit-pure", "the hit path changes nothing", "the hit path of interning modifies the table", where_of(ncl))
        elif miss:
            kinds["new"] += 1
            ctx.check(isinstance(v, Aff) and v.mod4() == 2 and v.base is not None and v.base.name == "L" and v.a == 4 and v.c == 2, "O2:named-new", "a new name gets 4*len+2 = 2 mod 4", "a new name gets %r" % (v,), where_of(ncl))
            calls = [(e[1], e[2], e[4]) for e in p.events if e[0] == "call"]
            names = [c[0] for c in calls]
            il = names.index("len") if "len" in names else -1
            ip = names.index("push") if "push" in names else -1
            ii = names.index("insert") if "insert" in names else -1
            ctx.check(0 <= il < ip and ip >= 0 and ii >= 0 and names.count("push") == 1 and names.count("insert") == 1, "O6:len-before-push-and-both",
                      "index = len taken before the single push; vec push and map insert both happen on the miss path",
                      "interning a new name does not take len() before a single push and a single insert (calls: %s): two names can share an index or the printer's table and the map disagree" % names, where_of(ncl))
            if ii >= 0:
                iv = calls[ii][1][2] if len(calls[ii][1]) > 2 else None
                ctx.check(iv == v, "O6:inserted-value-is-returned", "the value inserted into named_map (%r) is the slot returned" % (iv,), "named_map gets %r but the slot returned is %r" % (iv, v), where_of(ncl))
                ctx.check(isinstance(iv, Aff) and iv.mod4() == 2, "O6:map-values-2mod4", "values inserted into named_map are 2 mod 4 (inductive invariant)", "named_map receives %r" % (iv,), where_of(ncl))
    # the interning table is keyed by the WHOLE name as given: what is looked up, inserted and pushed is the name parameter itself
    # (modulo ownership conversions) — not a trimmed / stripped / sliced / case-folded version of it, which would make two
    # different names one slot
    TRANSPARENT = {"to_string", "to_owned", "clone", "as_str", "borrow", "deref", "as_ref", "into", "from", "to_str", "as_mut"}
    tab = slot_table(crate)
    nroot = crate.root_of(ncl.origin if hasattr(ncl, "origin") else ncl)
    name_params = [nroot.var_names.get(l) for l in range(1, nroot.argc + 1) if nroot.local_ty(l).lstrip("&").strip() in ("str", "std::string::String")]

    def whole_name(r):
        r = strip_role(r)
        for _ in range(8):
            if isinstance(r, tuple) and r[0] == "call" and r[1] in TRANSPARENT and r[3]:
                r = strip_role(r[3][0])
            elif isinstance(r, tuple) and r[0] == "upvar":
                r = strip_role(r[2])
            else:
                break
        return isinstance(r, tuple) and r[0] == "param" and r[1] in name_params
    nkeys = 0
    for c in ncl.calls:
        if ncl.blocks[c.bb]["cleanup"] or not c.callee or c.callee.name not in ("get", "insert", "push", "contains_key", "entry") or len(c.args) < 2:
            continue
        tgt = ncl.role_of_operand(c.args[0])
        if not any(role_mentions_field(tgt, f_) for f_ in (tab["vec"], tab["map"])):
            continue
        nkeys += 1
        k = ncl.role_of_operand(c.args[1])
        ctx.check(whole_name(k), "O6:table-keyed-by-whole-name:%s" % c.callee.name, "the interning table is accessed with the name exactly as given (%s)" % c.callee.name,
                  "Slot::named %ss the interning table with %s, not with the name it was given: two different names (e.g. `x` and `$x`) are interned as one slot, a name can be stored under a spelling that denotes a different kind of slot when printed and parsed back, and the fresh counter is not moved past it" % (c.callee.name, role_str(k)[:70]), where_of(ncl, c.bb))
    ctx.floor("accesses of the interning table in Slot::named", nkeys, 3)
    # what is handed to the number parser: the whole name (numeric slots), or the name minus exactly ONE leading `f` (`&s[1..]`
    # behind starts_with("f"), or strip_prefix('f')).  Anything else (`trim_start_matches('f')`, trimming, case folding ..) makes
    # several spellings one slot: `$ff7` would be `$f7`.
    nparse = 0
    for vb in (nm, ncl):
        for c in vb.calls:
            if vb.blocks[c.bb]["cleanup"] or not c.callee or c.callee.target not in parse_bounds or not c.args:
                continue
            nparse += 1
            r = strip_role(vb.role_of_operand(c.args[0]))
            for _ in range(4):
                if isinstance(r, tuple) and r[0] == "call" and r[1] in ("deref", "borrow", "as_ref", "as_str") and r[3]:
                    r = strip_role(r[3][0])
            ok_ = whole_name(r)
            if not ok_ and isinstance(r, tuple) and r[0] == "call" and r[1] == "index" and len(r[3]) == 2 and whole_name(r[3][0]):
                rng = strip_role(r[3][1])
                ok_ = isinstance(rng, tuple) and rng[0] == "agg" and str(rng[1]).endswith("RangeFrom") and len(rng[2]) == 1 and strip_role(rng[2][0])[0] == "const" and str(strip_role(rng[2][0])[1]).startswith("1_")
            if not ok_:
                # Some-payload of strip_prefix(s, 'f')
                for x in role_walk(r):
                    if isinstance(x, tuple) and x[0] == "call" and x[1] == "strip_prefix" and x[3] and whole_name(x[3][0]) and not any(isinstance(y, tuple) and y[0] == "call" and y[1] not in ("strip_prefix", "deref", "borrow", "as_ref", "and_then", "map", "branch", "from_residual") for y in role_walk(r)):
                        ok_ = True
            ctx.check(ok_, "O6:number-parsed-from-name-or-name-minus-one-f:%d" % nparse, "the number parser gets the name, or the name without its single leading f",
                      "Slot::named parses a number out of %s — not the name itself nor the name with exactly one leading `f` removed: differently spelled names (`$ff7`, `$fff7`, `$f7`) become one slot, and a user name can coincide with a slot Slot::fresh() already handed out" % role_str(r)[:70], where_of(vb, c.bb))
    # the parser handed to a combinator: `s.strip_prefix('f').and_then(parse_canonical_u30)`
    helper_fn_names = {crate.bodies[h].name for h in parse_bounds} | {getattr(crate.bodies[h], "real_name", crate.bodies[h].name) for h in parse_bounds}
    for vb in (nm, ncl):
        for c in vb.calls:
            if vb.blocks[c.bb]["cleanup"] or not c.callee or c.callee.name not in ("and_then", "map", "filter_map") or len(c.args) < 2:
                continue
            f_ = strip_role(vb.role_of_operand(c.args[1]))
            if not (isinstance(f_, tuple) and f_[0] == "fnconst" and str(f_[1]).split("::")[-1].split("<")[0] in helper_fn_names):
                continue
            nparse += 1
            src = strip_role(vb.role_of_operand(c.args[0]))
            ok_ = isinstance(src, tuple) and src[0] == "call" and src[1] == "strip_prefix" and src[3] and whole_name(src[3][0])
            ctx.check(ok_, "O6:number-parsed-from-name-or-name-minus-one-f:%d" % nparse, "the number parser is applied to strip_prefix(name, 'f')",
                      "Slot::named applies the number parser to %s — not the name with exactly one leading `f` removed" % role_str(src)[:70], where_of(vb, c.bb))
    ctx.floor("calls of the number parser in Slot::named", nparse, 2)
    ctx.check(kinds["f"] >= 2 and kinds["hit"] >= 1 and kinds["new"] >= 1, "paths-covered", "paths through Slot::named's closure: %s" % kinds, "unexpected path structure in Slot::named: %s" % kinds, where_of(ncl))
    ctx.floor("Slot(..) constructions interpreted", sites, 4)
    ctx.extra["obligation_paths"] = {"named_closure_paths": len(paths)}


def check_overflow(ctx, ev, where, b):
    if ev[0] != "assert":
        return
    kind, ops, conds = ev[1], ev[2], ev[3]
    if not kind.startswith("overflow"):
        return
    a, c = ops[0], ops[1]
    if not (isinstance(a, Aff) and isinstance(c, Aff)):
        ctx.bad("O9:overflow:%s:%s" % (where, kind), "overflow assertion (%s) in slot.rs on non-affine operands %r, %r cannot be discharged" % (kind, a, c), where_of(b))
        return
    ra, rc = absint.narrowed_range(a, conds), absint.narrowed_range(c, conds)
    if kind == "overflow_mul":
        mx = ra[1] * rc[1]
    elif kind == "overflow_add":
        mx = ra[1] + rc[1]
    elif kind == "overflow_sub":
        mx = 0 if ra[0] - rc[1] >= 0 else absint.U32_MAX + 1
    elif kind == "overflow_shl":
        mx = 0
    else:
        mx = absint.U32_MAX + 1
    names = "%r %s %r" % (a, kind[9:], c)
    ctx.check(mx <= absint.U32_MAX, "O9:overflow:%s:%s:%s" % (where, kind, re.sub(r"\d+", "", repr(a))[:20]),
              "%s cannot overflow (max %d)" % (names, mx),
              "arithmetic %s in slot.rs (%s) can overflow u32 (max value %d): a panic in debug builds reachable from every parser, a wrapped counter / slot collision in release builds" % (names, where, mx), where_of(b))


def decode_fmt(text):
    """pieces of a compact format template as printed by rustc: const b"\\x01$\\xc0\\x00" -> ['$', ARG]"""
    m = re.match(r'const b"(.*)"$', text or "")
    if not m:
        return None
    raw = m.group(1)
    # unescape
    bs = bytearray()
    i = 0
    while i < len(raw):
        if raw[i] == "\\":
            if raw[i + 1] == "x":
                bs.append(int(raw[i + 2:i + 4], 16))
                i += 4
            else:
                bs.append({"n": 10, "t": 9, "r": 13, "\\": 92, '"': 34, "'": 39, "0": 0}.get(raw[i + 1], ord(raw[i + 1])))
                i += 2
        else:
            bs.append(ord(raw[i]))
            i += 1
    out = []
    i = 0
    while i < len(bs):
        b = bs[i]
        if b == 0:
            break
        if b >= 0x80:
            out.append("{}")
            i += 1
            # argument descriptors may carry extra bytes for non-default formatting; default is 0xc0 alone
            continue
        out.append(bytes(bs[i + 1:i + 1 + b]).decode("utf8", "replace"))
        i += 1 + b
    return out


@rule("O7", doc="Display inverts the three encodings with the same constants", once=True)
def o7(ctx):
    crate = ctx.lib("default")
    ds = [b for b in crate.by_name.get("fmt", []) if (b.impl_self or "") == "slot::Slot" and (b.impl_trait or "").endswith("fmt::Display")]
    if len(ds) != 1:
        raise mir.AnchorMissing("<Slot as Display>::fmt")
    d = mir.inline_view(crate, ds[0], depth=3, policy={x.id for x in crate.fns() if (x.file or "").endswith(SLOTF) and x.kind != "Closure"} - {ds[0].id})
    arms = {}
    for sb in d.switch_blocks():
        t = d.blocks[sb]["term"]
        r = d.role_of_operand(t["discr"])
        if r[0] == "bin" and r[1] == "Rem" and r[3] == ("const", "4_u32"):
            for val, tgt in t["cases"]:
                arms[int(val)] = tgt
    ctx.check(set(arms) >= {0, 1, 2}, "dispatch-on-residue", "Display dispatches on self.0 % 4 with arms 0, 1, 2", "Display does not dispatch on the residue mod 4 (arms: %s)" % sorted(arms), where_of(d))
    want = {0: ("(self.0 Div const 4_u32)", ["$", "{}"], "numeric: $<u/4>  inverts 4*u"),
            1: ("((self.0 SubWithOverflow const 1_u32).0 Div const 4_u32)", ["$f", "{}"], "fresh: $f<(u-1)/4> inverts 4n+1 and is parsed back by the f<n> branch"),
            2: ("((self.0 SubWithOverflow const 2_u32).0 Div const 4_u32)", ["$", "{}"], "named: $<named_vec[(u-2)/4]> inverts 4i+2")}
    for res, (expr, pieces, why) in want.items():
        if res not in arms:
            continue
        reach = d.reach([arms[res]], avoid=[a for r_, a in arms.items() if r_ != res])
        found = None
        for bb_ in [d] + d.closures:
            for c in bb_.calls:
                if c.callee and c.callee.name == "new" and "Arguments" in (c.callee.impl_self or "") and (bb_ is not d or c.bb in reach):
                    tr = bb_.role_of_operand(c.args[0])
                    tpl = decode_fmt("const " + tr[1] if tr[0] == "const" else None)
                    arg = role_str(bb_.role_of_operand(c.args[1]), 12)
                    if bb_ is d or res == 2:
                        if bb_ is not d and res != 2:
                            continue
                        if bb_ is d and res == 2:
                            continue
                        found = (tpl, arg)
        if found is None or expr not in found[1]:
            # decode-then-print: the arm builds a value of a private enum (one constructor per residue) that is matched on
            # afterwards; the printed argument resolves to the payload of that constructor
            built = False
            for bi, si, s_ in d.statements():
                if bi in reach and s_["k"] == "assign" and s_["rv"]["k"] == "agg" and s_["rv"].get("agg") == "adt" and str(s_["rv"].get("adt", "")).startswith("slot::") and s_["rv"].get("adt") != "slot::Slot":
                    if any(expr in role_str(d.role_of_operand(o), 12) for o in s_["rv"]["ops"]):
                        built = True
            if built:
                for bb_ in [d] + d.closures:
                    for c in bb_.calls:
                        if c.callee and c.callee.name == "new" and "Arguments" in (c.callee.impl_self or ""):
                            tr = bb_.role_of_operand(c.args[0])
                            arg = role_str(bb_.role_of_operand(c.args[1]), 14)
                            if expr in arg or (res == 2 and slot_table(crate)["vec"] in arg and bb_ is not d):
                                found = (decode_fmt("const " + tr[1] if tr[0] == "const" else None), arg if expr in arg else arg + " " + expr)
        if found is None:
            ctx.bad("display-arm:%d" % res, "no formatting call found in the residue-%d arm of Display for Slot" % res, where_of(d))
            continue
        tpl, arg = found
        ctx.check(tpl == pieces, "display-literals:%d" % res, "residue %d prints template %s (%s)" % (res, tpl, why), "residue %d prints template %s, expected %s (%s)" % (res, tpl, pieces, why), where_of(d))
        # (u - r) / 4 == u / 4 for u = 4k + r, r < 4: the payload may be taken once, before the tag is looked at
        alt_ = "(self.0 Div const 4_u32)"
        ctx.check((expr in arg or alt_ in arg) and (res != 2 or slot_table(crate)["vec"] in arg), "display-decoding:%d" % res, "residue %d decodes with %s" % (res, expr), "residue %d decodes with %s, expected %s" % (res, arg, expr), where_of(d))
    # the tokenizer hands `$name` without the `$` to Slot::named
    tk = [b for b in crate.free_fn("tokenize") if (b.file or "").endswith("parse.rs")]
    if tk:
        t = mir.inline_view(crate, tk[0], keep=("named", "crop_ident"))       # (the per-token part may live in a `next_token` helper)
        okn = False
        for c in t.calls:
            if c.callee and c.callee.target == "slot::Slot::named":
                conds = C.conditions_at(t, c.bb)
                okn = okn or any(cond[0] == "true" and ("starts_with" in role_str(cond[1]) or "strip_prefix" in role_str(cond[1])) and "'$'" in role_str(cond[1]) for e, cond in conds)
                arg = role_str(t.role_of_operand(c.args[0]), 14)
                okn = okn or ("strip_prefix" in arg and "'$'" in arg)
        sigil_dropped_once(ctx, t)
        ctx.check(okn, "tokenizer-strips-dollar", "the tokenizer passes the text after `$` to Slot::named", "the tokenizer does not call Slot::named under starts_with('$')", where_of(t))


def sigil_dropped_once(ctx, t):
    """`$name` / `?name`: the text handed to crop_ident is the input without its FIRST character.  `$` and `?` are ordinary
    identifier characters after the first position (`Slot::named("$x")` prints as `$$x`), so stripping a whole run of them
    (`trim_start_matches('$')`) or more than one character maps `$$x` and `$x` to the same slot: names stop being injective and
    print / parse stops being the identity."""
    n = 0
    for c in t.calls:
        if not (c.callee and c.callee.name == "crop_ident" and c.args):
            continue
        r = strip_role(t.role_of_operand(c.args[0]))
        if r == ("param", "s") or (isinstance(r, tuple) and r[0] in ("param", "phi", "local")):
            continue        # (the plain-identifier branch: nothing is stripped)
        n += 1
        bad = None
        # (only the outermost operation counts: `s` itself is loop-carried and has the whole history of the scan behind it)
        if r[0] == "call" and r[1] in ("trim_start_matches", "trim_left_matches", "trim_matches", "trim_start", "trim_left", "trim", "trim_end_matches", "replace", "replacen"):
            bad = "%s(..)" % r[1]
        if r[0] == "call" and r[1] == "index" and len(r[3]) == 2:
            x = strip_role(r[3][1])
            if isinstance(x, tuple) and x[0] == "agg" and x[1].endswith("RangeFrom") and x[2] and x[2][0][0] == "const" and x[2][0][1].split("_")[0] not in ("1",):
                bad = "[%s..]" % x[2][0][1].split("_")[0]
        ctx.check(bad is None, "sigil-dropped-exactly-once:%d" % n, "the name after a sigil is the input without its first character",
                  "the tokenizer hands crop_ident %s of the input: more (or something else) than the one sigil character is removed, so `$$x` and `$x` (or `??a` and `?a`) read as the same name although they print differently" % bad, where_of(t, c.bb))
    ctx.floor("sigil branches of the tokenizer", n, 1)


RULES = [o1, o2, o7]


@rule("O1w", doc="compile-fail witnesses: a slot cannot be forged from or read as a raw number", thorough_only=True, once=True)
def o1w(ctx):
    from salib import witness
    witness.check(ctx, ['c17_slot_ctor', 'c17_slot_field'])


RULES.append(o1w)


@rule("MC", doc="must-call census: no function of this property's files has gained an early exit in front of work it always did (every crate-local call that lay on all paths to a normal return in the reviewed tree still does)")
def mc(ctx):
    C.must_call_census(ctx, ctx.lib(), ['src/slot.rs', 'src/slotmap.rs', 'src/parse.rs'])


RULES.append(mc)


@rule("O10", doc="the consequence clause: every slot the library invents (class parameters, names for redundant / uncovered slots, the slots a multi-pattern root is bound over) comes from Slot::fresh() — C03.H5 / H10, C11.N3, C05.V12")
def o10(ctx):
    from . import c03, c05, c11
    c03.h5(ctx)
    c03.h10(ctx)
    c11.n3(ctx)
    c05.v12(ctx)


RULES.append(o10)

"""C16 — node shapes are canonical; derived Language impls are coherent (sibling agreement + generated code)."""
import re
from salib import mir
from salib.mir import role_str, role_walk, strip_role, role_mentions_field, role_mentions_call, role_mentions_param
from salib.runner import rule, where_of
from . import common as C

META = {
    "level": "other",
    "explanation": "D1: the LanguageChildren impls (Slot, AppliedId, Bind<T>, the bare payload types) agree with each other: the _iter_mut "
                   "and _iter twins have the same structure, public = all for Slot/AppliedId, for Bind `all` is binder-then-element and "
                   "`public` is the element's public occurrences filtered by != binder, applied_id_occurrences delegates to the element, "
                   "weak_shape_impl visits in the order of all_slot_occurrences. D2: for every variant of every language expanded by the "
                   "built derive crate (7 languages of the test crate) and by the in-repo derive crate (fixture, thorough tier) every one of "
                   "the generated methods visits the fields a0..a(n-1) in declaration order, each exactly once, with the intended "
                   "LanguageChildren method; to_syntax and from_syntax agree on the operator string; weak_shape_inplace returns the inverse "
                   "of the map the fields were numbered into. D3: binder scope in Bind::weak_shape_impl is save/restore. D4: private "
                   "occurrences must be determined per occurrence, not per name (known finding F7). N2 (shared with C11): shape numbering "
                   "depends only on the occurrence counter.",
    "not_decided": "the shape laws (idempotence, invariance, reconstruction) as values on all inputs",
    "assumptions": ["iterator adaptors chain/once/empty/copied/filter preserve order"],
}

PER_FIELD = {
    "all_slot_occurrences_mut": "all_slot_occurrences_iter_mut",
    "public_slot_occurrences_mut": "public_slot_occurrences_iter_mut",
    "applied_id_occurrences_mut": "applied_id_occurrences_iter_mut",
    "all_slot_occurrences": "all_slot_occurrences_iter",
    "public_slot_occurrences": "public_slot_occurrences_iter",
    "applied_id_occurrences": "applied_id_occurrences_iter",
    "slots": "public_slot_occurrences_iter",
    "weak_shape_inplace": "weak_shape_impl",
    "to_syntax": "to_syntax",
}


def lc_impls(crate):
    """{self type: {method: body}} for impls of LanguageChildren in the library"""
    out = {}
    for b in crate.fns():
        if (b.impl_trait or "").endswith("LanguageChildren"):
            out.setdefault(b.impl_self, {})[b.name] = b
    return out


def norm_sig(b):
    """structure of the returned iterator with mut/immut spelling differences removed"""
    r = b.role_of_local(0)

    def go(x):
        if not isinstance(x, tuple):
            return str(x)
        if x[0] == "param":
            return "self" if x[1] == "self" else x[1]
        if x[0] == "field":
            return go(x[1]) + "." + x[2]
        if x[0] == "call":
            n = x[1].replace("_iter_mut", "_iter").replace("values_mut", "values").replace("values_immut", "values").replace("iter_mut", "iter")
            return "%s(%s)" % (n, ",".join(go(a) for a in x[3]))
        if x[0] == "agg":
            return "closure" if "closure" in str(x[1]) else "agg(%s)" % ",".join(go(a) for a in x[2])
        return x[0]
    return go(r)


@rule("D1", doc="sibling agreement of the LanguageChildren impls", once=True)
def d1(ctx):
    crate = ctx.lib("default")
    impls = lc_impls(crate)
    ctx.floor("LanguageChildren impls", len(impls), 4)
    for ty, ms in sorted(impls.items()):
        for base in ("all_slot_occurrences", "public_slot_occurrences", "applied_id_occurrences"):
            a, b = ms.get(base + "_iter_mut"), ms.get(base + "_iter")
            if a is None or b is None:
                ctx.bad("twin-missing:%s:%s" % (ty, base), "%s lacks one of the %s twins" % (ty, base))
                continue
            sa, sb = norm_sig(a), norm_sig(b)
            ctx.check(sa == sb, "twins-agree:%s:%s" % (ty, base), "%s: %s_iter_mut and %s_iter enumerate the same things in the same order (%s)" % (ty, base, base, sa[:70]),
                      "%s: %s_iter_mut yields %s but %s_iter yields %s — the mutable and the immutable view of a node disagree (shape computation and slot queries see different occurrence lists)" % (ty, base, sa, base, sb), where_of(a))
    # Slot / AppliedId: public == all
    for ty in ("slot::Slot", "types::AppliedId"):
        ms = impls.get(ty)
        if ms is None:
            raise mir.AnchorMissing("LanguageChildren for " + ty)
        ctx.check(norm_sig(ms["public_slot_occurrences_iter"]) == norm_sig(ms["all_slot_occurrences_iter"]), "public-is-all:" + ty, "%s: every slot occurrence is public" % ty,
                  "%s: public and all slot occurrences differ (%s vs %s)" % (ty, norm_sig(ms["public_slot_occurrences_iter"]), norm_sig(ms["all_slot_occurrences_iter"])), where_of(ms["public_slot_occurrences_iter"]))
    # Bind
    bk = [k for k in impls if k.startswith("lang::Bind<")]
    if len(bk) != 1:
        raise mir.AnchorMissing("LanguageChildren for Bind<T>")
    bm = impls[bk[0]]
    sa = norm_sig(bm["all_slot_occurrences_iter"])
    ctx.check(sa == "chain(once(self.slot),all_slot_occurrences_iter(self.elem))", "bind-all-order", "Bind: all = binder, then the element's occurrences", "Bind::all_slot_occurrences is %s; the binder must come first, then the element (shape numbering and the matcher's zip rely on this order)" % sa, where_of(bm["all_slot_occurrences_iter"]))
    sp = norm_sig(bm["public_slot_occurrences_iter"])
    okp = sp == "filter(public_slot_occurrences_iter(self.elem),closure)"
    pb = bm["public_slot_occurrences_iter"]
    okc = False
    for cb in pb.closures:
        r = strip_role(cb.role_of_local(0))
        okc = isinstance(r, tuple) and r[0] == "call" and r[1] == "ne" and any(role_mentions_field(a, "slot") for a in r[3])
    ctx.check(okp and okc, "bind-public-filter", "Bind: public = element's public occurrences with x != binder", "Bind::public_slot_occurrences is %s (filter on != self.slot: %s)" % (sp, okc), where_of(pb))
    ctx.check(norm_sig(bm["applied_id_occurrences_iter"]) == "applied_id_occurrences_iter(self.elem)", "bind-applied-ids", "Bind: applied ids are the element's", "Bind::applied_id_occurrences is %s" % norm_sig(bm["applied_id_occurrences_iter"]), where_of(bm["applied_id_occurrences_iter"]))
    # weak_shape_impl order = all_slot_occurrences order: binder numbered before the element is visited
    ws = bm["weak_shape_impl"]
    order = [c.callee.name for c in sorted(ws.calls, key=lambda c: c.bb) if c.callee and c.callee.name in ("add_slot", "on_see_slot", "weak_shape_impl") and not ws.blocks[c.bb]["cleanup"]]
    ok = order[:2] == ["add_slot", "weak_shape_impl"]
    first = [c for c in ws.calls if c.callee and c.callee.name == "add_slot"]
    okb = bool(first) and role_mentions_field(ws.role_of_operand(first[0].args[0]), "slot") and ws.dominated_by([c for c in ws.calls if c.callee and c.callee.name == "weak_shape_impl"][0].bb, [first[0].bb])
    if first and getattr(crate.bodies.get(first[0].callee.target), "out_param_as_return", None):
        # by-value numbering helper: its answer becomes the binder
        back = [s_ for bi_, si_, s_ in ws.statements() if s_["k"] == "assign" and mir.place_fields(s_["lhs"]) and mir.place_fields(s_["lhs"])[-1][1] == "slot" and role_mentions_call(ws.role_of_rvalue(s_["rv"]), "add_slot")]
        okb = okb and bool(back)
    ctx.check(ok and okb, "bind-shape-order", "Bind::weak_shape_impl numbers the binder (always a new number) before visiting the element", "Bind::weak_shape_impl visits in the order %s" % order, where_of(ws))
    # AppliedId / Slot weak_shape_impl use on_see_slot over the same occurrences
    for ty, meth in (("types::AppliedId", "values"), ("slot::Slot", None)):
        w = impls[ty]["weak_shape_impl"]
        sees = [c for c in w.all_calls() if c.callee and c.callee.name == "on_see_slot"]
        for c_ in sees:
            t_ = crate.bodies.get(c_.callee.target)
            if t_ is not None and getattr(t_, "out_param_as_return", None):
                # by-value helper: its answer has to be written over the occurrence it was asked about
                back = [s_ for sub_ in w.all_bodies() for bi_, si_, s_ in sub_.statements() if s_["k"] == "assign" and s_["lhs"]["p"] and s_["lhs"]["p"][-1] == "*"
                        and role_mentions_call(sub_.role_of_rvalue(s_["rv"]), "on_see_slot")]
                ctx.check(bool(back), "shape-name-written-back:" + ty, "%s::weak_shape_impl writes the helper's answer over the occurrence" % ty,
                          "%s::weak_shape_impl asks the by-value numbering helper for the shape name but does not write it over the occurrence: the node keeps its own slot names" % ty, where_of(w))
        ctx.check(len(sees) == 1, "shape-uses-on-see-slot:" + ty, "%s::weak_shape_impl numbers its occurrences through on_see_slot" % ty, "%s::weak_shape_impl has %d on_see_slot calls" % (ty, len(sees)), where_of(w))
        for l in C.iterator_loops(w):
            ctx.check(C.loop_exhaustive(w, l), "shape-loop-exhaustive:" + ty, "all occurrences are numbered", "%s::weak_shape_impl can stop early" % ty, where_of(w, l[0]))
    # to_syntax / from_syntax of Bind: binder first
    ts = bm["to_syntax"]
    slot_first = [bi for bi, si, s in ts.statements() if s["k"] == "assign" and s["rv"]["k"] == "agg" and s["rv"].get("variant") == "Slot" and role_mentions_field(ts.role_of_operand(s["rv"]["ops"][0]), "slot")]
    ext = [c for c in ts.calls if c.callee and c.callee.name == "extend" and "to_syntax(self.elem)" in role_str(ts.role_of_operand(c.args[1]))]
    ctx.check(bool(slot_first) and bool(ext) and ts.dominated_by(ext[0].bb, slot_first), "bind-to-syntax", "Bind prints the binder slot, then the element", "Bind::to_syntax no longer prints the binder first and then the element", where_of(ts))


def arms(b, adt):
    """variant name -> list of call sites in program order within the arm of `match self`"""
    out = {}
    names = [v["name"] for v in adt["variants"]]
    for sb in b.switch_blocks():
        t = b.blocks[sb]["term"]
        r = b.role_of_operand(t["discr"])
        if r == ("discr", ("param", "self")):
            others_all = {}
            for vi, vn in enumerate(names):
                es = C.variant_edges(b, sb, vi, nvariants=len(names))
                if es:
                    others_all[vn] = es
            for vn, es in others_all.items():
                avoid = [e for k, v in others_all.items() if k != vn for e in v]
                reach = b.reach(es, avoid=avoid)
                calls = []
                # program order: walk from the edge following unique successors
                order = []
                seen = set()
                cur = list(b.xgraph().get(es[0], []))
                stack = cur
                while stack:
                    n = stack.pop(0)
                    if n in seen or not isinstance(n, int):
                        if not isinstance(n, int) and n not in seen:
                            seen.add(n)
                            stack = list(b.xgraph().get(n, [])) + stack
                        continue
                    seen.add(n)
                    order.append(n)
                    stack = [s for s in b.xgraph().get(n, []) if s not in seen] + stack
                for n in order:
                    c = b.call_at.get(n)
                    if c is not None and n in reach:
                        calls.append(c)
                out[vn] = calls
    if not out and len(names) == 1:
        # a single-variant enum: the match is irrefutable, the whole body is the arm
        order = sorted(n for n in b.live_blocks())
        out[names[0]] = [b.call_at[n] for n in order if n in b.call_at]
    return out


def field_index(role, variant):
    r = strip_role(role)
    if isinstance(r, tuple) and r[0] == "field" and r[2].isdigit():
        inner = strip_role(r[1])
        if isinstance(inner, tuple) and inner[0] == "variant" and inner[2] == variant and strip_role(inner[1]) == ("param", "self"):
            return int(r[2])
    return None


def check_language(ctx, crate, lang_ty, label):
    adt = crate.adts.get(lang_ty)
    if adt is None:
        raise mir.AnchorMissing(lang_ty)
    nfields = {v["name"]: len(v["fields"]) for v in adt["variants"]}
    methods = {b.name: b for b in crate.fns() if b.impl_self == lang_ty and (b.impl_trait or "").split("::")[-1] == "Language"}
    n = 0
    ops_to = {}
    for m, per in PER_FIELD.items():
        b = methods.get(m)
        if b is None:
            ctx.bad("method-missing:%s:%s" % (label, m), "%s has no generated %s" % (lang_ty, m))
            continue
        ar = arms(b, adt)
        if set(ar) != set(nfields):
            ctx.bad("arms:%s:%s" % (label, m), "%s::%s matches variants %s of %s" % (lang_ty, m, sorted(ar), sorted(nfields)), where_of(b))
            continue
        for vn, calls in ar.items():
            n += 1
            visits = [c for c in calls if c.callee and c.callee.name == per]
            idx = [field_index(c.body.role_of_operand(c.args[0]), vn) for c in visits]
            want = list(range(nfields[vn]))
            ok = idx == want
            wrong_method = [c.callee.name for c in calls if c.callee and c.callee.name in set(PER_FIELD.values()) and c.callee.name != per and (m, c.callee.name) not in (("to_syntax", "to_syntax"),)]
            ctx.check(ok and not wrong_method, "fields-in-order:%s:%s:%s" % (label, m, vn),
                      "%s::%s visits %s's fields %s with %s" % (label, m, vn, want, per),
                      "generated %s::%s for variant %s visits fields %s with %s (other per-field calls: %s); expected fields %s in declaration order, each once, with %s" % (lang_ty, m, vn, idx, per, wrong_method, want, per),
                      where_of(b))
            if m in ("all_slot_occurrences_mut", "public_slot_occurrences_mut", "applied_id_occurrences_mut", "all_slot_occurrences", "public_slot_occurrences", "applied_id_occurrences", "slots"):
                # the collected chain keeps that order
                col = [c for c in calls if c.callee and c.callee.name == "collect"]
                if col:
                    r = strip_role(b.role_of_operand(col[-1].args[0]))
                    flat = []

                    def flatten(x):
                        x = strip_role(x)
                        if isinstance(x, tuple) and x[0] == "call" and x[1] == "chain":
                            flatten(x[3][0])
                            flatten(x[3][1])
                        elif isinstance(x, tuple) and x[0] == "call" and x[1] == per:
                            flat.append(field_index(x[3][0], vn))
                        elif isinstance(x, tuple) and x[0] == "call" and x[1] == "empty":
                            pass
                        else:
                            flat.append("?")
                    flatten(r)
                    ctx.check(flat == want, "chain-order:%s:%s:%s" % (label, m, vn), "the collected chain is fields %s in order" % want,
                              "generated %s::%s for variant %s collects the chain %s, expected %s" % (lang_ty, m, vn, flat, want), where_of(b, col[-1].bb))
            if m == "to_syntax":
                lits = [c.body.role_of_operand(c.args[0]) for c in calls if c.callee and c.callee.name == "from" and c.args and c.body.role_of_operand(c.args[0])[0] == "const"]
                if lits:
                    ops_to[vn] = lits[0][1].strip('"')
    # weak_shape_inplace returns inverse(m.0) of the map passed to every weak_shape_impl
    w = methods.get("weak_shape_inplace")
    if w is not None:
        r = strip_role(w.role_of_local(0))
        maps = {role_str(c.body.role_of_operand(c.args[1])) for c in w.calls if c.callee and c.callee.name == "weak_shape_impl"}
        ok = r[0] == "call" and r[1] == "inverse" and len(maps) <= 1
        ctx.check(ok, "shape-returns-inverse:%s" % label, "weak_shape_inplace returns m.0.inverse() of the one numbering map", "weak_shape_inplace returns %s (maps passed: %s)" % (role_str(r), sorted(maps)), where_of(w))
    # from_syntax: operator literal -> variant constructed, and per-field types in order
    f = methods.get("from_syntax")
    if f is not None:
        ops_from = {}
        for bi, si, s in f.statements():
            rv = s["rv"] if s["k"] == "assign" else None
            if rv and rv["k"] == "agg" and rv.get("adt") == lang_ty:
                vn = rv["variant"]
                lit = None
                for e, cond in C.conditions_at(f, bi):
                    if cond[0] == "eq":
                        for side in (cond[1], cond[2]):
                            if isinstance(side, tuple) and side[0] == "const" and side[1].startswith('"'):
                                lit = side[1].strip('"')
                if lit is not None:
                    ops_from[vn] = lit
                # fields come from the closures in order: a_i = result of the i-th filter_map(..).next()
                ops = [strip_role(f.role_of_operand(o)) for o in rv["ops"]]
                sites = [([x[4] for x in role_walk(o) if isinstance(x, tuple) and x[0] == "call" and x[1] == "filter_map"] or [None])[0] for o in ops]
                if all(sx is not None for sx in sites) and len(sites) > 1:
                    ctx.check(sites == sorted(sites), "from-syntax-field-order:%s:%s" % (label, vn), "from_syntax fills %s's fields in consumption order" % vn,
                              "generated from_syntax for %s::%s fills the fields out of the order in which the syntax elements are consumed" % (lang_ty, vn), where_of(f, bi))
        for vn, lit in ops_to.items():
            ctx.check(ops_from.get(vn) == lit, "operator-agrees:%s:%s" % (label, vn), "%s prints and parses as \"%s\"" % (vn, lit),
                      "variant %s of %s prints as \"%s\" but is parsed from \"%s\"" % (vn, lang_ty, lit, ops_from.get(vn)), where_of(f))
    return n


@rule("D2", doc="generated code of define_language! (built derive crate: the seven languages of the test crate)")
def d2(ctx):
    tests = ctx.tests()
    langs = sorted({b.impl_self for b in tests.fns() if (b.impl_trait or "").split("::")[-1] == "Language" and b.name == "weak_shape_inplace"})
    ctx.floor("languages expanded in the test crate", len(langs), 4)
    total = 0
    for l in langs:
        total += check_language(ctx, tests, l, l.split("::")[-1])
    ctx.floor("generated method arms checked", total, 300)


@rule("D2f", doc="generated code of the in-repo derive crate (fixture)", thorough_only=True, once=True)
def d2f(ctx):
    fx = ctx.fixture("derive_probe")
    langs = sorted({b.impl_self for b in fx.fns() if (b.impl_trait or "").split("::")[-1] == "Language" and b.name == "weak_shape_inplace"})
    ctx.floor("languages expanded by the in-repo derive crate", len(langs), 1)
    total = 0
    for l in langs:
        total += check_language(ctx, fx, l, "fixture:" + l.split("::")[-1])
    ctx.floor("fixture method arms checked", total, 60)


@rule("D3", doc="binder scope in Bind::weak_shape_impl is save / restore", once=True)
def d3(ctx):
    crate = ctx.lib("default")
    impls = lc_impls(crate)
    bk = [k for k in impls if k.startswith("lang::Bind<")][0]
    w = impls[bk]["weak_shape_impl"]
    rem = [c for c in w.calls if c.callee and c.callee.name == "remove" and not w.blocks[c.bb]["cleanup"]]
    add = [c for c in w.calls if c.callee and c.callee.name == "add_slot"]
    if not rem:
        # a different scoping discipline (e.g. a cloned map per scope) — accept only if no entry of the shared map is dropped
        shared_add = [c for c in add if role_mentions_param(w.role_of_operand(c.args[1]), "m")] if add else []
        ctx.check(not shared_add, "binder-entry-dropped", "Bind::weak_shape_impl never touches the shared numbering map for its binder",
                  "Bind::weak_shape_impl numbers the binder in the shared map and never removes the entry after the scope: a later free occurrence of the same name is numbered as if it were bound", where_of(w))
        return
    gets = [c for c in w.calls if c.callee and c.callee.name == "get" and add and w.dominated_by(add[0].bb, [c.bb]) and role_mentions_field(w.role_of_operand(c.args[1]), "slot")]
    ok_saved = bool(gets)
    ctx.check(ok_saved, "outer-binding-saved", "the numbering of an outer occurrence of the binder's name is read before the binder is numbered",
              "Bind::weak_shape_impl removes the binder's name from the numbering map after the scope without having saved an outer entry of the same name: a free `x` seen before a binder `x` loses its number and the returned bijection is not total", where_of(w))
    if not ok_saved:
        return
    g = gets[0]
    some_e = []
    for sb in w.switch_blocks():
        t = w.blocks[sb]["term"]
        r = w.role_of_operand(t["discr"])
        if r[0] == "discr" and strip_role(r[1])[0] == "call" and strip_role(r[1])[4] == g.bb:
            some_e += C.variant_edges(w, sb, 1)
    scope = [c.bb for c in w.calls if c.callee and c.callee.name == "weak_shape_impl" and not w.blocks[c.bb]["cleanup"]]
    ins = {c.bb for c in w.calls if c.callee and c.callee.name == "insert" and role_mentions_call(w.role_of_operand(c.args[2]), "get") and scope and w.dominated_by(c.bb, scope)}
    ok = bool(some_e) and bool(ins) and w.must_pass(some_e, w.return_blocks(), ins)
    # and when there was no outer entry, the binder's own entry does not survive its scope
    none_e = []
    for sb in w.switch_blocks():
        t = w.blocks[sb]["term"]
        r = w.role_of_operand(t["discr"])
        if r[0] == "discr" and strip_role(r[1])[0] == "call" and strip_role(r[1])[4] == g.bb:
            none_e += C.variant_edges(w, sb, 0)
    remb = {c.bb for c in rem if scope and w.dominated_by(c.bb, scope)}
    if none_e and scope:
        after_scope = [x for sb_ in scope for x in w.after(sb_)]
        ctx.check(bool(remb) and w.must_pass(after_scope, w.return_blocks(), remb | ins), "binder-entry-dropped", "without an outer entry the binder's entry is removed after the scope",
                  "Bind::weak_shape_impl can leave the binder's entry in the numbering map after its scope: a later free occurrence of the same name is numbered as if it were bound", where_of(w))
    ctx.check(ok, "outer-binding-restored", "after the scope the saved outer entry is re-inserted on every path", "Bind::weak_shape_impl saves the outer entry but does not restore it after the scope on every path", where_of(w))
    # ... under the binder's ORIGINAL name: numbering the binder overwrites `self.slot` with its shape name, so the key used when
    # leaving the scope must be the copy taken before (the same variable the saving `get` was keyed with), not `self.slot` read again
    def read_point(op):
        """block in which the value of a Copy operand was read out of a field place (following plain copies of temporaries)"""
        pl = mir.op_place(op)
        for _ in range(10):
            if pl is None:
                return None
            if pl["p"]:
                return ("here",)
            ds = w.defs().get(pl["l"], [])
            if len(ds) != 1 or ds[0]["kind"] != "assign" or ds[0]["rv"]["k"] != "use":
                return None
            src = mir.op_place(ds[0]["rv"]["op"])
            if src is not None and src["p"]:
                return ("bb", ds[0]["bb"])
            pl = src
        return None
    addbb = add[0].bb if add else None
    for c in list(rem) + [x for x in w.calls if x.callee and x.callee.name == "insert" and x.bb in ins]:
        rp = read_point(c.args[1])
        okk = rp is not None and rp[0] == "bb" and addbb is not None and w.dominated_by(addbb, [rp[1]]) and role_mentions_field(w.role_of_operand(c.args[1]), "slot")
        # (a read "here" happens at the call itself, i.e. after the binder was numbered)
        ctx.check(okk, "scope-exit-keyed-by-saved-name:" + c.callee.name, "the %s that ends the binder's scope is keyed by the saved name" % c.callee.name,
                  "Bind::weak_shape_impl ends the binder's scope with %s keyed by %s, not by the name saved before the binder was numbered (add_slot has replaced self.slot by its shape name by then): the binder's entry stays in the numbering map and a junk entry is added — later free occurrences of the name are numbered as bound, alpha-renaming the binder changes the shape, and the returned bijection is wrong" % (c.callee.name, role_str(w.role_of_operand(c.args[1]))[:50]),
                  where_of(w, c.bb))


@rule("D4", doc="private occurrences are determined per occurrence, not per name", once=True)
def d4(ctx):
    crate = ctx.lib("default")
    n = 0
    for name in ("private_slot_occurrences", "private_slot_occurrences_mut"):
        bs = [b for b in crate.by_name.get(name, []) if b.id.startswith("lang::Language::") and b.kind != "Closure"]
        if len(bs) != 1:
            raise mir.AnchorMissing("Language::" + name)
        b = bs[0]
        n += 1
        by_name = False
        for c in b.all_calls():
            if c.callee and c.callee.name in ("retain", "filter"):
                cl = strip_role(c.body.role_of_operand(c.args[1]))
                if cl[0] == "agg" and cl[1] in crate.bodies:
                    cb = crate.bodies[cl[1]]
                    for cc in cb.calls:
                        if cc.callee and cc.callee.name == "contains" and role_mentions_call(cb.role_of_operand(cc.args[0]), "public_slot_occurrences"):
                            by_name = True
        per_occ = any(c.callee and "private" in (c.callee.name or "") and c.callee.name != name for c in b.all_calls())
        if not by_name and not per_occ:
            raise mir.AnchorMissing("the computation of " + name, "neither the name-subtraction idiom nor a per-child private iterator was found")
        ctx.check(not by_name, "private-by-occurrence:" + name, "%s is computed per occurrence" % name,
                  "%s is computed as `all occurrences whose NAME is not among the public names`: when a free and a bound occurrence share a name (e.g. (sum (var $x) $x (var $x))) the bound occurrences are classified as public, so public and private do not partition the occurrences and refresh_private leaves the binder unrenamed" % name,
                  where_of(b))
    ctx.floor("private-occurrence functions", n, 2)


def _counter_place(a, lhs):
    """the assigned place is the counter m.1 — written as a field of the pair, or through a reference bound to it by a destructuring
    parameter pattern (`(renaming, next): &mut (SlotMap, u32)`)"""
    pf = mir.place_fields(lhs)
    if pf and pf[-1][1] == "1":
        return True
    return lhs["p"] == ["*"] and role_str(strip_role(a.role_of_local(lhs["l"]))) == "m.1"


@rule("N2", doc="shape numbering depends only on the occurrence counter (shared with C11)", once=True)
def n2(ctx):
    crate = ctx.lib("default")
    a = crate.free_fn("add_slot", "lang::")
    o = crate.free_fn("on_see_slot", "lang::")
    if len(a) != 1 or len(o) != 1:
        raise mir.AnchorMissing("lang::add_slot / lang::on_see_slot")
    a, o = a[0], o[0]
    num = [c for c in a.calls if c.callee and c.callee.target == "slot::Slot::numeric"]
    ok = len(num) == 1 and strip_role(a.role_of_operand(num[0].args[0])) == ("field", ("param", "m"), "1")
    ctx.check(ok, "new-number-from-counter", "add_slot names the occurrence Slot::numeric(m.1): the counter, never the old slot", "add_slot derives the new name from %s" % (role_str(a.role_of_operand(num[0].args[0])) if num else "no Slot::numeric call"), where_of(a))
    # the counter is bumped by one, the mapping old -> new is recorded, the occurrence is overwritten
    inc = [s for bi, si, s in a.statements() if s["k"] == "assign" and _counter_place(a, s["lhs"]) and role_str(a.role_of_rvalue(s["rv"])).startswith("(m.1 AddWithOverflow const 1_u32)")]
    ins = [c for c in a.calls if c.callee and c.callee.name == "insert"]
    def is_numeric(r):
        r = strip_role(r)
        return isinstance(r, tuple) and r[0] == "call" and r[1] == "numeric"
    oki = len(ins) == 1 and is_numeric(a.role_of_operand(ins[0].args[2])) and strip_role(a.role_of_operand(ins[0].args[1]))[0] in ("param",)
    st = [s for bi, si, s in a.statements() if s["k"] == "assign" and s["lhs"]["p"] == ["*"] and s["lhs"]["l"] == a.param_index("s")]
    if getattr(a, "out_param_as_return", None):
        # by-value form (`fn add_slot(s: Slot, m) -> Slot`): the new name is returned, the callers write it over the occurrence (D1)
        st = [s for bi, si, s in a.statements() if s["k"] == "assign" and not s["lhs"]["p"] and s["lhs"]["l"] == 0]
    # what is written over the occurrence and recorded is the number itself on every path (not "the old name in some case")
    oki = oki and all(is_numeric(a.role_of_rvalue(s_["rv"])) for s_ in st)
    incb = [bi for bi, si, s in a.statements() if s["k"] == "assign" and _counter_place(a, s["lhs"]) and role_str(a.role_of_rvalue(s["rv"])).startswith("(m.1 AddWithOverflow const 1_u32)")]
    insb = [c.bb for c in ins]
    ctx.check(len(incb) == 1 and a.must_pass([0], a.return_blocks(), set(incb)) and bool(insb) and a.must_pass([0], a.return_blocks(), set(insb)), "counter-step-unconditional",
              "every call of add_slot uses up a number and records old -> new: the bump and the insert lie on every path to the return",
              "add_slot can return without bumping the counter (or without recording the pair): a binder that shadows an already numbered name then shares its number with the next slot seen — the free slot is captured, alpha-variants get different shapes", where_of(a))
    ctx.check(len(inc) == 1 and oki and len(st) == 1, "counter-step-and-record", "add_slot bumps the counter by one, records old -> new and overwrites the occurrence", "add_slot no longer does counter += 1 / record / overwrite exactly once (inc=%d, insert ok=%s, stores=%d)" % (len(inc), oki, len(st)), where_of(a))
    # on_see_slot: reuse the recorded number, else add_slot
    g = [c for c in o.calls if c.callee and c.callee.name == "get"]
    ad = [c for c in o.calls if c.callee and c.callee.target == a.id]
    reuse = [s for bi, si, s in o.statements() if s["k"] == "assign" and s["lhs"]["p"] == ["*"] and role_mentions_call(o.role_of_rvalue(s["rv"]), "get")]
    if getattr(o, "out_param_as_return", None):
        reuse = [s for bi, si, s in o.statements() if s["k"] == "assign" and not s["lhs"]["p"] and s["lhs"]["l"] == 0 and role_mentions_call(o.role_of_rvalue(s["rv"]), "get")]
    ok = len(g) == 1 and len(ad) == 1 and len(reuse) == 1
    if ok:
        none_e = []
        for sb in o.switch_blocks():
            t = o.blocks[sb]["term"]
            r = o.role_of_operand(t["discr"])
            if r[0] == "discr" and role_mentions_call(r[1], "get"):
                none_e += C.variant_edges(o, sb, 0)
        ok = bool(none_e) and o.dominated_by(ad[0].bb, none_e)
    # the numbering step is total: a binder may re-number a name that an outer scope has already numbered (shadowing — D3 saves and
    # restores the outer entry around it), so add_slot must not refuse an already-seen name, also not in `checks` builds
    from .c18 import panic_sites
    for cfgname in ("default", "checks"):
        cr = ctx.lib(cfgname)
        for fb in cr.free_fn("add_slot", "lang::"):
            ps = [(sub_, bi_, k_) for sub_, bi_, k_, _ in panic_sites(cr, fb) if not k_.startswith("assert:overflow")]
            ctx.check(not ps, "numbering-step-total:" + cfgname, "add_slot has no panic path besides counter overflow (%s)" % cfgname,
                      "add_slot can panic (%s) in the %s configuration: Bind::weak_shape_impl calls it for a binder whose name is already numbered in an outer scope (shadowing), so a node that shadows a name cannot be shaped while its alpha-variant can" % (", ".join(sorted({k_ for _, _, k_ in ps})), cfgname),
                      where_of(fb))
    ctx.check(ok, "see-reuses-or-numbers", "on_see_slot reuses the number recorded for the slot, otherwise numbers it", "on_see_slot no longer reuses the recorded number / numbers only unseen slots", where_of(o))


RULES = [d1, d2, d2f, d3, d4, n2]


@rule("D5", doc="Language::weak_shape has no shortcut: every shape it returns is the result of the numbering pass (weak_shape_inplace / weak_shape_impl) over a copy of the node")
def d5(ctx):
    crate = ctx.lib()
    ws = [b for b in crate.by_name.get("weak_shape", []) if b.kind != "Closure" and (b.file or "").endswith("lang.rs")]
    if len(ws) != 1:
        raise mir.AnchorMissing("Language::weak_shape (default method in lang.rs)", "found %d" % len(ws))
    b = ws[0]
    defs = b.defs().get(0, [])
    ctx.floor("return definitions of Language::weak_shape", len(defs), 1)
    for d in defs:
        r = b.role_of_rvalue(d["rv"]) if d["kind"] == "assign" else ("call", d["call"].callee.name if d["call"].callee else "?", "", [b.role_of_operand(a) for a in d["call"].args], d["bb"])
        ok = role_mentions_call(r, "weak_shape_inplace") or role_mentions_call(r, "weak_shape_impl")
        if isinstance(strip_role(r), tuple) and strip_role(r)[0] == "agg":
            ops = strip_role(r)[2]
            ok = ok and all(role_mentions_call(o, "weak_shape_inplace") or role_mentions_call(o, "weak_shape_impl") or role_mentions_call(o, "clone") for o in ops) and any(role_mentions_call(o, "weak_shape_inplace") or role_mentions_call(o, "weak_shape_impl") for o in ops)
        ctx.check(ok, "shape-from-numbering-pass:%d" % d["bb"], "weak_shape returns (numbered copy, bijection of the numbering pass)",
                  "Language::weak_shape has a return path (%s) that does not come from the numbering pass: a node that merely *looks* numbered ($0, $1, .. by name) is not canonical when a number is shared between a binder and another binder or a free occurrence — alpha-equivalent nodes get different shapes" % role_str(r)[:120],
                  where_of(b, d["bb"], d.get("line")))
    C.check_only_allowed_skips(ctx, b, [c for c in b.calls if c.callee and c.callee.name in ("weak_shape_inplace", "weak_shape_impl")][0].bb if [c for c in b.calls if c.callee and c.callee.name in ("weak_shape_inplace", "weak_shape_impl")] else 0, [], "weak-shape", "running the numbering pass")


RULES.append(d5)


@rule("MC", doc="must-call census: no function of this property's files has gained an early exit in front of work it always did (every crate-local call that lay on all paths to a normal return in the reviewed tree still does)")
def mc(ctx):
    C.must_call_census(ctx, ctx.lib(), ['src/lang.rs', 'src/egraph/mod.rs'])


RULES.append(mc)


REDUCING = {"retain": "filter", "filter": "filter", "dedup": "dedup", "dedup_by": "dedup", "dedup_by_key": "dedup", "truncate": "truncate", "pop": "pop",
            "remove": "remove", "swap_remove": "remove", "drain": "drain", "take": "take", "skip": "skip", "step_by": "step_by", "take_while": "take", "skip_while": "skip",
            "sort": "sort", "sort_unstable": "sort", "sort_by": "sort", "sort_by_key": "sort", "reverse": "reverse", "rev": "reverse", "split_off": "truncate", "clear": "clear"}


@rule("D6", doc="the by-value and the by-reference list of private occurrences are the same list: both drop exactly the public occurrences from all occurrences and do nothing else to it (no de-duplication, truncation, re-ordering) — private and public then cover every occurrence, and the shape code, which walks the by-reference list, agrees with the code that walks the by-value one", once=True)
def d6(ctx):
    crate = ctx.lib("default")
    ops = {}
    for name in ("private_slot_occurrences", "private_slot_occurrences_mut"):
        bs = [b for b in crate.by_name.get(name, []) if b.id.startswith("lang::Language::") and b.kind != "Closure"]
        if len(bs) != 1:
            raise mir.AnchorMissing("Language::" + name)
        b = mir.inline_view(crate, bs[0])
        got = []
        for c in b.all_calls():
            if c.callee and not c.body.blocks[c.bb]["cleanup"] and c.callee.name in REDUCING and c.callee.target not in crate.bodies:
                got.append(REDUCING[c.callee.name])
        ops[name] = (sorted(got), bs[0])
    (o1, b1), (o2, b2) = ops["private_slot_occurrences"], ops["private_slot_occurrences_mut"]
    for name, (o, b) in ops.items():
        extra = [x for x in o if x != "filter"]
        ctx.check(not extra, "private-list-only-filtered:" + name, "%s only filters all occurrences" % name,
                  "%s also applies %s to the list of private occurrences: an occurrence of a bound slot is dropped (or moved), so public and private occurrences no longer cover all occurrences and the list disagrees with its twin" % (name, ", ".join(extra)),
                  where_of(b))
    ctx.check(o1 == o2, "private-twins-agree", "private_slot_occurrences and private_slot_occurrences_mut shape their lists the same way",
              "private_slot_occurrences applies %s, private_slot_occurrences_mut applies %s: the two lists of one node differ" % (o1, o2), where_of(b1))


RULES.append(d6)


@rule("D7", doc="payload types round-trip through their text: to_syntax is [String(self.to_string())] and from_syntax accepts exactly a single String element and answers parse() of it — no further condition on the text (a guard that suits the integer types, such as 'no leading +', silently rejects the symbol `+`)", once=True)
def d7(ctx):
    crate = ctx.lib("default")
    n = 0
    for b in crate.fns():
        if b.name != "from_syntax" or not (b.impl_trait or "").endswith("LanguageChildren") or b.kind == "Closure" or not (b.file or "").endswith("lang.rs"):
            continue
        ps = [c for c in b.calls if c.callee and c.callee.name == "parse" and "str" in (c.callee.target or "") and not b.blocks[c.bb]["cleanup"]]
        if not ps:
            continue            # Slot / AppliedId / Bind / Vec: structured children, not payload text
        n += 1
        extra = []
        for c in ps:
            for e, cond in C.conditions_at(b, c.bb):
                r = strip_role(cond[1]) if len(cond) > 1 else None
                if isinstance(r, tuple) and r[0] == "discr":
                    continue                # the element is a SyntaxElem::String
                if isinstance(r, tuple) and r[0] == "bin" and "PtrMetadata" in role_str(r):
                    continue                # the slice has one element
                if isinstance(r, tuple) and r[0] == "call" and r[1] in ("len", "is_empty"):
                    continue
                if cond[0] in ("eq", "ne") and any("len(" in role_str(x) or "PtrMetadata" in role_str(x) for x in cond[1:]):
                    continue
                extra.append("%s %s" % (cond[0], role_str(r)[:60] if r is not None else ""))
        ctx.check(not extra, "payload-from-syntax-unguarded:" + (b.impl_self or "?"), "from_syntax of %s parses the single text element without further conditions" % b.impl_self,
                  "from_syntax of the payload type %s puts a condition on the text in front of parse() (%s): values whose printed form meets it no longer read back — to_syntax / from_syntax do not round-trip, and terms containing such a payload do not parse" % (b.impl_self, "; ".join(extra)), where_of(b))
        ret_ok = any(role_mentions_call(b.role_of_rvalue(d["rv"]) if d["kind"] == "assign" else ("call", d["call"].callee.name, "", [b.role_of_operand(a) for a in d["call"].args], d["bb"]), "parse") for d in b.defs().get(0, []))
        ctx.check(ret_ok, "payload-from-syntax-is-parse:" + (b.impl_self or "?"), "from_syntax answers parse() of the element", "from_syntax of %s does not answer with parse() of the text" % b.impl_self, where_of(b))
    ctx.floor("payload types with a text form", n, 5)
    m = 0
    for b in crate.fns():
        if b.name != "to_syntax" or not (b.impl_trait or "").endswith("LanguageChildren") or b.kind == "Closure" or not (b.file or "").endswith("lang.rs"):
            continue
        ts = [c for c in b.calls if c.callee and c.callee.name == "to_string" and not b.blocks[c.bb]["cleanup"]]
        if not ts:
            continue
        m += 1
        ok = all(strip_role(b.role_of_operand(c.args[0])) == ("param", "self") for c in ts) and len(ts) == 1
        ctx.check(ok, "payload-to-syntax:" + (b.impl_self or "?"), "to_syntax prints the value itself", "to_syntax of %s does not print the value itself (%s)" % (b.impl_self, [role_str(b.role_of_operand(c.args[0])) for c in ts]), where_of(b))
    ctx.floor("payload printers", m, 5)


RULES.append(d7)


@rule("D8", doc="from_syntax of the leaf children (AppliedId, Slot) is the inverse of to_syntax: whatever it answers with is (a copy of) the element it was handed — never a constant such as AppliedId::null() chosen by looking at the element (`x.m.is_empty() => null()` drops the id of every closed child: to_syntax / from_syntax stop round-tripping and from_syntax stops being injective)", once=True)
def d8(ctx):
    crate = ctx.lib("default")
    impls = lc_impls(crate)
    n = 0
    for ty in ("types::AppliedId", "slot::Slot"):
        m = impls.get(ty, {})
        b = m.get("from_syntax")
        if b is None:
            raise mir.AnchorMissing("LanguageChildren::from_syntax for " + ty)
        pname = b.var_names.get(1) or "elems"
        for sub in b.all_bodies():
            for bi, si, s in sub.statements():
                rv = s["rv"] if s["k"] == "assign" else None
                if not rv or rv["k"] != "agg" or rv.get("variant") != "Some" or "Option" not in str(rv.get("adt", rv.get("name", ""))) + str(rv):
                    continue
                if sub.blocks[bi]["cleanup"] or not rv["ops"]:
                    continue
                r = sub.role_of_operand(rv["ops"][0])
                n += 1
                ctx.check(role_mentions_param(r, pname), "from-syntax-returns-what-it-read:" + ty.split("::")[-1], "%s::from_syntax answers with the element it was given" % ty,
                          "%s::from_syntax can answer with %s, which does not come from the syntax elements it was given: to_syntax followed by from_syntax no longer returns the same child (and two different children read back as the same one)" % (ty, role_str(r)[:80]),
                          where_of(sub, bi, s.get("line")))
    ctx.floor("Some(..) answers of the leaf from_syntax impls", n, 2)


RULES.append(d8)

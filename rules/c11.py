"""C11 — slot names do not matter (name-independence of canonical forms; order-sensitivity census)."""
import re
from salib import mir
from salib.mir import role_str, role_walk, strip_role, role_mentions_field, role_mentions_call, role_mentions_param
from salib.runner import rule, where_of
from . import common as C
from . import c16
from .c01 import canonical_variant_functions
from .c09 import class_allocators

META = {
    "level": "other",
    "explanation": "N1: the canonical group variant of a node is chosen by minimising a key computed from the variant's name-free weak "
                   "shape; N2: shape numbering depends only on the occurrence counter, never on the slot's own value (C16.N2); N3: the slot "
                   "set handed to the class allocator is the value set of inverse(bijection_from_fresh_to(..)) — classes never store user "
                   "names; N4: census of every order-sensitive operation on slot-carrying types (Ord/min/max/sort/binary-search calls, and "
                   "iterations over sorted slot sets whose body invents names) against a frozen table with one reason per entry; a new "
                   "entry is reported as an unreviewed name-order dependence.",
    "not_decided": "equivariance of whole runs; effects of ties between group-equivalent variants as values",
    "assumptions": ["VecSet / SlotMap iterate in Ord order of Slot"],
}

ORD = {"cmp", "partial_cmp", "lt", "le", "gt", "ge", "min", "max", "min_by", "min_by_key", "max_by", "max_by_key", "sort", "sort_by", "sort_by_key",
       "sort_unstable", "sort_unstable_by", "sort_unstable_by_key", "binary_search", "binary_search_by", "binary_search_by_key", "is_sorted", "dedup", "clamp"}

# Frozen census tables.  Keyed by (source file, operation) with the number of sites reviewed there, not by
# function names: renaming or splitting an internal function keeps the verdict, a NEW site in the file exceeds
# the reviewed count and is reported.
# (file, callee) -> (reviewed count, reason)
ORD_CLASS = {}
for _n in ("cmp", "partial_cmp", "lt", "le", "gt", "ge", "min", "max", "min_by", "min_by_key", "max_by", "max_by_key", "clamp"):
    ORD_CLASS[_n] = "select"        # choosing / comparing by order: `min_by_key(k)` and a loop with `best_key <= key` are the same thing
for _n in ("sort", "sort_by", "sort_by_key", "sort_unstable", "sort_unstable_by", "sort_unstable_by_key", "is_sorted", "dedup"):
    ORD_CLASS[_n] = "sort"
for _n in ("binary_search", "binary_search_by", "binary_search_by_key"):
    ORD_CLASS[_n] = "search"

ORD_TABLE_OLD = {
    ("src/egraph/mod.rs", "sort"): (1, "debug dump: slots of a class are sorted for display only (class-internal fresh names)"),
    ("src/egraph/mod.rs", "sort_by_key"): (1, "debug dump: classes sorted by Id"),
    ("src/egraph/mod.rs", "min_by_key"): (1, "canonical group variant: the key is the occurrence vector of the name-free weak shape (rule N1 checks exactly that)"),
    ("src/group/mod.rs", "min"): (1, "base point of the stabiliser chain: slots of a class are class-internal fresh names; any base point gives the same group"),
    ("src/slotmap.rs", "sort_by_key"): (1, "test-only representation check"),
    ("src/slotmap.rs", "binary_search_by_key"): (1, "representation invariant of SlotMap (C19): the order is internal, equality/lookup do not depend on it"),
}

# (file, operation class) -> (reviewed count, reason)
ORD_TABLE = {
    ("src/egraph/mod.rs", "sort"): (2, "debug dump: slots of a class are sorted for display only (class-internal fresh names); classes sorted by Id"),
    ("src/egraph/mod.rs", "select"): (1, "canonical group variant: the key is the occurrence vector of the name-free weak shape (rule N1 checks exactly that)"),
    ("src/group/mod.rs", "select"): (1, "base point of the stabiliser chain: slots of a class are class-internal fresh names; any base point gives the same group"),
    ("src/slotmap.rs", "sort"): (1, "test-only representation check"),
    ("src/slotmap.rs", "search"): (1, "representation invariant of SlotMap (C19): the order is internal, equality/lookup do not depend on it"),
}

# file -> (reviewed count of name-inventing iterations over sorted slot sets, reason)
ITER_TABLE = {
    "src/egraph/mod.rs": (2, "enodes_applied / synify_app_id: fresh names for bound, redundant, uncovered or syntactic slots; which fresh name goes to which slot is unobservable up to renaming of fresh names"),
    "src/egraph/rebuild.rs": (1, "work-list handler: fresh fill-in for redundant slots of a re-inserted node"),
    "src/explain/front.rs": (1, "fresh names inside a proof step"),
    "src/explain/proof.rs": (3, "fresh names inside proof steps (Equation::apply_slotmap_fresh, TransitivityProof::check x2)"),
    "src/explain/registry.rs": (2, "proof registry key: numbering follows Slot order, so two renamings of one equation may get different keys; this only weakens proof sharing, a cached proof is returned for an equal key only"),
    "src/rewrite/ematch.rs": (1, "final_subst: fresh names for slots the pattern does not mention"),
    "src/slotmap.rs": (2, "bijection_from_fresh_to / compose_fresh: fresh names for a set of slots / fresh fill-in, one per key"),
}


LOSSY_KEYS = {"public_slot_occurrences", "private_slot_occurrences", "slots", "public_slots", "private_slots", "ids", "len"}


@rule("N1", doc="variant minimisation is keyed on a name-free shape, and the key separates distinct variants")
def n1(ctx):
    crate = ctx.lib()
    for fid in C.need("canonical-variant", canonical_variant_functions(crate)):
        b = crate.bodies[fid]
        mins = [c for c in b.calls if c.callee and c.callee.name in ("min_by_key", "min_by", "min") and not b.blocks[c.bb]["cleanup"]]
        if not mins:
            # loop form: `if best_key <= key` with both keys = all_slot_occurrences(weak_shape(variant).0)
            cmps = [c for c in b.calls if c.callee and c.callee.name in ("lt", "le", "gt", "ge", "cmp", "partial_cmp") and len(c.args) == 2 and not b.blocks[c.bb]["cleanup"]]
            ctx.floor("minimisations in " + C.short(fid), len(cmps), 1)
            for c in cmps:
                rs = [b.role_of_operand(a) for a in c.args]
                ok = all(role_mentions_call(r, "weak_shape") and any(isinstance(x, tuple) and x[0] == "call" and x[1] in ("all_slot_occurrences", "slots", "public_slot_occurrences") and all(role_mentions_call(a_, "weak_shape") for a_ in x[3]) for x in role_walk(r)) for r in rs)
                tot = all(any(isinstance(x, tuple) and x[0] == "call" and x[1] == "all_slot_occurrences" for x in role_walk(r)) or not any(isinstance(x, tuple) and x[0] == "call" and x[1] in LOSSY_KEYS for x in role_walk(r)) for r in rs)
                ctx.check(tot, "key-separates-variants:" + C.fkey(b), "the key compared is the full occurrence vector of the weak shape (distinct variants never tie)",
                          "the canonical group variant is chosen by comparing a projection of the weak shape that drops occurrences (%s): distinct variants tie, the winner is whichever the enumeration lists first, so the canonical form of a node depends on which member of its orbit was passed in — congruent nodes get different hashcons keys" % [role_str(r)[:50] for r in rs], where_of(b, c.bb))
                ctx.check(ok, "key-is-name-free:" + C.fkey(b), "the canonical variant minimises the occurrence vector of the weak shape (loop form)",
                          "the canonical group variant of a node is chosen by comparing %s: the choice depends on the node's slot NAMES" % [role_str(r)[:60] for r in rs], where_of(b, c.bb))
                lps = [l for l in C.iterator_loops(b) if any("variants" in x[1] for x in role_walk(l[1]) if isinstance(x, tuple) and x[0] == "call")]
                ctx.check(bool(lps) and all(C.loop_exhaustive(b, l) for l in lps), "minimises-over-all-variants:" + C.fkey(b), "the minimum ranges over all group-compatible variants",
                          "the loop choosing the canonical variant does not range over all group-compatible variants", where_of(b, c.bb))
            continue
        ctx.floor("minimisations in " + C.short(fid), len(mins), 1)
        for c in mins:
            ok = False
            if c.callee.name == "min_by_key":
                cl = strip_role(b.role_of_operand(c.args[1]))
                if cl[0] == "agg" and cl[1] in crate.bodies:
                    r = crate.bodies[cl[1]].role_of_local(0)
                    ws = [x for x in role_walk(r) if isinstance(x, tuple) and x[0] == "call" and x[1] == "weak_shape"]
                    ok = bool(ws) and all(any(isinstance(y, tuple) and y[0] == "call" and y[1] == "weak_shape" for y in role_walk(a)) or not any(isinstance(y, tuple) and y[0] == "param" and y[1] != "_closure" for y in role_walk(a))
                                          for x in role_walk(r) if isinstance(x, tuple) and x[0] == "call" and x[1] in ("all_slot_occurrences", "slots", "public_slot_occurrences") for a in x[3])
                    why = role_str(r)
                    lossy = sorted({x[1] for x in role_walk(r) if isinstance(x, tuple) and x[0] == "call" and x[1] in LOSSY_KEYS})
                    tot = any(isinstance(x, tuple) and x[0] == "call" and x[1] == "all_slot_occurrences" for x in role_walk(r)) or not lossy
                    ctx.check(tot, "key-separates-variants:" + C.fkey(b), "the minimisation key is the full occurrence vector of the weak shape (distinct variants never tie)",
                              "the canonical group variant is chosen by a key that drops occurrences of the weak shape (%s): distinct variants tie, min_by_key returns whichever the enumeration lists first, so the canonical form of a node depends on which member of its orbit was passed in — congruent nodes (e.g. binder nodes whose bound slot is moved by the child's symmetry) get different hashcons keys and an implied equality is not reported" % ", ".join(lossy), where_of(b, c.bb))
                else:
                    why = role_str(cl)
            else:
                why = "plain %s on the variants (compares the variants' own slot names)" % c.callee.name
            ctx.check(ok, "key-is-name-free:" + C.fkey(b), "the canonical variant minimises %s" % why[:120],
                      "the canonical group variant of a node is chosen by %s: the choice depends on the node's slot NAMES, so renaming the input changes which variant is canonical and equal nodes get different hashcons keys" % why[:160], where_of(b, c.bb))
            src = b.role_of_operand(c.args[0])
            ctx.check(role_mentions_call(src, "proven_proven_get_group_compatible_variants") or any("variants" in x[1] for x in role_walk(src) if isinstance(x, tuple) and x[0] == "call"), "minimises-over-all-variants:" + C.fkey(b),
                      "the minimum ranges over all group-compatible variants", "the minimum ranges over %s" % role_str(src)[:100], where_of(b, c.bb))


@rule("N2", doc="shape numbering depends only on the occurrence counter (C16.N2)", once=True)
def n2(ctx):
    c16.n2(ctx)


@rule("N3", doc="class parameters are always fresh names")
def n3(ctx):
    crate = ctx.lib()
    al = set(C.need("class allocator", class_allocators(crate)))
    n = 0
    for b in crate.fns():
        for c in C.calls_to(crate, b, al):
            n += 1
            callee = crate.bodies[c.callee.target]
            # the slot-set parameter
            pidx = [i for i in range(1, callee.argc + 1) if "VecSet" in callee.local_ty(i)]
            if not pidx:
                raise mir.AnchorMissing("slot-set parameter of the class allocator")
            r = c.body.role_of_operand(c.args[pidx[0] - 1])
            ok = role_mentions_call(r, "bijection_from_fresh_to") and role_mentions_call(r, "inverse") and role_mentions_call(r, "values")
            ctx.check(ok, "fresh-class-slots:" + C.fkey(b), "the new class's slot set is values(inverse(bijection_from_fresh_to(..)))",
                      "%s allocates a class whose parameter slots are %s: not freshly invented names — a class would store user slot names and its behaviour would depend on them" % (C.short(b.id), role_str(r)[:120]), where_of(c.body, c.bb))
    ctx.floor("class allocation sites", n, 1)
    bf = crate.method("slotmap::SlotMap", "bijection_from_fresh_to")
    if bf:
        from .c19 import result_pairs
        ps = [(k, v) for k, v, _, _, _ in result_pairs(crate, bf[0])]
        ok = len(ps) == 1 and ps[0][0] == ("fresh",)
        ctx.check(ok, "fresh-keys", "bijection_from_fresh_to maps Slot::fresh() -> x", "bijection_from_fresh_to no longer uses Slot::fresh() for its keys", where_of(bf[0]))


@rule("N4", doc="order-sensitivity census against the frozen table")
def n4(ctx):
    crate = ctx.lib()
    n = 0
    seen = {}
    for b in crate.bodies.values():
        root = crate.root_of(b)
        if root.auto_derived or (root.file or "").endswith("tst.rs"):
            continue
        for c in b.calls:
            if not c.callee or b.blocks[c.bb]["cleanup"] or c.callee.name not in ORD:
                continue
            tys = " ".join(c.callee.gargs) + " " + " ".join(b.local_ty(mir.op_place(a)["l"]) for a in c.args if mir.op_place(a) is not None)
            if not re.search(r"slot::Slot|SlotMap|AppliedId|\bL\b|VecSet|types::Id\b", tys):
                continue
            n += 1
            seen.setdefault((b.file, ORD_CLASS.get(c.callee.name, c.callee.name)), []).append((root, b, c, tys))
    # reviewed totals per operation class for the whole library (moving code between files keeps the verdict)
    tot_by = {}
    rev_by = {}
    for (file, cal), sites in seen.items():
        tot_by.setdefault(cal, []).extend(sites)
    for (file, cal), (cnt, why) in ORD_TABLE.items():
        rev_by.setdefault(cal, [0, []])
        rev_by[cal][0] += cnt
        rev_by[cal][1].append("%s: %s" % (file, why))
    for cal, sites in sorted(tot_by.items()):
        ent = (rev_by[cal][0], "; ".join(rev_by[cal][1])) if cal in rev_by else None
        file = "the library"
        if True:
            if ent is not None and len(sites) <= ent[0]:
                ctx.ok("ord:%s" % cal, "%d reviewed use(s) of order-sensitive operations of class '%s' on slot-carrying data — %s" % (len(sites), cal, ent[1][:300]), where_of(sites[0][1], sites[0][2].bb))
            else:
                root, b, c, tys = sites[-1]
                ctx.bad("ord:%s" % cal, "unreviewed name-order dependence: %d use(s) of order-sensitive operations of class '%s' on types that contain slots, %d reviewed; e.g. %s calls %s (%s). Its result can differ between two inputs that are renamings of each other" % (
                    len(sites), cal, ent[0] if ent else 0, C.short(root.id), c.callee.name, tys[:80]), where_of(b, c.bb))
    for (file, cal), sites in []:
        ent = ORD_TABLE.get((file, cal))
        if ent is not None and len(sites) <= ent[0]:
            ctx.ok("ord:%s:%s" % (file, cal), "%d reviewed use(s) of %s on slot-carrying data in %s — %s" % (len(sites), cal, file, ent[1]), where_of(sites[0][1], sites[0][2].bb))
        else:
            root, b, c, tys = sites[-1]
            ctx.bad("ord:%s:%s" % (file, cal), "unreviewed name-order dependence: %s in %s calls %s on a type that contains slots (%s); %d site(s) in this file, %d reviewed. Its result can differ between two inputs that are renamings of each other" % (
                C.short(root.id), file, cal, tys[:80], len(sites), ent[0] if ent else 0), where_of(b, c.bb))
    ctx.floor("order-sensitive calls on slot-carrying types", n, 3)
    m = 0
    seen = {}
    for b in crate.bodies.values():
        root = crate.root_of(b)
        for lp in C.iterator_loops(b):
            sb, it, none_e, some_e, cs = lp
            if cs is None or mir.op_place(cs.args[0]) is None:
                continue
            ty = b.local_ty(mir.op_place(cs.args[0])["l"])
            if "slot::Slot" not in ty or "IntoIter<&mut slot::Slot>" in ty:
                continue
            body = b.reach(some_e, avoid=none_e)
            inv = sorted({x.callee.name for x in b.calls if x.bb in body and x.callee and x.callee.target in ("slot::Slot::fresh", "slot::Slot::numeric")})
            if not inv:
                continue
            m += 1
            seen.setdefault(b.file, []).append((root, b, sb, inv))
    allsites = [x for v in seen.values() for x in v]
    reviewed = sum(v[0] for v in ITER_TABLE.values())
    if allsites:
        if len(allsites) <= reviewed:
            ctx.ok("iter", "%d reviewed name-inventing iteration(s) over sorted slot sets in the library (table: %d)" % (len(allsites), reviewed), where_of(allsites[0][1], allsites[0][2]))
        else:
            root, b, sb, inv = allsites[-1]
            ctx.bad("iter", "unreviewed name-order dependence: %d loops iterate a slot set in Slot order and call Slot::%s in the body, %d reviewed; e.g. %s" % (len(allsites), "/".join(inv), reviewed, C.short(root.id)), where_of(b, sb))
    for file, sites in []:
        ent = ITER_TABLE.get(file)
        if ent is not None and len(sites) <= ent[0]:
            ctx.ok("iter:%s" % file, "%d reviewed name-inventing iteration(s) over sorted slot sets in %s — %s" % (len(sites), file, ent[1]), where_of(sites[0][1], sites[0][2]))
        else:
            root, b, sb, inv = sites[-1]
            ctx.bad("iter:%s" % file, "unreviewed name-order dependence: %s in %s iterates a slot set in Slot order and calls Slot::%s in the loop body (%d such loops in this file, %d reviewed); which invented name goes to which slot depends on how the user's names sort" % (
                C.short(root.id), file, "/".join(inv), len(sites), ent[0] if ent else 0), where_of(b, sb))
    ctx.floor("name-inventing iterations over slot sets", m, 3)


@rule("P2", doc="touch-after-change with Full (shared with C02): a stale parent shape is canonical or not depending on how names sort")
def p2(ctx):
    from . import c02
    c02.p2(ctx)


RULES = [n1, n2, n3, n4, p2]


@rule("H10", doc="names invented for uncovered slots are brand-new, never derived from existing spellings (shared with C03.H3 / H10)")
def h10(ctx):
    from . import c03
    c03.h3(ctx)
    c03.h10(ctx)


RULES.append(h10)


@rule("G1", doc="the stabiliser chain's base point is the lowest moved slot, i.e. it depends on how names sort: only a chain whose compositions follow the convention gives name-independent answers (shared with C10.G1)")
def g1(ctx):
    from . import c10
    c10.g1(ctx)


RULES.append(g1)


@rule("K8", cfgs="explanations", doc="proof-registry keys do not depend on how slot names sort: the key renaming is injective (C07.K8)")
def k8(ctx):
    from . import c07
    c07.k8(ctx)


RULES.append(k8)


@rule("MC", doc="must-call census: no function of this property's files has gained an early exit in front of work it always did (every crate-local call that lay on all paths to a normal return in the reviewed tree still does)")
def mc(ctx):
    C.must_call_census(ctx, ctx.lib(), ['src/egraph/mod.rs', 'src/lang.rs', 'src/group/mod.rs', 'src/slot.rs', 'src/rewrite/ematch.rs', 'src/parse.rs'])


RULES.append(mc)


@rule("N5", doc="on a class merge the deprecated class's symmetries are carried over through the argument-wise correspondence deprecated.m ; survivor.m^-1 — never through a positional pairing of the two classes' slots, which depends on how the names sort (C10.G8)")
def n5(ctx):
    from . import c10
    c10.g8(ctx)


RULES.append(n5)


@rule("N6", doc="a derived self-symmetry enters a class's group only as a permutation of the class's slots — the two invocations it is read off have the same slot SET (C10.G7): a partial map in the group panics or is silently ignored depending on which slot is the lowest moved one, i.e. on how the class's slot names sort")
def n6(ctx):
    from . import c10
    c10.g7(ctx)


RULES.append(n6)

"""C08 — no panic, structure consistent (structural necessary conditions only; panic-freedom is not decided)."""
from salib import mir
from salib.mir import role_str, role_walk, strip_role, role_mentions_field, role_mentions_call, role_mentions_param
from salib.runner import rule, where_of
from . import common as C
from . import c02

META = {
    "level": "other",
    "explanation": "Decides the consistency discipline of the e-graph's redundant indexes: hashcons / EClass.nodes / EClass.usages have "
                   "the same writer set and are updated together with the same key (W1); the union-find has no writer reachable from a "
                   "&self API and path compression stores a value built from the old edge and the recursive result (W2); slot set, group, "
                   "union-find edge and re-queue change together (W3); code under `if CHECKS` is ghost: it neither mutates the e-graph nor "
                   "defines values used outside (W4), so the assertion builds compute the same states; rebuild-before-return (P1) and the "
                   "orbit rule (P7) are shared with C02. W5: node bijections stored in the indexes are built by key-preserving operations only; W6: an e-node taken out of the indexes by the work-list handler takes a work-list entry created for it earlier in the same handler along (no stale key); G7: a derived self-symmetry is stored only when both invocations have the same slot set; SI: a node is re-inserted only after slots(class) is a subset of slots(node) or the class was shrunk.",
    "not_decided": "panic-freedom over all histories (about 110 indexing and 60 unwrap/expect/panic sites rest on data-structure invariants); "
                   "the census is reported as information",
    "assumptions": ["no unsafe code in the crate (asserted by the unsafe census on every run)"],
}

INS = {"insert"}
REM = {"remove"}


def _index_ops(b):
    """(container, op, callsite) for insert/remove on hashcons, .nodes, .usages in body b (with closures)"""
    out = []
    for c in b.all_calls():
        if not c.callee or c.callee.name not in ("insert", "remove") or not c.args:
            continue
        r = strip_role(c.body.role_of_operand(c.args[0]))
        if isinstance(r, tuple) and r[0] == "field" and r[2] in ("hashcons", "nodes", "usages"):
            # make sure it is EGraph.hashcons / EClass.nodes / EClass.usages and not something else
            if r[2] == "hashcons" and not role_mentions_param(r, "self"):
                continue
            if r[2] in ("nodes", "usages") and not role_mentions_field(r, "classes"):
                continue
            out.append((r[2], c.callee.name, c))
    return out


@rule("W1", doc="index coherence: hashcons / nodes / usages are written together with the same key")
def w1(ctx):
    crate = ctx.lib()
    hw = set(C.writers(crate, C.EGRAPH, "hashcons"))
    nw = set(C.writers(crate, C.ECLASS, "nodes"))
    uw = set(C.writers(crate, C.ECLASS, "usages"))
    ctx.roleset("W_hashcons", sorted(hw))
    ctx.roleset("W_nodes", sorted(nw))
    ctx.roleset("W_usages", sorted(uw))
    allw = hw | nw | uw
    ctx.floor("index writers", len(allw), 2)
    # a private helper that updates one of the indexes for its callers (e.g. `update_usages(sh, Register | Unregister)`) is part
    # of those callers: every one of its callers must itself be an index writer, and the callers are examined with the helper
    # spliced in (specialised to the constant they pass)
    callers = {}
    for fb in crate.fns():
        for c in fb.all_calls():
            if c.callee and c.callee.target in allw and not c.body.blocks[c.bb]["cleanup"]:
                callers.setdefault(c.callee.target, set()).add(fb.id)
    helpers = {w for w in allw if crate.bodies[w].vis != "pub" and callers.get(w) and callers[w] <= (allw - {w})
               and [n for n, s_ in (("h", hw), ("n", nw), ("u", uw)) if w not in s_]}

    def writes(view, field):
        for c in view.all_calls():
            if c.callee and c.callee.name in ("insert", "remove", "entry", "get_mut", "retain", "clear") and c.args and not c.body.blocks[c.bb]["cleanup"]:
                r = strip_role(c.body.role_of_operand(c.args[0]))
                if isinstance(r, tuple) and r[0] == "field" and r[2] == field:
                    return True
        return False
    for wid in sorted(allw):
        if wid in helpers:
            ctx.ok("index-helper:" + C.fkey(crate.bodies[wid]), "%s updates an index on behalf of the index writers %s only" % (C.short(wid), sorted(C.short(x) for x in callers[wid])), where_of(crate.bodies[wid]))
            continue
        # (with no index helper the default policy still applies: a new private accessor such as `class_mut(id)` is looked through)
        b = mir.inline_view(crate, crate.bodies[wid], depth=2, policy=helpers) if helpers else mir.inline_view(crate, crate.bodies[wid], depth=2)
        missing = [n for n, s, f_ in (("hashcons", hw, "hashcons"), ("EClass.nodes", nw, "nodes"), ("EClass.usages", uw, "usages")) if wid not in s and not (b is not crate.bodies[wid] and writes(b, f_))]
        ctx.check(not missing, "writes-all-three:" + C.fkey(b), "%s writes hashcons, nodes and usages" % C.short(wid),
                  "%s writes some of the three e-node indexes but not %s — the indexes the consistency check compares can drift apart" % (C.short(wid), missing), where_of(b))
        if missing:
            continue
        ops = _index_ops(b)
        kinds = {op for _, op, _ in ops}
        ctx.check(len(kinds) == 1, "one-direction:" + C.fkey(b), "%s performs only %s on all indexes" % (C.short(wid), sorted(kinds)),
                  "%s mixes insert and remove on the three indexes: %s" % (C.short(wid), sorted((n, o) for n, o, _ in ops)), where_of(b))
        by = {}
        for n, o, c in ops:
            by.setdefault(n, []).append(c)
        # hashcons and nodes on every path
        for n in ("hashcons", "nodes"):
            blocks = {c.bb for c in by.get(n, []) if c.body is b}
            ok = bool(blocks) and b.must_pass([0], b.return_blocks(), blocks)
            ctx.check(ok, "every-path:%s:%s" % (n, C.fkey(b)), "every path through %s updates %s" % (C.short(wid), n),
                      "a path through %s returns without updating %s while the other indexes are updated" % (C.short(wid), n), where_of(b))
        # usages: loop over ids() of the same shape
        us = by.get("usages", [])
        okl = bool(us) and all(role_mentions_call(c.body.role_of_operand(c.args[0]), "ids") for c in us)
        ctx.check(okl, "usages-over-ids:" + C.fkey(b), "usages are updated for every id in sh.ids()",
                  "the usages update in %s is not driven by the ids() of the e-node being written" % C.short(wid), where_of(b))
        # ... for EVERY id, the node's own class included: no skip inside the loop over ids() ("a node is not a usage of the class
        # it lives in" is wrong — a self-referential node depends on its class's slots and symmetries like any parent does, and the
        # re-queue after a change of the class walks exactly this index)
        for c in us:
            if c.body is not b:
                continue
            extra = []
            for e, cond in C.conditions_at(b, c.bb, expand=False) if "expand" in C.conditions_at.__code__.co_varnames else C.conditions_at(b, c.bb):
                r0 = cond[1] if len(cond) > 1 else None
                if isinstance(r0, tuple) and r0[0] == "discr":
                    continue            # the loop's own `next()` test
                if isinstance(r0, tuple) and r0[0] == "const":
                    continue
                extra.append("%s %s" % (cond[0], role_str(r0)[:50] if r0 is not None else ""))
            ctx.check(not extra, "usages-for-every-id:" + C.fkey(b), "%s updates the usages of every class the node refers to" % C.short(wid),
                      "%s skips the usages update for some of the classes the e-node refers to (%s): such a node is never re-queued when that class changes in place (a slot becomes redundant, a symmetry is found) and keeps a stale hashcons key — congruences through it are missed" % (C.short(wid), "; ".join(extra)),
                      where_of(b, c.bb))
        # same key: the key argument of all three mentions the same parameter
        keyparams = []
        for n, cs in by.items():
            for c in cs:
                kr = c.body.role_of_operand(c.args[1])
                ps = sorted({x[1] for x in role_walk(kr) if isinstance(x, tuple) and x[0] == "param" and x[1] not in ("self", "_closure")})
                keyparams.append((n, tuple(ps)))
        common = None
        for n, ps in keyparams:
            s = set(ps)
            common = s if common is None else (common & s)
        ctx.check(bool(common), "same-key:" + C.fkey(b), "all three indexes are keyed by parameter %s" % sorted(common or []),
                  "the three index updates in %s do not share one key parameter: %s" % (C.short(wid), keyparams), where_of(b))


def find_impl_functions(crate):
    """path compression routine: has a `&mut [ProvenAppliedId]` parameter, stores into it by index, calls itself"""
    out = []
    for b in crate.fns():
        ps = [l for l in range(1, b.argc + 1) if "&mut [" in b.local_ty(l) and "ProvenAppliedId" in b.local_ty(l)]
        if not ps:
            continue
        rec = [c for c in b.calls if c.callee and c.callee.target == b.id]
        stores = [s_ for bi, si, s_ in b.statements() if s_["k"] == "assign" and s_["lhs"]["l"] == ps[0] and any(isinstance(p, dict) and ("idx" in p or "cidx" in p) for p in s_["lhs"]["p"])]
        idxm = [c for c in b.calls if c.callee and c.callee.name == "index_mut" and role_mentions_param(b.role_of_operand(c.args[0]), b.var_names.get(ps[0]))]
        if rec or ((stores or idxm) and C.iterator_loops(b)):
            out.append((b, ps[0]))       # recursive, or iterative (walk up, then compress the remembered path)
    return out


@rule("W2", doc="union-find: setter only under &mut EGraph; compression stores (old edge ; recursive result)")
def w2(ctx):
    crate = ctx.lib()
    ufs = set(C.need("uf-setter", C.uf_setters(crate)))
    ctx.roleset("uf-setter", sorted(ufs))
    n = 0
    for b in crate.fns():
        cs = C.calls_to(crate, b, ufs)
        if not cs:
            continue
        n += 1
        recv_mut = b.argc >= 1 and b.local_ty(1).startswith("&mut egraph::EGraph<")
        if not recv_mut and b.vis != "pub" and b.kind != "Closure":
            # a private helper that itself gets `&self` (the cell needs no more) is fine when everything that calls it — up to two
            # levels — holds the e-graph mutably: no read-only API can reach it
            def only_from_mut(fb, depth):
                cs_ = [x for x in crate.fns() if x.id != fb.id and any(c_.callee and c_.callee.target == fb.id for c_ in x.all_calls())]
                if not cs_:
                    return False
                for x in cs_:
                    x = crate.root_of(x)
                    if x.argc >= 1 and x.local_ty(1).startswith("&mut egraph::EGraph<"):
                        continue
                    if depth > 0 and x.vis != "pub" and only_from_mut(x, depth - 1):
                        continue
                    return False
                return True
            recv_mut = only_from_mut(b, 1)
        ctx.check(recv_mut, "setter-caller-is-mut:" + C.fkey(b), "%s (calls the union-find setter) takes &mut EGraph" % C.short(b.id),
                  "%s calls the union-find setter but takes %s — a read-only API can rewrite the union-find" % (C.short(b.id), b.local_ty(1) if b.argc else "no receiver"), where_of(b))
    ctx.floor("callers of the union-find setter", n, 2)
    for sid in ufs:
        sb = crate.bodies[sid]
        ctx.check(not (sb.vis == "pub" and sb.reachable), "setter-not-public:" + C.fkey(sb), "the union-find setter is not public API",
                  "the union-find setter %s is reachable from outside the crate" % C.short(sid), where_of(sb))
    fis = find_impl_functions(crate)
    if not ctx.floor("path-compression routines", len(fis), 1):
        return
    for b, pl in fis:
        pname = b.var_names.get(pl)
        stores = []
        for bi, si, s in b.statements():
            if s["k"] == "assign" and s["lhs"]["l"] == pl and any(isinstance(p, dict) and ("idx" in p or "cidx" in p) for p in s["lhs"]["p"]):
                stores.append((bi, s))
        # in MIR the store may go through IndexMut::index_mut of the slice
        for c in b.calls:
            if c.callee and c.callee.name == "index_mut" and role_mentions_param(b.role_of_operand(c.args[0]), pname):
                # find assignment through the returned reference
                d = c.dest["l"]
                for bi, si, s in b.statements():
                    if s["k"] == "assign" and s["lhs"]["l"] == d and "*" in s["lhs"]["p"]:
                        stores.append((bi, s))
        if not ctx.floor("compression stores in " + C.short(b.id), len(stores), 1):
            continue
        for bi, s in stores:
            r = strip_role(b.role_of_rvalue(s["rv"]))
            ok = False
            recursive = any(c.callee and c.callee.target == b.id for c in b.calls)
            if not recursive and isinstance(r, tuple) and r[0] == "phi":
                # the accumulator variable: starts as the leader's own entry (read from the table), then chained step by step
                chains = [strip_role(x) for x in r[1] if isinstance(strip_role(x), tuple) and strip_role(x)[0] == "call" and len(strip_role(x)[3]) >= 2 and strip_role(x)[1] not in ("clone", "index", "index_mut")]
                bases = [x for x in r[1] if strip_role(x) not in chains]
                if len(chains) == 1 and all(role_mentions_param(x, pname) for x in bases):
                    r = chains[0]
            if not recursive and isinstance(r, tuple) and r[0] == "call" and len(r[3]) >= 2:
                # iterative form: `to_leader = chain(entry_from_the_path, to_leader); map[j] = to_leader`
                me = r[1]
                acc = [a for a in r[3] if any(isinstance(x, tuple) and ((x[0] == "call" and x[1] == me) or x[0] in ("cycle",)) for x in role_walk(a)) or strip_role(a)[0] == "phi"]
                oth = [a for a in r[3] if a not in acc and strip_role(a) != ("param", "self")]
                at_ = crate.deps(b).atoms_of_operand(b, s["rv"]["op"]) if s["rv"]["k"] == "use" else set()
                ok = bool(acc) and bool(oth) and bool(mir.atoms_params(at_, b.id) or True)
                if ok:
                    io, ir = r[3].index(oth[0]), r[3].index(acc[0])
                    ctx.check(io < ir, "compression-order:" + C.fkey(b), "the remembered entry of the path comes first, the accumulated path to the leader second",
                              "path compression in %s chains (path to the leader, remembered entry) in that order" % C.short(b.id), where_of(b, bi, s.get("line")))
            elif isinstance(r, tuple) and r[0] == "call" and len(r[3]) >= 2:
                rec_args = [a for a in r[3] if any(isinstance(x, tuple) and x[0] == "call" and x[1] in (b.name, crate.aliases.get(b.id)) for x in role_walk(a))]
                old_args = [a for a in r[3] if not any(isinstance(x, tuple) and x[0] == "call" and x[1] in (b.name, crate.aliases.get(b.id)) for x in role_walk(a)) and role_mentions_param(a, pname)]
                ok = bool(rec_args) and bool(old_args)
                if ok:
                    # the rest of the path is ALWAYS the recursive answer: it ends with the leader's own entry, which is not the identity
                    # once the leader lost slots (the redundancy witness restricts it).  An alternative that reads the parent's table
                    # entry directly ("the parent already points to a leader") skips that last edge for chains of two or more hops
                    def always_rec(a):
                        a = strip_role(a)
                        if isinstance(a, tuple) and a[0] == "phi":
                            return all(always_rec(x) for x in a[1])
                        return any(isinstance(x, tuple) and x[0] == "call" and x[1] in (b.name, crate.aliases.get(b.id)) for x in role_walk(a))
                    ctx.check(always_rec(rec_args[0]), "compression-walks-to-the-leader:" + C.fkey(b), "the rest of the path is the recursive answer on every path",
                              "path compression in %s takes the rest of the path from %s on some path instead of the recursive walk: the leader's own (slot-restricting) entry is not composed in, a handle canonicalised through a chain of two or more hops mentions slots the leader no longer has, and the stale entry is written back" % (C.short(b.id), role_str(rec_args[0])[:80]),
                              where_of(b, bi, s.get("line")))
                    io, ir = r[3].index(old_args[0]), r[3].index(rec_args[0])
                    ctx.check(io < ir, "compression-order:" + C.fkey(b), "the old entry (edge out of the queried id) comes first, the recursive result (rest of the path) second",
                              "path compression in %s combines (recursive result, old entry) in that order: the chaining helper composes `first ; second`, the old entry is the first edge of the path — swapped, slot maps of unrelated classes are composed" % C.short(b.id),
                              where_of(b, bi, s.get("line")))
            ctx.check(ok, "compression-combines:" + C.fkey(b), "compressed entry = combine(old entry, recursive result): %s" % role_str(r),
                      "path compression in %s stores %s — it must combine the old entry (its slot map is the first edge) with the recursive result; storing the leader entry alone drops a slot map, so a compressed find differs from an uncompressed one" % (C.short(b.id), role_str(r)),
                      where_of(b, bi, s.get("line")))


@rule("W3", doc="slot set, group, union-find edge and re-queue change together")
def w3(ctx):
    crate = ctx.lib()
    ufs = set(C.uf_setters(crate))
    req = set(C.requeue_functions(crate))
    reach_uf = {b.id for b in crate.fns() if ufs & crate.reachable_from([b.id], resolve_traits=False)}
    for wid in C.need("W_slots", C.slot_writers(crate)):
        b = crate.bodies[wid]
        rets = b.return_blocks()
        slot_st = {bi for bi, si, s in b.statements() if s["k"] == "assign" and mir.place_has_field(s["lhs"], C.ECLASS, "slots")}
        group_st = {bi for bi, si, s in b.statements() if s["k"] == "assign" and mir.place_has_field(s["lhs"], C.ECLASS, "group")}
        uf_calls = {c.bb for c in b.calls if c.callee and c.callee.target in reach_uf}
        rq_calls = {c.bb for c in b.calls if c.callee and c.callee.target in req}
        for what, blocks, why in (("slots-store", slot_st, "store the new slot set"),
                                  ("group-store", group_st, "rebuild the class group over the new slot set (old generators are not permutations of it)"),
                                  ("uf-edge", uf_calls, "rewrite the class's own union-find entry to the restricted identity (find() would keep returning the old slots)"),
                                  ("requeue", rq_calls, "re-queue the class's usages")):
            ok = bool(blocks) and b.must_pass([0], rets, blocks)
            ctx.check(ok, "%s:%s" % (what, C.fkey(b)), "every path through %s does: %s" % (C.short(wid), why),
                      "a path through %s returns without: %s" % (C.short(wid), why), where_of(b))


@rule("W4", doc="ghost discipline: code under `if CHECKS` does not mutate the e-graph nor define values used outside")
def w4(ctx):
    crate = ctx.lib()
    ufs = set(C.uf_setters(crate))
    nfun = nblocks = 0
    for b in crate.bodies.values():
        ghost, edges = b.ghost_blocks("CHECKS")
        if not ghost:
            continue
        nfun += 1
        nblocks += len(ghost)
        live = b.live_blocks()
        # locals assigned in G
        assigned_in = set()
        for bi in ghost:
            for s in b.blocks[bi]["stmts"]:
                if s["k"] == "assign" and not s["lhs"]["p"]:
                    assigned_in.add(s["lhs"]["l"])
            t = b.blocks[bi]["term"]
            if t["k"] == "call" and not t["dest"]["p"]:
                assigned_in.add(t["dest"]["l"])
        # ... and also assigned outside G are ordinary variables with a ghost update: collect reads outside
        def ops_of(s):
            rv = s["rv"]
            k = rv["k"]
            if k in ("use", "cast", "repeat"):
                return [rv["op"]]
            if k in ("ref", "discr", "rawptr"):
                return [{"k": "copy", "pl": rv["pl"]}]
            if k == "bin":
                return [rv["a"], rv["b"]]
            if k == "un":
                return [rv["a"]]
            if k == "agg":
                return rv["ops"]
            return []
        leaked = set()
        for bi in live - ghost:
            blk = b.blocks[bi]
            reads = []
            for s in blk["stmts"]:
                if s["k"] == "assign":
                    reads += ops_of(s)
            t = blk["term"]
            if t["k"] == "call":
                reads += t["args"] + [t["func"]]
            elif t["k"] == "switch":
                reads.append(t["discr"])
            elif t["k"] == "assert":
                reads.append(t["cond"])
            for o in reads:
                pl = mir.op_place(o)
                if pl is not None and pl["l"] in assigned_in and pl["l"] != 0:
                    leaked.add(pl["l"])
        # a local that is fully (re)assigned outside G before use is fine; we only flag user variables
        leaked_user = sorted(b.local_name(l) for l in leaked if l in b.var_names)
        # drops of ghost-defined temporaries outside G are not reads (Drop terminators are not scanned)
        ctx.check(not leaked_user, "ghost-values-stay-ghost:" + C.fkey(b),
                  "no variable assigned under `if CHECKS` in %s is read outside it" % C.short(b.id),
                  "in %s the variable(s) %s are assigned under `if CHECKS` and read outside: the checks build and the normal build compute different values" % (C.short(b.id), leaked_user),
                  where_of(b))
        # calls in G must not take the e-graph mutably / call the setter
        bad = []
        for bi in ghost:
            c = b.call_at.get(bi)
            if c is None or c.callee is None:
                continue
            if c.callee.target in ufs:
                bad.append("%s (union-find setter)" % C.short(c.callee.target))
            for a in c.args:
                pl = mir.op_place(a)
                if pl is not None and not pl["p"]:
                    ty = b.local_ty(pl["l"])
                    if ty.startswith("&mut egraph::EGraph<") or ty.startswith("&mut egraph::EClass<"):
                        bad.append("%s(&mut e-graph state)" % (c.callee.name))
            # mutable borrows of e-graph fields inside G
        for bi in ghost:
            for s in b.blocks[bi]["stmts"]:
                if s["k"] == "assign" and s["rv"]["k"] == "ref" and s["rv"].get("mut"):
                    flds = mir.place_fields(s["rv"]["pl"])
                    if any(adt in (C.EGRAPH, C.ECLASS) for adt, f in flds):
                        bad.append("&mut %s" % ".".join(f for _, f in flds))
                if s["k"] == "assign" and any(adt in (C.EGRAPH, C.ECLASS) for adt, f in mir.place_fields(s["lhs"])):
                    bad.append("store to %s" % ".".join(f for _, f in mir.place_fields(s["lhs"])))
        ctx.check(not bad, "ghost-does-not-mutate:" + C.fkey(b), "ghost code in %s does not mutate e-graph state" % C.short(b.id),
                  "code under `if CHECKS` in %s mutates e-graph state: %s — with the assertions compiled in the library behaves differently" % (C.short(b.id), sorted(set(bad))), where_of(b))
    ctx.floor("functions with ghost regions", nfun, 20)
    ctx.extra["ghost_blocks_%s" % ctx.cur_cfg] = nblocks


@rule("U0", doc="unsafe census: the crate contains no user-written unsafe (receiver types are effect bounds)")
def u0(ctx):
    crate = ctx.lib()
    user = [u for u in crate.unsafe if not u.get("from_expansion")]
    exp = [u for u in crate.unsafe if u.get("from_expansion")]
    ctx.info("unsafe items from macro expansions (thread_local!, derives): %d" % len(exp))
    # positive control: the census sees the std-internal unsafe of thread_local!
    ctx.check(len(exp) >= 1, "census-sees-expansions", "the census sees the unsafe blocks of std macro expansions (%d)" % len(exp),
              "the unsafe census found nothing at all, not even std's thread_local! internals: the matcher is broken")
    ctx.check(not user, "no-user-unsafe", "no user-written unsafe block, fn or impl in the library",
              "user-written unsafe code: %s" % ["%s:%s" % (u["file"], u["line"]) for u in user])


@rule("PC", doc="panic census (information only)")
def pc(ctx):
    crate = ctx.lib()
    per = {}
    for b in crate.bodies.values():
        mod = (b.file or "?")
        for bi, blk in enumerate(b.blocks):
            if blk["cleanup"]:
                continue
            t = blk["term"]
            k = None
            if t["k"] == "assert":
                k = "assert:" + t["akind"]
            elif t["k"] == "call":
                c = b.call_at[bi]
                if c.callee and c.callee.name in ("unwrap", "expect", "unwrap_or_else") and False:
                    k = c.callee.name
                if c.callee and c.callee.name in ("unwrap", "expect"):
                    k = c.callee.name
                elif c.callee and (c.callee.target or "").startswith("core::panicking::") and b.blocks[bi]["term"].get("target") is None:
                    k = "panic"
                elif c.callee and c.callee.name == "index" and c.callee.trait and "Index" in c.callee.trait:
                    k = "index"
            if k:
                per.setdefault(mod, {}).setdefault(k, 0)
                per[mod][k] += 1
    ctx.extra["panic_census_%s" % ctx.cur_cfg] = per
    tot = sum(sum(v.values()) for v in per.values())
    ctx.ok("census", "panic-capable sites counted per file (%d total) — not armed, panic-freedom is not decided" % tot)


@rule("P1", doc="rebuild-before-return (shared with C02)")
def p1(ctx):
    c02.p1(ctx)


@rule("P7", doc="orbit closure (shared with C02)")
def p7(ctx):
    c02.p7(ctx)




@rule("P2", doc="touch-after-change (shared with C02): a class-level change re-queues the class's usages, otherwise parents keep stale shapes in the hashcons")
def p2(ctx):
    c02.p2(ctx)


RULES = [w1, w2, w3, w4, u0, pc, p1, p7, p2]


@rule("SI", doc="slot inclusion at re-insert: the work-list handler puts a re-canonicalised e-node back only after slots(class) ⊆ slots(node) was tested true or the class was shrunk")
def si(ctx):
    C.slot_inclusion(ctx, ctx.lib())


RULES.append(si)


@rule("G7", doc="no panic in rebuild from a non-permutation self-symmetry (shared with C10.G7)")
def g7(ctx):
    from . import c10
    c10.g7(ctx)


RULES.append(g7)


PARTIAL_MAP_OPS = {"compose_partial", "filter", "filter_map", "take", "skip", "retain", "apply_slotmap_partial"}


def _first_partial_op(role, depth=0):
    """follow the value that provides the *keys* of a slot map through key-preserving operations; return the first
    key-dropping operation met (or None)"""
    r = strip_role(role)
    if not isinstance(r, tuple) or depth > 12:
        return None
    if r[0] == "call":
        if r[1] in PARTIAL_MAP_OPS:
            return r[1]
        if r[1] in ("compose", "compose_fresh", "collect", "into_iter", "iter", "map", "cloned", "copied") and r[3]:
            return _first_partial_op(r[3][0], depth + 1)
        return None
    if r[0] in ("field", "variant", "index"):
        return _first_partial_op(r[1], depth + 1)
    if r[0] == "phi":
        for x in r[1]:
            p = _first_partial_op(x, depth + 1)
            if p:
                return p
    return None


@rule("W5", doc="the bijection stored with an e-node covers every slot of its shape: it is never built by a key-dropping operation")
def w5(ctx):
    crate = ctx.lib()
    from . import c02
    ins, rem = c02._hc_split(crate)
    C.need("hashcons inserter", ins)
    n = 0
    for b in crate.fns():
        for c in C.calls_to(crate, b, set(ins)):
            sub = c.body
            for a in c.args:
                r = strip_role(sub.role_of_operand(a))
                bij = None
                if "slotmap::SlotMap" in optype_(sub, a).replace("&", "").strip() and "(" not in optype_(sub, a):
                    bij = r       # the bijection passed as a parameter of its own
                if isinstance(r, tuple) and r[0] == "agg" and len(r[2]) == 2:
                    bij = r[2][1]
                elif isinstance(r, tuple) and "Bijection" in optype_(sub, a) or "(L, slotmap::SlotMap)" in optype_(sub, a):
                    bij = ("field", r, "1") if "(L," in optype_(sub, a) else r
                if bij is None:
                    continue
                n += 1
                p_ = _first_partial_op(bij)
                ctx.check(p_ is None, "stored-bijection-total:" + C.fkey(b), "%s stores a bijection built by key-preserving operations only" % C.short(b.id),
                          "%s stores a node bijection built with `%s`: keys of slots that are redundant in the class (not covered by the class-level map) are dropped, so the stored e-node has shape slots without an image — lookups and re-canonicalisation of that node index a missing key" % (C.short(b.id), p_),
                          where_of(sub, c.bb))
    ctx.floor("stored node bijections inspected", n, 2)


def optype_(b, op):
    pl = mir.op_place(op)
    return b.local_ty(pl["l"]) if pl is not None and not pl["p"] else ""


RULES.append(w5)


@rule("W6", doc="no stale work-list key: when the handler takes an e-node out of the indexes, a work-list entry that an earlier step of the same handler may have created for it is taken along")
def w6(ctx):
    crate = ctx.lib()
    from . import c02
    ins, rem = c02._hc_split(crate)
    req = set(C.requeue_functions(crate))
    reach_req = {b.id for b in crate.fns() if req & set(crate.reachable_from([b.id], resolve_traits=False))} | req
    n = 0
    for hid in C.need("re-insert function (handle_pending)", C.reinsert_functions(crate)):
        h = crate.bodies[hid]
        R = [c for c in C.calls_to(crate, h, set(rem)) if c.body is h]
        for r in R:
            key = strip_role(h.role_of_operand(r.args[2])) if len(r.args) > 2 else None
            if not (isinstance(key, tuple) and key[0] == "param"):
                continue
            n += 1
            Q = [c for c in h.calls if c.callee and c.callee.target in reach_req and not h.blocks[c.bb]["cleanup"] and c.callee.target not in rem and c.callee.target not in ins]
            Qb = [q for q in Q if r.bb in h.reach(h.after(q.bb))]
            P = [c for c in h.calls if c.callee and c.callee.name in ("remove", "remove_entry") and c.args and role_mentions_field(h.role_of_operand(c.args[0]), "pending")
                 and len(c.args) > 1 and strip_role(h.role_of_operand(c.args[1])) == key and not h.blocks[c.bb]["cleanup"]]
            if not Qb:
                ctx.ok("no-requeue-before-removal:" + C.fkey(h), "nothing that can re-queue usages runs before the e-node is taken out of the indexes", where_of(h, r.bb))
                continue
            pb = {p.bb for p in P}
            ok = bool(P)
            why = "there is no `pending.remove(%s)`" % key[1]
            if ok:
                for q in Qb:
                    after_r = h.must_pass(h.after(r.bb), h.return_blocks(), pb)
                    before_r = h.must_pass(h.after(q.bb), {r.bb}, pb)
                    if not (after_r or before_r):
                        ok = False
                        why = "after %s a path takes the node out of the indexes and returns without passing `pending.remove(%s)`" % (q.callee.name, key[1])
                for p in P:
                    late = [q for q in Qb if q.bb in h.reach(h.after(p.bb))]
                    if late:
                        ok = False
                        why = "%s can re-queue usages after `pending.remove(%s)` but before the node is taken out of the indexes" % (late[0].callee.name, key[1])
            ctx.check(ok, "requeued-entry-moves-along:" + C.fkey(h),
                      "%s: calls that can re-queue usages (%s) run before the e-node `%s` is removed from the indexes; the entry they may have created for it is removed from the work-list afterwards" % (C.short(hid), sorted({q.callee.name for q in Qb}), key[1]),
                      "%s: %s runs while `%s` is still registered as a usage of its child classes — an e-node that refers to its own class re-queues itself — and then the node is removed / re-inserted under its re-canonicalised shape, but %s. The work-list keeps a shape that is in no index any more: the next round of rebuild panics at `hashcons[&sh]`" % (
                          C.short(hid), sorted({q.callee.name for q in Qb}), key[1], why), where_of(h, r.bb))
    ctx.floor("index removals keyed by the handler's work-list key", n, 1)


RULES.append(w6)


@rule("G9", doc="a class that shrinks gets a group over the kept slots only (C10.G9)")
def g9(ctx):
    from . import c10
    c10.g9(ctx)


RULES.append(g9)


@rule("MC", doc="must-call census: no function of this property's files has gained an early exit in front of work it always did (every crate-local call that lay on all paths to a normal return in the reviewed tree still does)")
def mc(ctx):
    C.must_call_census(ctx, ctx.lib(), ['src/egraph/check.rs', 'src/egraph/rebuild.rs', 'src/egraph/union.rs', 'src/egraph/add.rs', 'src/egraph/find.rs', 'src/egraph/mod.rs', 'src/group/mod.rs', 'src/extract/mod.rs'])


RULES.append(mc)


@rule("W7", doc="when a class shrinks, the slot set it stores and the slot set its own union-find entry (the redundancy witness) is restricted to are computed from the same ingredients: both from the requested set alone, or both through the symmetry orbits")
def w7(ctx):
    crate = ctx.lib()
    ufs = set(C.uf_setters(crate))
    reach_uf = {b.id for b in crate.fns() if ufs & crate.reachable_from([b.id], resolve_traits=False)}
    n = 0
    for wid in C.need("slot-set writer (shrink_slots)", C.slot_writers(crate)):
        b = mir.inline_view(crate, crate.bodies[wid], keep=tuple(C.short(x).split("::")[-1] for x in reach_uf))
        stores = [(bi, s) for bi, si, s in b.statements() if s["k"] == "assign" and mir.place_has_field(s["lhs"], C.ECLASS, "slots")]
        wit = [c for c in b.calls if c.callee and c.callee.target in reach_uf and not b.blocks[c.bb]["cleanup"]
               and any("SmallHashSet<slot::Slot" in b.local_ty((mir.op_place(a) or {"l": 0})["l"]) or "VecSet" in b.local_ty((mir.op_place(a) or {"l": 0})["l"]) for a in c.args[1:])]
        if not stores or not wit:
            continue
        n += 1
        st_orbit = any(role_mentions_call(b.role_of_rvalue(s["rv"]), "orbit") for _, s in stores)
        for c in wit:
            sets = [a for a in c.args[1:] if "Slot" in b.local_ty((mir.op_place(a) or {"l": 0})["l"]) and ("HashSet" in b.local_ty((mir.op_place(a) or {"l": 0})["l"]) or "VecSet" in b.local_ty((mir.op_place(a) or {"l": 0})["l"]))]
            w_orbit = any(role_mentions_call(b.role_of_operand(a), "orbit") for a in sets)
            ctx.check(st_orbit == w_orbit, "stored-slots-agree-with-witness:" + C.fkey(crate.bodies[wid]), "%s stores the slot set the redundancy witness was recorded for" % C.short(wid),
                      "%s stores a slot set that %s closed under the group's orbits, but records the class's own union-find entry for a set that %s: the class says its slots are one set and its union-find entry another — handles canonicalised through it carry surplus arguments, check() fails, and ill-formed invocations get into e-nodes" % (C.short(wid), "is" if st_orbit else "is not", "is" if w_orbit else "is not"),
                      where_of(b, c.bb))
    ctx.floor("slot-set writers that record a redundancy witness", n, 1)


RULES.append(w7)


@rule("W8", doc="the identity element of a class's group is built over the slot set the class stores (and the syntactic slot set second): ProvenPerm::identity(id, <what goes into EClass.slots>, <syn slots>, ..)")
def w8(ctx):
    crate = ctx.lib()
    n = 0

    def norm(r):
        r = strip_role(r)
        while isinstance(r, tuple) and r[0] == "call" and r[1] in ("clone", "deref", "borrow", "as_ref", "to_owned") and r[3]:
            r = strip_role(r[3][0])
        return role_str(r, 14)
    for b0 in crate.fns():
        b = b0
        ids = [c for c in b.calls if c.callee and c.callee.name == "identity" and "ProvenPerm" in (c.callee.impl_self or "") and len(c.args) >= 3 and not b.blocks[c.bb]["cleanup"]]
        if not ids:
            continue
        stored = set()
        for bi, si, s in b.statements():
            if s["k"] != "assign":
                continue
            if mir.place_has_field(s["lhs"], C.ECLASS, "slots"):
                stored.add(norm(b.role_of_rvalue(s["rv"])))
            rv = s["rv"]
            if rv["k"] == "agg" and rv.get("adt") == C.ECLASS and "slots" in rv.get("fields", []):
                stored.add(norm(b.role_of_operand(rv["ops"][rv["fields"].index("slots")])))
        if not stored:
            continue
        for c in ids:
            n += 1
            a1, a2 = norm(b.role_of_operand(c.args[1])), b.role_of_operand(c.args[2])
            ok = a1 in stored
            ctx.check(ok, "identity-over-stored-slots:" + C.fkey(b0), "%s builds the group identity over the slot set it stores in the class" % C.short(b0.id),
                      "%s builds the identity of the class's group over %s while the class stores %s (the two set arguments of ProvenPerm::identity have the same type): the identity then acts on slots the class does not have — composing it with a generator fails the compose assertion in `checks` builds, and its proof covers the wrong slots under `explanations`" % (C.short(b0.id), a1[:60], sorted(stored)[0][:60]),
                      where_of(b, c.bb))
    ctx.floor("group identities built next to a slot-set store", n, 1)


RULES.append(w8)


@rule("W9", doc="take / restore window: while a function holds a value it took out of an Option field of the e-graph (`eg.subst_method.take().unwrap()` .. `eg.subst_method = Some(..)`), it calls nothing that can reach another access of that field — a re-entrant take finds None and panics")
def w9(ctx):
    crate = ctx.lib()
    n = 0
    for b in crate.fns():
        if not (b.file or "").startswith("src/") or (b.file or "").endswith("/check.rs"):
            continue
        for sub in b.all_bodies():
            d = sub.defs()
            for c in sub.calls:
                if sub.blocks[c.bb]["cleanup"] or not c.callee or c.callee.name not in ("take", "replace") or not c.args:
                    continue
                if not ("option::Option" in (c.callee.target or "") or "mem::" in (c.callee.target or "")):
                    continue
                a = c.args[0]
                pl = mir.op_place(a)
                fld = None
                if pl is not None and not pl["p"]:
                    for df in d.get(pl["l"], []):
                        if df["kind"] == "assign" and df["rv"]["k"] == "ref" and df["rv"].get("mut"):
                            for p in df["rv"]["pl"]["p"]:
                                if isinstance(p, dict) and "f" in p and p.get("adt") in (C.EGRAPH, C.ECLASS):
                                    fld = (p["adt"], p["f"])
                if fld is None:
                    continue
                # restore sites: stores to the same field in this body
                restores = {bi for bi, si, s in sub.statements() if s["k"] == "assign" and mir.place_has_field(s["lhs"], fld[0], fld[1])}
                if not restores:
                    continue            # a plain take (the value is consumed): nothing is held
                window = sub.reach(sub.after(c.bb), avoid=restores)
                window = {x for x in window if isinstance(x, int)}
                # everything that can reach an access of the field
                touch = set(crate.field_readers(*fld)) | set(crate.field_writers(*fld))
                n += 1
                bad = []
                for c2 in sub.calls:
                    if c2.bb not in window or sub.blocks[c2.bb]["cleanup"] or not c2.callee or c2 is c:
                        continue
                    tgts = [c2.callee.target] if c2.callee.target in crate.bodies else [x.id for x in crate._impls_for_unresolved(c2.callee.target)]
                    for t in tgts:
                        r = crate.reachable_from([t])
                        if r & touch:
                            bad.append((c2, sorted(C.short(x) for x in r & touch)[:3]))
                ctx.check(not bad, "held-value-window:%s:%s" % (C.fkey(b), fld[1]), "%s calls nothing that reaches %s.%s between taking the value out and putting it back" % (C.short(b.id), fld[0].split("::")[-1], fld[1]),
                          "%s calls %s while it holds the value it took out of %s.%s (the field is None until it is restored); that call can reach %s, which accesses the field again — a nested use (e.g. a substitution inside a substitution) unwraps None and panics" % (
                              C.short(b.id), ", ".join(sorted({x[0].callee.name for x in bad})), fld[0].split("::")[-1], fld[1], "; ".join(sorted({y for x in bad for y in x[1]}))[:200]),
                          where_of(sub, bad[0][0].bb if bad else c.bb))
    # (no floor: the take / restore pair may legitimately move into a helper or disappear; the rule is about windows that exist)
    if n == 0:
        ctx.ok("held-value-window:none", "no function takes a value out of an Option field of the e-graph and puts it back later")


RULES.append(w9)


@rule("W10", cfgs=["explanations", "checks_explanations"], doc="no panic in the transport of symmetries on a class merge under explanations: the transported proof chain is well formed (C07.K16)")
def w10(ctx):
    from . import c07
    c07.k16(ctx)


RULES.append(w10)


@rule("W12", cfgs=["explanations", "checks_explanations"], doc="no panic in a union that makes a slot of the RIGHT operand redundant (explanations builds): the leader union hands shrink_slots / the retried union a proof oriented like the operands it passes (C07.K7) — a proof about the other class makes the transitivity kernel panic in record_redundancy_witness, in the middle of the union")
def w12(ctx):
    from . import c07
    c07.k7(ctx)


RULES.append(w12)


@rule("W11", doc="the built-in cost function cannot overflow: AstSize::cost contains no checked arithmetic (an addition that panics on overflow, Iterator::sum / product) — sizes accumulate with saturating_add, so a class whose smallest term has 2^64 nodes (a sharing chain 64 deep) costs u64::MAX instead of aborting extraction")
def w11(ctx):
    crate = ctx.lib()
    az = [x for x in crate.by_name.get("cost", []) if x.kind != "Closure" and "AstSize" in (x.impl_self or "")]
    ctx.floor("AstSize::cost", len(az), 1)
    for a_ in az:
        bad = []
        for sub in a_.all_bodies():
            for bi, blk in enumerate(sub.blocks):
                t = blk["term"]
                if not blk["cleanup"] and t["k"] == "assert" and "overflow" in str(t.get("akind", "")).lower():
                    bad.append(("checked arithmetic (%s)" % t.get("akind"), sub, bi))
            for c in sub.calls:
                if c.callee and c.callee.name in ("sum", "product") and not sub.blocks[c.bb]["cleanup"]:
                    bad.append(("Iterator::%s" % c.callee.name, sub, c.bb))
        ctx.check(not bad, "ast-size-saturates", "AstSize::cost has no arithmetic that can overflow",
                  "AstSize::cost uses %s: the size of a term grows exponentially with sharing, so a small e-graph can hold a class whose smallest term exceeds u64 — Extractor::new costs every class and panics with 'attempt to add with overflow' (in release builds the sum wraps and a huge term looks cheap)" % ", ".join(sorted({x[0] for x in bad})),
                  where_of(bad[0][1], bad[0][2]) if bad else where_of(a_))


RULES.append(w11)


@rule("GA", doc="census of the code under `if CHECKS`: the assertions compiled in by `--features checks` are the reviewed ones — a function whose assertion code calls something new carries a new or re-worded assertion, an obligation ('this always holds') the analysis cannot discharge")
def ga(ctx):
    C.ghost_census(ctx, ctx.lib())


RULES.append(ga)


@rule("W13", doc="no panic from a non-injective completed slot map: every uncovered slot gets its own Slot::fresh() (C03.H10 fresh-per-completed-slot) — a repeated value fails the bijection assertions of AppliedId::new / compose in assertion builds and corrupts the stored e-node otherwise")
def w13_h10(ctx):
    from . import c03
    c03.h10(ctx)


RULES.append(w13_h10)

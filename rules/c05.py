"""C05 — reported matches denote terms that are really in the e-graph (acceptance gates + read-only)."""
from salib import mir
from salib.mir import role_str, role_walk, strip_role, role_mentions_field, role_mentions_call, role_mentions_param
from salib.runner import rule, where_of
from . import common as C
from .c04 import fn
from .c09 import readonly_closure

META = {
    "level": "other",
    "explanation": "Decides the acceptance gates of both matchers: a repeated pattern variable is accepted only behind EGraph::eq (V1, V4), "
                   "an unbound one is recorded (V6); the slot map stays a bijection because the value returned is is_bijection() of the "
                   "updated map and a key conflict returns false (V2); a node is accepted only on equal name-free shapes (V3); the "
                   "multi-pattern state is kept canonical: after a slot union every stored slot is re-canonicalised and the "
                   "disequality constraint is tested in both directions before two slots are linked (V7, V8); matching is read-only "
                   "(V5: receiver types, call-graph closure, union-find setter reachability; compile-fail witnesses in the thorough tier). V9/V10: the slots of each e-node handed out are declared pairwise distinct (all occurrences, per node); the multi-pattern node matcher accepts only nodes of the pattern node's name-free shape and registers the pattern's own slots before unifying them.",
    "not_decided": "that the instantiated pattern is represented, as a behavioural fact",
    "assumptions": ["no unsafe code (C08.U0)"],
}


def nonempty_return_defs(b, local=0, depth=0):
    """definitions of the return place that are not `Vec::new()` (looking through the return-value copy of an inlined helper)"""
    out = []
    for d in b.defs().get(local, []):
        if d["kind"] == "assign" and d["rv"]["k"] == "use" and d.get("line") is not None and depth < 4:
            op = d["rv"]["op"]
            src = b.blocks[d["bb"]]["stmts"][d["i"]] if d.get("i") is not None else {}
            if src.get("inl") and op.get("k") in ("move", "copy") and not op["pl"]["p"]:
                out += nonempty_return_defs(b, op["pl"]["l"], depth + 1)
                continue
        if d["kind"] == "call":
            c = d["call"]
            if c.callee and c.callee.name == "new" and "Vec" in (c.callee.impl_self or ""):
                continue
            out.append(d)
        else:
            r = strip_role(b.role_of_rvalue(d["rv"]))
            if isinstance(r, tuple) and r[0] == "call" and r[1] == "new":
                continue
            out.append(d)
    return out


@rule("V1", doc="pattern-variable arm: a bound variable is accepted only behind eq; an unbound one is inserted (V6)")
def v1(ctx):
    crate = ctx.lib()
    from .c04 import MATCHER_ANCHORS
    b = mir.inline_view(crate, fn(crate, "ematch_impl", "rewrite/ematch.rs"), keep=MATCHER_ANCHORS)
    gets = [c for c in b.calls if c.callee and c.callee.name == "get" and role_mentions_field(b.role_of_operand(c.args[0]), "partial_subst")]
    if not ctx.floor("lookups of the pattern variable in the partial substitution", len(gets), 1):
        return
    g = gets[0]
    some_e, none_e = [], []
    for sb in b.switch_blocks():
        t = b.blocks[sb]["term"]
        r = b.role_of_operand(t["discr"])
        if r[0] == "discr" and strip_role(r[1])[0] == "call" and strip_role(r[1])[4] == g.bb:
            some_e += C.variant_edges(b, sb, 1)
            none_e += C.variant_edges(b, sb, 0)
    eq_true = []
    for sb in b.switch_blocks():
        t = b.blocks[sb]["term"]
        r = strip_role(b.role_of_operand(t["discr"]))
        if isinstance(r, tuple) and r[0] == "call" and r[1] == "eq" and "EGraph" in (r[2] or "") and len(r[3]) == 3:
            a1, a2 = strip_role(r[3][1]), strip_role(r[3][2])
            if (a1 == ("param", "i") and role_mentions_call(a2, "get")) or (a2 == ("param", "i") and role_mentions_call(a1, "get")):
                eq_true.append(("e", sb, "otherwise") if any(v == "0" for v, _ in t["cases"]) else ("e", sb, "1"))
    ctx.check(bool(eq_true), "eq-test-present", "the bound-variable branch compares i with the bound invocation through EGraph::eq",
              "ematch_impl no longer calls EGraph::eq(i, bound) for a repeated pattern variable", where_of(b))
    # the PVar arm: blocks dominated by the PVar edge of the pattern switch
    pv_edges = []
    for sb in b.switch_blocks():
        t = b.blocks[sb]["term"]
        r = b.role_of_operand(t["discr"])
        if r == ("discr", ("param", "pattern")):
            adt = crate.adt_named("rewrite::pattern::Pattern")
            idx = [v["name"] for v in adt["variants"]].index("PVar")
            pv_edges += C.variant_edges(b, sb, idx, nvariants=len(adt["variants"]))
    if not pv_edges:
        raise mir.AnchorMissing("PVar arm of ematch_impl")
    n = 0
    sites = nonempty_return_defs(b)
    if b.local_ty(0) == "()":
        # the states are handed back through a `&mut Vec<State>` out-parameter: a result is what is pushed there
        outs = {b.var_names.get(l) for l in range(1, b.argc + 1) if b.local_ty(l).startswith("&mut") and "Vec<" in b.local_ty(l)}
        sites = [{"bb": c.bb} for c in b.calls if c.callee and c.callee.name in ("push", "extend", "append") and c.args and not b.blocks[c.bb]["cleanup"]
                 and isinstance(strip_role(b.role_of_operand(c.args[0])), tuple) and strip_role(b.role_of_operand(c.args[0]))[0] == "param" and strip_role(b.role_of_operand(c.args[0]))[1] in outs]
    for d in sites:
        if not b.dominated_by(d["bb"], pv_edges):
            continue
        n += 1
        ok = b.dominated_by(d["bb"], none_e + eq_true)
        ctx.check(ok, "bound-var-needs-eq", "a non-empty result in the variable arm is reached only via 'unbound' or via eq(i, bound) == true",
                  "the pattern-variable arm of ematch_impl can return a match although the variable is already bound to a different class invocation (eq not established)", where_of(b, d["bb"]))
    ctx.floor("non-empty returns in the variable arm", n, 1)
    # V6: on the None edge the variable is inserted before any return
    ins = {c.bb for c in b.calls if c.callee and c.callee.name == "insert" and role_mentions_field(b.role_of_operand(c.args[0]), "partial_subst")}
    ok = bool(ins) and b.must_pass(none_e, b.return_blocks(), ins)
    ctx.check(ok, "unbound-var-recorded", "an unbound pattern variable is inserted into the substitution on every path",
              "the variable arm can return a state in which the pattern variable is not bound", where_of(b))
    for c in b.calls:
        if c.bb in ins:
            ctx.check(strip_role(b.role_of_operand(c.args[2])) == ("param", "i"), "bound-to-queried-invocation", "the variable is bound to the queried invocation i",
                      "the variable is bound to %s instead of the queried invocation" % role_str(b.role_of_operand(c.args[2])), where_of(b, c.bb))


@rule("V2", doc="slot map stays a bijection: key conflict -> false; otherwise the value of is_bijection() on the updated map", once=True)
def v2(ctx):
    crate = ctx.lib("default")
    b = fn(crate, "try_insert_compatible_slotmap_bij", "rewrite/ematch.rs")
    defs = b.defs().get(0, [])
    kinds = []
    for d in defs:
        if d["kind"] == "assign":
            r = b.role_of_rvalue(d["rv"])
            conds = C.conditions_at(b, d["bb"])
            confl = any(cond[0] == "ne" and role_mentions_call(cond[1], "get") or cond[0] == "ne" and role_mentions_call(cond[2], "get") for e, cond in conds)
            ctx.check(r == ("const", "false") and confl, "conflict-returns-false", "a key bound to a different value returns false",
                      "try_insert_compatible_slotmap_bij returns %s outside the key-conflict branch" % role_str(r), where_of(b, d["bb"]))
            kinds.append("false")
        else:
            c = d["call"]
            mp = [b.var_names.get(l) for l in range(1, b.argc + 1) if "slotmap::SlotMap" in b.local_ty(l)]
            ok = c.callee and c.callee.name == "is_bijection" and strip_role(b.role_of_operand(c.args[0])) in [("param", x) for x in mp]
            ins = {x.bb for x in b.calls if x.callee and x.callee.name == "insert"}
            after = ok and b.dominated_by(c.bb, ins)
            ctx.check(bool(after), "returns-is-bijection-after-insert", "otherwise the result is map.is_bijection() evaluated after the insert",
                      "try_insert_compatible_slotmap_bij does not return is_bijection() of the updated map: two e-graph slots can be matched to one pattern slot", where_of(b, d["bb"]))
            kinds.append("bij")
    ctx.check(sorted(kinds) == ["bij", "false"], "two-outcomes", "exactly the two outcomes (conflict / bijectivity)", "unexpected return structure %s" % kinds, where_of(b))
    for c in b.calls:
        if c.callee and c.callee.name == "insert":
            a = [strip_role(b.role_of_operand(x)) for x in c.args]
            mp = [b.var_names.get(l) for l in range(1, b.argc + 1) if "slotmap::SlotMap" in b.local_ty(l)]
            sl = [b.var_names.get(l) for l in range(1, b.argc + 1) if b.local_ty(l) == "slot::Slot"]
            ctx.check(len(mp) == 1 and len(sl) == 2 and a == [("param", mp[0]), ("param", sl[0]), ("param", sl[1])], "insert-k-v", "map.insert(k, v)", "the map is updated with %s" % [role_str(x) for x in a], where_of(b, c.bb))


@rule("V3", doc="a variant is accepted only if its name-free shape equals the pattern node's")
def v3(ctx):
    crate = ctx.lib()
    from .c04 import MATCHER_ANCHORS
    from .c04 import node_matcher
    b0, hosted = node_matcher(crate)
    b = mir.inline_view(crate, b0, keep=MATCHER_ANCHORS)
    ext = C.result_sinks(b, "out")
    ctx.floor("result extension sites", len(ext), 1)
    for c in ext:
        ok = False
        for e, cond in C.conditions_at(b, c.bb):
            if cond[0] == "eq":
                x, y = cond[1], cond[2]
                if role_mentions_call(x, "weak_shape") and role_mentions_call(y, "weak_shape"):
                    px = (role_mentions_param(x, "n") or (hosted and role_mentions_param(x, "pattern"))) and not role_mentions_call(x, "next")
                    py = role_mentions_call(y, "nullify_app_ids")
                    ok = ok or (px and py) or ((role_mentions_param(y, "n") or (hosted and role_mentions_param(y, "pattern"))) and not role_mentions_call(y, "next") and role_mentions_call(x, "nullify_app_ids"))
        ctx.check(ok, "shape-equality-gate", "accepting a variant is dominated by weak_shape(pattern node) == weak_shape(nullified variant)",
                  "ematch_node accepts a variant without its name-free shape being equal to the pattern node's", where_of(b, c.bb))
    # slot pairs are fed to the bijection builder in (e-graph slot, pattern slot) order and zipped over all occurrences
    tr = [c for c in b.all_calls() if c.callee and c.callee.name == "try_insert_compatible_slotmap_bij"]
    ctx.floor("slot-pair insertions", len(tr), 1)
    for c in tr:
        if c.body is not b:
            # `zip(all_slot_occurrences(variant), all_slot_occurrences(pattern node)).all(|(x, y)| try_insert..(x, y, &mut st.partial_slotmap))`
            cb_ = c.body
            host = [h for h in b.calls if h.callee and h.callee.name in ("all", "try_for_each", "for_each") and not b.blocks[h.bb]["cleanup"] and len(h.args) == 2
                    and C._closure_of_role(crate, b.role_of_operand(h.args[1])) is cb_]
            z = b.role_of_operand(host[0].args[0]) if host else None
            ks = [role_str(strip_role(cb_.role_of_operand(a)), 12) for a in c.args[:2]]
            ok = z is not None and role_mentions_call(z, "zip") and role_mentions_call(z, "all_slot_occurrences") and len(ks) == 2 and ks[0].endswith(".0") and ks[1].endswith(".1") and ks[0][:-2] == ks[1][:-2]
            ctx.check(ok, "pairs-from-zip-of-all-occurrences", "slot pairs come from zipping all_slot_occurrences of variant and pattern node",
                      "slot pairs are %s of %s" % (ks, role_str(z)[:100] if z is not None else "?"), where_of(cb_, c.bb))
            m = strip_role(cb_.role_of_operand(c.args[2] if len(c.args) > 2 else c.args[-1]))
            ctx.check(role_mentions_field(m, "partial_slotmap"), "into-partial-slotmap", "pairs are inserted into the state's partial_slotmap", "pairs go into %s" % role_str(m), where_of(cb_, c.bb))
            continue
        # arguments by type (the helper may be a free function (x, y, &mut map) or a method of the map)
        def aty(a):
            pl_ = mir.op_place(a)
            return b.local_ty(pl_["l"]) if pl_ is not None and not pl_["p"] else ""
        slot_args = [a for a in c.args if aty(a) == "slot::Slot"]
        map_args = [a for a in c.args if "slotmap::SlotMap" in aty(a)]
        if not slot_args or not map_args:
            slot_args, map_args = [c.args[0]], [c.args[2]] if len(c.args) > 2 else [c.args[-1]]
        z = b.role_of_operand(slot_args[0])
        ok = role_mentions_call(z, "zip") and role_mentions_call(z, "all_slot_occurrences")
        ctx.check(ok, "pairs-from-zip-of-all-occurrences", "slot pairs come from zipping all_slot_occurrences of variant and pattern node",
                  "slot pairs are %s" % role_str(z)[:140], where_of(b, c.bb))
        m = strip_role(b.role_of_operand(map_args[0]))
        ctx.check(role_mentions_field(m, "partial_slotmap"), "into-partial-slotmap", "pairs are inserted into the state's partial_slotmap", "pairs go into %s" % role_str(m), where_of(b, c.bb))
    # a failed insertion abandons the variant
    for sb in b.switch_blocks():
        t = b.blocks[sb]["term"]
        r = strip_role(b.role_of_operand(t["discr"]))
        if isinstance(r, tuple) and r[0] == "call" and r[1] == "try_insert_compatible_slotmap_bij":
            false_e = [("e", sb, "0")]
            reach = b.reach(false_e, avoid=[x for l in C.iterator_loops(b) if role_mentions_call(l[1], "get_group_compatible_weak_variants") for x in [l[0]]])
            bad = [c for c in ext if c.bb in reach]
            ctx.check(not bad, "conflict-abandons-variant", "after a slot conflict the variant is abandoned (control returns to the variant loop)",
                      "after try_insert_compatible_slotmap_bij returned false the variant can still be accepted", where_of(b, sb))


MS = "rewrite::multipat::MultiState"


def multipat_roles(crate):
    """role sets of the multi-pattern matcher, discovered by behaviour (robust to renames / free fn <-> method):
       slot_find  : reads MultiState.slot_uf, writes nothing of the state, returns a Slot
       appid_find : calls a slot_find function and returns an AppliedId
       allows     : reads MultiState.pattern_slots, returns bool, writes nothing"""
    key = "multipat_roles"
    if key in crate._cache:
        return crate._cache[key]
    writers = set()
    for f in ("slot_uf", "pattern_slots", "diseq_constraints", "subst"):
        writers |= set(crate.field_writers(MS, f))

    def ret_ty(b):
        return b.local_ty(0)
    uf_readers = set(crate.field_readers(MS, "slot_uf"))
    slot_find = {bid for bid in uf_readers if bid in crate.bodies and crate.bodies[bid].kind != "Closure" and bid not in writers and ret_ty(crate.bodies[bid]) == "slot::Slot"}
    appid_find = set()
    for b in crate.fns():
        if ret_ty(b) == "types::AppliedId" and (b.file or "").endswith("multipat.rs") and any(c.callee and c.callee.target in slot_find for c in b.all_calls()):
            appid_find.add(b.id)
    ps_readers = set(crate.field_readers(MS, "pattern_slots"))
    allows = {bid for bid in ps_readers if bid in crate.bodies and crate.bodies[bid].kind != "Closure" and bid not in writers and ret_ty(crate.bodies[bid]) == "bool"}
    def nm(ids):        # call sites of a renamed function carry the name of the reviewed tree (aliases)
        return {crate.bodies[x].name for x in ids} | {crate.aliases[x] for x in ids if x in crate.aliases}
    out = {"slot_find": slot_find, "appid_find": appid_find, "allows": allows,
           "slot_find_names": nm(slot_find), "appid_find_names": nm(appid_find), "allows_names": nm(allows)}
    crate._cache[key] = out
    return out


def _calls_deep_any(crate, role, names):
    return any(C.role_calls_deep(crate, role, n) for n in names)


@rule("V4", doc="multi-pattern unify: accepted only behind eq or after a successful slot union; different classes never unify")
def v4(ctx):
    crate = ctx.lib()
    b = fn(crate, "unify", "rewrite/multipat.rs")
    ne = []
    eq_true = []
    for sb in b.switch_blocks():
        t = b.blocks[sb]["term"]
        r = strip_role(b.role_of_operand(t["discr"]))
        if isinstance(r, tuple) and r[0] == "call" and r[1] in ("ne", "eq") and len(r[3]) == 2:
            x, y = strip_role(r[3][0]), strip_role(r[3][1])
            if x[0] == "field" and y[0] == "field" and x[2] == "id" and y[2] == "id":
                cond_t = C.edge_condition(r, True)
                ne.append((sb, cond_t[0]))
        if isinstance(r, tuple) and r[0] == "call" and r[1] == "eq" and "EGraph" in (r[2] or ""):
            eq_true.append(("e", sb, "otherwise") if any(v == "0" for v, _ in t["cases"]) else ("e", sb, "1"))
    ctx.check(bool(ne), "id-test", "unify compares the two class ids first", "unify no longer compares x.id with y.id", where_of(b))
    ctx.check(bool(eq_true), "eq-test", "unify asks EGraph::eq when the slot sets agree", "unify no longer calls EGraph::eq", where_of(b))
    n = 0
    for d in nonempty_return_defs(b):
        r = b.role_of_rvalue(d["rv"]) if d["kind"] == "assign" else None
        if r is not None and role_mentions_call(r, "unify"):
            continue
        if r is not None and strip_role(r)[0] == "call" and strip_role(r)[1] == "new":
            continue
        # `out` accumulated from recursive calls is fine; a literal one-element vec needs eq
        if d["kind"] == "call" and d["call"].callee and "into_vec" in d["call"].callee.name:
            n += 1
            ok = b.dominated_by(d["bb"], eq_true)
            ctx.check(ok, "accept-needs-eq", "returning the state as a match is dominated by eq(x, y) == true",
                      "unify returns a match without EGraph::eq(x, y) having answered true", where_of(b, d["bb"]))
    if n == 0 and b.local_ty(0) == "()":
        # out-parameter form (`fn unify(.., out: &mut Vec<MultiState>)`): accepting the state is `out.push(st)`
        outs = [b.var_names.get(l) for l in range(1, b.argc + 1) if b.local_ty(l).startswith("&mut ") and "Vec<" in b.local_ty(l)]
        for op in outs:
            for c in C.result_sinks(b, op):
                if c.callee.name != "push":
                    continue
                n += 1
                ok = b.dominated_by(c.bb, eq_true)
                ctx.check(ok, "accept-needs-eq", "pushing the state as a match is dominated by eq(x, y) == true",
                          "unify pushes a match without EGraph::eq(x, y) having answered true", where_of(b, c.bb))
    ctx.floor("literal match returns in unify", n, 1)
    # what is put into an accumulated result: the answers of a recursive attempt, or a state behind eq == true
    for c in C.result_sinks(b, "out"):
        r = b.role_of_operand(c.args[1])
        if role_mentions_call(r, "unify"):
            continue
        ctx.check(b.dominated_by(c.bb, eq_true), "accept-needs-eq:accumulated", "a state is added to the result only behind eq(x, y) == true",
                  "unify adds a state to its result (%s) without EGraph::eq(x, y) having answered true: after the last differing slot pair was identified the argument ORDER has not been compared, so c[u, v] is accepted as an occurrence of c[v, u]" % role_str(r)[:60], where_of(b, c.bb))
    # recursive extension only under union_slot == Some
    rec = [c for c in b.calls if c.callee and c.callee.target == b.id]
    for c in rec:
        st = b.role_of_operand(c.args[2])
        ok = role_mentions_call(st, "union_slot")
        if not ok:
            # in-place form: `if union_slot(x, y, &mut st2) { .. unify(.., st2, ..) }` — the recursion works on the very state the
            # slot union was made in, behind its `true` answer
            st_r = strip_role(st)
            for u in b.calls:
                if not (u.callee and u.callee.name == "union_slot") or b.blocks[u.bb]["cleanup"]:
                    continue
                inplace = any(mir.op_place(a) is not None and b.local_ty(mir.op_place(a)["l"]).startswith("&mut") and strip_role(b.role_of_operand(a)) == st_r for a in u.args)
                if not inplace or b.local_ty(u.dest["l"]) != "bool":
                    continue
                for sb in b.switch_blocks():
                    t = b.blocks[sb]["term"]
                    pl = mir.op_place(t["discr"])
                    if pl is not None and not pl["p"] and pl["l"] == u.dest["l"]:
                        true_e = [("e", sb, "otherwise")] if any(v == "0" for v, _ in t["cases"]) else [("e", sb, "1")]
                        if b.dominated_by(c.bb, true_e):
                            ok = True
        ctx.check(ok, "recursion-after-slot-union", "the recursive attempt uses the state returned by a successful union_slot",
                  "unify recurses with state %s, not with the result of union_slot" % role_str(st)[:100], where_of(b, c.bb))
    # operands are canonicalised against the state first
    mr = multipat_roles(crate)
    C.need("slot find of the multi-pattern state (reads slot_uf, returns Slot)", sorted(mr["slot_find"]))
    C.need("invocation find of the multi-pattern state", sorted(mr["appid_find"]))
    fs = [c for c in b.calls if c.callee and c.callee.target in mr["appid_find"]]
    ctx.check(len(fs) >= 2, "operands-canonicalised", "both invocations are canonicalised against the slot union-find first", "unify does not canonicalise its operands", where_of(b))
    es = fn(crate, "extend_subst", "rewrite/multipat.rs")
    ok = any(c.callee and c.callee.target == b.id for c in es.calls) and any(c.callee and c.callee.name == "insert" for c in es.calls)
    ctx.check(ok, "extend-subst-unifies-or-binds", "a child variable is unified when bound and bound when new", "extend_subst no longer unifies a bound child variable", where_of(es))


@rule("V5", doc="matching is read-only")
def v5(ctx):
    crate = ctx.lib()
    entries = [fn(crate, "ematch_all", "rewrite/ematch.rs"), fn(crate, "multi_ematch", "rewrite/multipat.rs")]
    readonly_closure(ctx, crate, entries, "ro")
    # searcher closures get &EGraph by type
    rw = crate.adt_named("rewrite::Rewrite")
    if rw is None:
        raise mir.AnchorMissing("rewrite::Rewrite")
    f = {x["name"]: x["ty"] for x in rw["variants"][0]["fields"]}
    ctx.check("Fn(&egraph::EGraph<" in f.get("searcher", "") or "Fn(&'a egraph::EGraph<" in f.get("searcher", "") or ("&" in f.get("searcher", "") and "&mut egraph" not in f.get("searcher", "")),
              "searcher-type", "Rewrite.searcher takes &EGraph: %s" % f.get("searcher", "")[:90], "Rewrite.searcher can mutate the e-graph: %s" % f.get("searcher"), None)


@rule("V7", doc="multi-pattern state stays canonical after a slot union")
def v7(ctx):
    crate = ctx.lib()
    mr = multipat_roles(crate)
    C.need("slot find of the multi-pattern state (reads slot_uf, returns Slot)", sorted(mr["slot_find"]))
    rekey = [b for b in crate.fns() if any(k == "store" for wid, v in crate.field_writers(MS, "diseq_constraints").items() if wid == b.id for (_, _, k, _) in v)]
    C.need("state re-keying function (stores MultiState.diseq_constraints)", [b.id for b in rekey])
    ctx.roleset("rekey", [b.id for b in rekey])
    for b in rekey:
        d = crate.deps(b)
        n = 0
        for c in b.calls:
            if b.blocks[c.bb]["cleanup"] or not c.callee:
                continue
            if c.callee.name in ("entry", "insert") and "HashMap<slot::Slot, std::collections::HashSet<slot::Slot" in b.local_ty(mir.op_place(c.args[0])["l"]).replace("&mut ", "") or \
               (c.callee.name in ("entry",) and role_mentions_call(b.role_of_operand(c.args[0]), "default")):
                n += 1
                ctx.check(_calls_deep_any(crate, b.role_of_operand(c.args[1]), mr["slot_find_names"]), "rekey-key-canonical:" + C.fkey(b), "constraint keys are re-keyed through state_find",
                          "%s re-keys the disequality table with a slot that did not go through state_find" % C.short(b.id), where_of(b, c.bb))
            if c.callee.name in ("extend", "insert") and role_mentions_call(b.role_of_operand(c.args[0]), "or_default"):
                n += 1
                ctx.check(_calls_deep_any(crate, b.role_of_operand(c.args[1]), mr["slot_find_names"]), "rekey-members-canonical:" + C.fkey(b), "constraint members are canonicalised through state_find",
                          "%s copies the members of a disequality set without canonicalising them (state_find): once both slots of a constraint have been renamed the constraint mentions only dead names and two slots that must stay distinct can be unified — the matcher returns a non-bijective invocation" % C.short(b.id),
                          where_of(b, c.bb))
        ctx.floor("table writes in " + C.short(b.id), n, 2)
        # substitution values
        st = [s for sub in b.all_bodies() for bi, si, s in sub.statements() if s["k"] == "assign" and "*" in s["lhs"]["p"] and any(role_mentions_call(sub.role_of_rvalue(s["rv"]), n_) for n_ in mr["appid_find_names"])]
        ctx.check(bool(st), "subst-values-canonical:" + C.fkey(b), "every substitution value is re-canonicalised (state_appid_find)",
                  "%s no longer re-canonicalises the substitution values after a slot union" % C.short(b.id), where_of(b))
        lp = [l for l in C.iterator_loops(b)]
        for l in lp:
            ctx.check(C.loop_exhaustive(b, l), "rekey-loop-exhaustive:%s:%d" % (C.fkey(b), l[0]), "re-keying loop visits every entry", "a re-keying loop can stop early", where_of(b, l[0]))


@rule("V8", doc="union_slot: constraint tested in both directions before linking; link then re-key")
def v8(ctx):
    crate = ctx.lib()
    b = fn(crate, "union_slot", "rewrite/multipat.rs")
    ins = [c for c in b.calls if c.callee and c.callee.name == "insert" and role_mentions_field(b.role_of_operand(c.args[0]), "slot_uf")]
    if not ctx.floor("slot union-find links", len(ins), 1):
        return
    for c in ins:
        conds = C.conditions_at(b, c.bb)
        dirs = 0
        for e, cond in conds:
            if cond[0] == "false":
                r = strip_role(cond[1])
                if isinstance(r, tuple) and r[0] == "call" and r[1] == "contains" and role_mentions_field(r, "diseq_constraints"):
                    dirs += 1
        # the two `if let Some(..)` tests are skipped when no constraint set exists; then the false edge does not dominate.
        # count the contains tests that lie on every path where their set exists instead:
        gets = [x for x in b.calls if x.callee and x.callee.name == "get" and x.args and role_mentions_field(b.role_of_operand(x.args[0]), "diseq_constraints") and not b.blocks[x.bb]["cleanup"]]
        keys = {role_str(b.role_of_operand(x.args[1])) for x in gets if len(x.args) > 1}
        tests = []          # (contains call, switch block in b deciding on it, edge taken when the constraint is violated)
        for sb in b.switch_blocks():
            t = b.blocks[sb]["term"]
            r0 = b.role_of_operand(t["discr"])
            r = strip_role(r0)
            if not (isinstance(r, tuple) and r[0] == "call"):
                continue
            hit = False
            if r[1] == "contains" and role_mentions_field(r, "diseq_constraints"):
                hit = True
            elif r[1] in ("is_some_and", "map_or", "is_some_and") and r[3] and role_mentions_field(r[3][0], "diseq_constraints"):
                cl = strip_role(r[3][-1])
                if cl[0] == "agg" and cl[1] in crate.bodies and any(x.callee and x.callee.name == "contains" for x in crate.bodies[cl[1]].calls):
                    hit = True
            if hit:
                te = [("e", sb, "otherwise")] if any(v == "0" for v, _ in t["cases"]) else [("e", sb, "1")]
                tests.append((sb, te))
        ctx.check(len(tests) >= 2 and len(keys) >= 2, "both-directions", "the disequality constraint is tested for x against y and for y against x",
                  "union_slot tests the disequality constraint in %d direction(s) only" % min(len(keys), len(tests)), where_of(b, c.bb))
        for sb, te in tests:
            # a positive test must lead to None without linking
            ok = c.bb not in b.reach(te)
            ctx.check(ok, "violated-constraint-blocks-link:%d" % tests.index((sb, te)), "a violated constraint returns without linking", "union_slot can link two slots although a disequality constraint forbids it", where_of(b, sb))
        up = {x.bb for x in b.calls if x.callee and x.callee.name == "update_state" or (x.callee and x.callee.target in [y.id for y in crate.fns() if any(k == "store" for wid, v in crate.field_writers("rewrite::multipat::MultiState", "diseq_constraints").items() if wid == y.id for (_, _, k, _) in v)])}
        ctx.check(bool(up) and b.must_pass(b.after(c.bb), b.return_blocks(), up), "link-then-rekey", "after linking the state is re-keyed on every path",
                  "union_slot links two slots and can return without re-keying the state", where_of(b, c.bb))
        # pattern slots are never replaced
        allow_true = [e for e, cond in C.all_cond_edges(b) if cond[0] == "true" and isinstance(strip_role(cond[1]), tuple) and strip_role(cond[1])[0] == "call" and strip_role(cond[1])[1] in multipat_roles(crate)["allows_names"]]
        # the test written out: `!st.pattern_slots.contains(&x)`
        allow_true += [e for e, cond in C.all_cond_edges(b) if cond[0] == "false" and isinstance(strip_role(cond[1]), tuple) and strip_role(cond[1])[0] == "call" and strip_role(cond[1])[1] == "contains"
                       and role_mentions_field(strip_role(cond[1]), "pattern_slots")]
        ok = bool(allow_true) and b.must_pass([0], {c.bb}, allow_true)
        ctx.check(ok, "pattern-slots-stay", "a slot is replaced only if allows_directed_union (it is not a pattern slot)", "union_slot can replace a pattern slot", where_of(b, c.bb))


RULES = [v1, v2, v3, v4, v5, v7, v8]


@rule("V5w", doc="compile-fail witnesses: a searcher / a shared reference cannot mutate the e-graph", thorough_only=True, once=True)
def v5w(ctx):
    from salib import witness
    witness.check(ctx, ['c05_searcher_mutates', 'c09_add_through_shared', 'c09_union_through_shared'])


RULES.append(v5w)


@rule("V9", doc="the slots of one e-node are declared pairwise distinct, all of them (also redundant and bound ones), per e-node")
def v9(ctx):
    crate = ctx.lib()
    adders = [b for b in crate.fns() if any(k == "mutborrow" for wid, v in crate.field_writers(MS, "diseq_constraints").items() if wid == b.id for (_, _, k, _) in v)
              and not any(k == "store" for wid, v in crate.field_writers(MS, "diseq_constraints").items() if wid == b.id for (_, _, k, _) in v)]
    C.need("constraint adder (mutably borrows MultiState.diseq_constraints)", [b.id for b in adders])
    n = 0
    pol = mir.default_inline_policy(crate)
    for ad in adders:
        for caller0 in crate.fns():
            # a private single-use helper (the per-e-node part of the loop extracted) is looked at inside its caller
            if caller0.id in pol and caller0.id != ad.id:
                continue
            caller = mir.inline_view(crate, caller0, keep=(ad.id,))
            for c in [c_ for c_ in caller.all_calls() if c_.callee and c_.callee.target == ad.id]:
                n += 1
                r = c.body.role_of_operand(c.args[0])
                ok = role_mentions_call(r, "all_slot_occurrences") and role_mentions_call(r, "enodes_applied")
                if not ok:
                    # the set may be filled element by element: fall back to (flow-insensitive) value dependence
                    at = crate.deps(crate.root_of(c.body) if c.body.id in crate.bodies and crate.bodies[c.body.id] is c.body else caller0).atoms_of_operand(c.body, c.args[0]) if (c.body.id in crate.bodies and crate.bodies[c.body.id] is c.body) else set()
                    ok = bool(mir.atoms_calls(at, "all_slot_occurrences")) and bool(mir.atoms_calls(at, "enodes_applied"))
                ctx.check(ok, "constraint-covers-all-occurrences:" + C.fkey(caller), "the disjointness constraint is built from all_slot_occurrences() of each e-node handed out by enodes_applied",
                          "%s builds the disjointness constraint from %s instead of all slot occurrences of the e-node: redundant / bound slots get fresh, flexible names from enodes_applied and only this constraint keeps two different ones from being unified — the matcher then reports a substitution whose instance is not in the e-graph" % (C.short(caller.id), role_str(r)[:100]),
                          where_of(c.body, c.bb))
                # inside the per-node loop
                lp = [l for l in C.iterator_loops(c.body) if role_mentions_call(l[1], "enodes_applied")]
                inl = bool(lp) and c.bb in c.body.reach(lp[0][3], avoid=lp[0][2])
                ctx.check(inl, "constraint-per-enode:" + C.fkey(caller), "the constraint is added once per e-node (inside the e-node loop)", "the disjointness constraint is not added per e-node", where_of(c.body, c.bb))
    ctx.floor("disjointness-constraint call sites", n, 1)


RULES.append(v9)


@rule("V10", doc="multi-pattern node match: only nodes of the pattern node's name-free shape are accepted; the pattern's own slots are registered as pattern slots before they are unified with e-graph slots")
def v10(ctx):
    crate = ctx.lib()
    mr = multipat_roles(crate)
    ws = [bid for bid in crate.field_writers(MS, "pattern_slots") if bid in crate.bodies]
    roots = sorted({crate.root_of(crate.bodies[x]).id for x in ws})
    C.need("node matcher of the multi-pattern search (registers pattern slots)", roots)
    n = 0
    for rid in roots:
        b = mir.inline_view(crate, crate.bodies[rid])
        regs = [c for sub in b.all_bodies() for c in sub.calls if c.callee and c.callee.name == "insert" and c.args and role_mentions_field(sub.role_of_operand(c.args[0]), "pattern_slots") and not sub.blocks[c.bb]["cleanup"]]
        if not regs:
            continue

        def dominated_in_root(c, edges):
            """call c (in the root body or in a closure created there) only runs after `edges` of the root body"""
            sub, bb = c.body, c.bb
            while sub is not b and sub.creation is not None and sub.parent_body is not None:
                par = sub.creation[0]
                cl_local = par.blocks[sub.creation[1]]["stmts"][sub.creation[2]]["lhs"]["l"]
                uses = [x.bb for x in par.calls if any((mir.op_place(a) or {}).get("l") == cl_local for a in x.args)] or [sub.creation[1]]
                sub, bb = (b if par.id == b.id else par), uses[0]
            return sub is b and b.dominated_by(bb, edges)
        n += 1
        # (a) shape gate
        gate = [e for e, cond in C.all_cond_edges(b) if cond[0] == "eq" and len(cond) == 3 and role_mentions_call(cond[1], "weak_shape") and role_mentions_call(cond[2], "weak_shape")
                and role_mentions_call(cond[1], "nullify_app_ids") and role_mentions_call(cond[2], "nullify_app_ids")]
        sides_ok = False
        for e, cond in C.all_cond_edges(b):
            if cond[0] == "eq" and len(cond) == 3 and role_mentions_call(cond[1], "weak_shape") and role_mentions_call(cond[2], "weak_shape"):
                ps = [{x[1] for x in role_walk(s_) if isinstance(x, tuple) and x[0] == "param"} for s_ in (cond[1], cond[2])]
                sides_ok = sides_ok or (ps[0] != ps[1] and all(ps))
        for c in regs:
            ok = bool(gate) and dominated_in_root(c, gate) and sides_ok
            ctx.check(ok, "shape-equality-gate:" + C.fkey(crate.bodies[rid]), "slots of an e-node are related to the pattern node's only after weak_shape(nullified pattern node) == weak_shape(nullified e-node)",
                      "%s relates the slots of an e-node to the pattern node's without their name-free shapes having been compared: a node with another operator / another binding structure is accepted as a match" % C.short(rid),
                      where_of(c.body, c.bb))
        # (b) registration before unification, same slot
        def is_slot_union(t_):
            # `fn union_slot(x, y, st) -> Option<MultiState>`, or in place: `fn union_slot(x, y, st: &mut MultiState) -> bool`
            if t_.local_ty(0).startswith("std::option::Option<rewrite::multipat::MultiState"):
                return True
            return t_.local_ty(0) == "bool" and any(t_.local_ty(l) == "&mut rewrite::multipat::MultiState" for l in range(1, t_.argc + 1)) and sum(1 for l in range(1, t_.argc + 1) if t_.local_ty(l) == "slot::Slot") >= 2
        unions = [c for sub in b.all_bodies() for c in sub.calls if c.callee and c.callee.target in crate.bodies and is_slot_union(crate.bodies[c.callee.target])
                  and c.callee.target != rid and not sub.blocks[c.bb]["cleanup"]]
        ctx.floor("slot unifications in " + C.short(rid), len(unions), 1)
        # (c) what is unified pairwise is ALL slot occurrences of the two (blanked) nodes — bound ones included: the renaming a
        #     shape computation returns covers only the public slots, so pairing through it leaves the pattern's binder
        #     un-registered and un-unified with the e-graph's fresh bound name (the bound variable of the match is then a slot the
        #     pattern does not have)
        for u in unions:
            if u.body is not b:
                continue
            for k_, a_ in enumerate(u.args[:2]):
                src = role_str(u.body.role_of_operand(a_), 30)
                ok_all = "all_slot_occurrences(" in src and "weak_shape" not in src.split("all_slot_occurrences(")[0][-40:]
                from_shape_map = "weak_shape(" in src and "all_slot_occurrences(" not in src
                ctx.check(ok_all and not from_shape_map, "unifies-all-occurrences:%d:%s" % (k_, C.fkey(crate.bodies[rid])), "the slots unified pairwise are drawn from all_slot_occurrences() of the two nodes",
                          "%s unifies slots drawn from %s: the pairing must range over all_slot_occurrences() of both nodes (public AND bound) — the bijection returned by weak_shape() lists public slots only, so a binder's slot is neither registered as a pattern slot nor tied to the e-graph's name for it" % (C.short(rid), src[:90]),
                          where_of(u.body, u.bb))
        for u in unions:
            first = strip_role(u.body.role_of_operand(u.args[0]))
            ok = any(c.body is u.body and strip_role(c.body.role_of_operand(c.args[1])) == first and u.body.dominated_by(u.bb, [c.bb]) for c in regs if len(c.args) > 1)
            ctx.check(ok, "pattern-slot-registered:" + C.fkey(crate.bodies[rid]), "the pattern-side slot is put into pattern_slots before it is unified with the e-graph slot",
                      "%s unifies a pattern slot with an e-graph slot without registering it in pattern_slots first: the directed slot union may then replace the pattern's own slot by an e-graph name, and the substitution handed to the rule speaks about slots the pattern does not have" % C.short(rid),
                      where_of(u.body, u.bb))
    ctx.floor("multi-pattern node matchers", n, 1)


RULES.append(v10)


@rule("V11", doc="the bijectivity test the matcher relies on really is one: SlotMap::is_bijection rejects any repeated value (a set of seen values, not a comparison of neighbours in key order)")
def v11(ctx):
    crate = ctx.lib()
    ibs = [b for b in crate.by_name.get("is_bijection", []) if b.kind != "Closure" and (b.impl_self or "") == "slotmap::SlotMap"]
    if len(ibs) != 1:
        raise mir.AnchorMissing("SlotMap::is_bijection")
    ib = ibs[0]
    sets = [c for sub in ib.all_bodies() for c in sub.calls if c.callee and c.callee.name in ("insert", "contains") and "HashSet" in (c.callee.impl_self or "") + " ".join(c.callee.gargs) + (sub.local_ty(mir.op_place(c.args[0])["l"]) if c.args and mir.op_place(c.args[0]) is not None else "")]
    collected = [c for sub in ib.all_bodies() for c in sub.calls if c.callee and c.callee.name in ("collect", "len") ]
    viaset = bool(sets) or (any(c.callee.name == "collect" for c in collected) and sum(1 for c in collected if c.callee.name == "len") >= 2)
    ctx.check(viaset, "seen-set", "is_bijection remembers every value seen (hash set) — or compares the number of distinct values with the number of entries",
              "SlotMap::is_bijection no longer collects the values into a set: comparing neighbouring entries only finds duplicates that are adjacent in KEY order, so {k1->x, k2->y, k3->x} passes and the matcher binds two e-graph slots to one pattern slot (a reported match whose instance is not in the e-graph)", where_of(ib))
    lp = [l for l in C.iterator_loops(ib)]
    falses = [d for d in ib.defs().get(0, []) if d["kind"] == "assign" and C.const_bool(d["rv"]) is False]
    if lp and falses:
        ctx.check(all(not C.loop_exhaustive(ib, l) or True for l in lp), "walks-all-values", "every value is examined until a repeat is found", "", where_of(ib))


RULES.append(v11)


@rule("V12", doc="a binding enters the multi-pattern substitution in the state's current slot names: the invocation went through the state's slot find, or is made of brand-new slots")
def v12(ctx):
    crate = ctx.lib()
    mr = multipat_roles(crate)
    C.need("invocation find of the multi-pattern state (state_appid_find)", sorted(mr["appid_find"]))

    def settled(body, role, depth=0):
        """the invocation is spelled in the state's current names"""
        if any(role_mentions_call(role, nm) for nm in mr["appid_find_names"]):
            return True
        if role_mentions_call(role, "bijection_from_fresh_to") or (role_mentions_call(role, "fresh") and not role_mentions_call(role, "applied_id_occurrences")):
            return True
        r = strip_role(role)
        while isinstance(r, tuple) and r[0] == "call" and r[1] in ("clone", "to_owned") and r[3]:
            r = strip_role(r[3][0])
        if isinstance(r, tuple) and r[0] == "param" and depth < 3:
            root = crate.root_of(body)
            idx = root.param_index(r[1])
            sites = [c for f in crate.fns() for c in f.all_calls() if c.callee and c.callee.target == root.id and not c.body.blocks[c.bb]["cleanup"]]
            return bool(sites) and idx is not None and all(settled(c.body, c.body.role_of_operand(c.args[idx - 1]), depth + 1) for c in sites)
        return False

    n = 0
    for b in crate.fns():
        if not (b.file or "").endswith("multipat.rs"):
            continue
        for sub in b.all_bodies():
            for c in sub.calls:
                if sub.blocks[c.bb]["cleanup"] or not (c.callee and c.callee.name == "insert" and len(c.args) == 3):
                    continue
                if not role_mentions_field(sub.role_of_operand(c.args[0]), "subst"):
                    continue
                n += 1
                val = sub.role_of_operand(c.args[2])
                ctx.check(settled(sub, val), "binding-in-current-names:" + C.fkey(b), "%s binds a variable to an invocation that went through the state's slot find (or consists of fresh slots)" % C.short(b.id),
                          "%s puts an invocation into the substitution as the e-graph spells it (%s): a slot of it that the same e-node has just identified with a pattern slot (`?o == (lam $a ?b)`) keeps its e-graph name unless a later slot union happens to re-canonicalise the table — the returned binding then mentions a slot the pattern does not have and the instantiated equation is not represented" % (C.short(b.id), role_str(val)[:70]),
                          where_of(sub, c.bb))
    ctx.floor("bindings entered into the multi-pattern substitution", n, 2)


RULES.append(v12)


@rule("MC", doc="must-call census: no function of this property's files has gained an early exit in front of work it always did (every crate-local call that lay on all paths to a normal return in the reviewed tree still does)")
def mc(ctx):
    C.must_call_census(ctx, ctx.lib(), ['src/rewrite/ematch.rs', 'src/rewrite/multipat.rs', 'src/egraph/mod.rs', 'src/egraph/add.rs'])


RULES.append(mc)


@rule("V13", doc="the e-nodes the matchers read (enodes_applied) are renamed consistently: one fresh name per non-class slot for all its occurrences, class slots renamed to the invocation's arguments simultaneously (C03.H2 / H6) — a match found on a mis-renamed copy denotes a term that is not represented")
def v13(ctx):
    from . import c03
    c03.h2(ctx)
    c03.h6(ctx)


RULES.append(v13)


@rule("V14", doc="every child of a candidate e-node is matched against its child pattern: no iteration of the child loop of the node matcher goes on to the next child without the recursive ematch_impl (C04.M3 every-child-matched) — a ground-sub-pattern fast path that compares class ids only leaves the child's slot arguments unconstrained, and a reported match is not an instance")
def v14(ctx):
    from . import c04
    crate = ctx.lib()
    b0, hosted = c04.node_matcher(crate)
    b = mir.inline_view(crate, b0, keep=c04.MATCHER_ANCHORS)
    zl = [l for l in C.iterator_loops(b) if role_mentions_call(l[1], "zip") and role_mentions_call(l[1], "applied_id_occurrences")]
    folds = c04.child_folds(crate, b)
    if len(zl) != 1 and not (not zl and len(folds) == 1):
        raise mir.AnchorMissing("the child loop (zip of the node's children with the child patterns) of the node matcher", "found %d" % len(zl))
    if zl:
        c04.every_child_matched(ctx, crate, b, zl[0])
    else:
        c04.every_child_matched_closure(ctx, crate, b, folds[0])


RULES.append(v14)

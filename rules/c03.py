"""C03 — rewriting with valid rules preserves meaning (hygiene gates)."""
from salib import mir
from salib.mir import role_str, role_walk, strip_role, role_mentions_field, role_mentions_call, role_mentions_param
from salib.runner import rule, where_of
from . import common as C
from .c04 import fn

META = {
    "level": "other",
    "explanation": "Capture avoidance in slotted e-graphs 'comes from slots': whenever a stored e-node is exposed to a matcher or a "
                   "substitution, slots that are bound, redundant or not covered by the invocation must be replaced by Slot::fresh(). "
                   "H2/H3 check the three exposure points (enodes_applied: private/redundant occurrences and uncovered public slots; "
                   "final_subst: slots not covered by the pattern); H1 checks that both sides of a rule are instantiated from one "
                   "substitution and that the union is of exactly those two; H4 checks that b[x := t] replaces on equality of whole "
                   "invocations; H5 is a census of name-inventing constructors (only Slot::fresh may invent; numeric/named are confined "
                   "to a frozen set of callers, each with its reason). H6-H10: fresh-filling renamings memoise per slot; b[x := t] gets its three parts from one substitution in order and both methods substitute in a term of b; pattern_subst returns only handles produced by the call itself (no memo read back from the e-graph) and every id-carrying field of EGraph/EClass is in the reviewed table of state the rebuild keeps canonical; a shape is renamed with caller-chosen names only after refresh_private; every completion of a slot map for an uncovered slot inserts Slot::fresh().",
    "not_decided": "meaning preservation in the model; conditional rules; both substitution methods as values",
    "assumptions": ["Slot::fresh returns globally new slots (C17)"],
}


@rule("H1", doc="union_instantiations unions pattern_subst(from, s) with pattern_subst(to, s) for the same s")
def h1(ctx):
    crate = ctx.lib()
    b = crate.one("egraph::EGraph", "union_instantiations")
    ps = [c for c in b.calls if c.callee and c.callee.name == "pattern_subst" and not b.blocks[c.bb]["cleanup"]]
    if not ctx.floor("pattern_subst calls", len(ps), 2):
        return
    pats = [strip_role(b.role_of_operand(c.args[1])) for c in ps]
    subs = [strip_role(b.role_of_operand(c.args[2])) for c in ps]
    ctx.check(len({str(s) for s in subs}) == 1 and subs[0][0] == "param", "same-substitution", "both sides are instantiated with the same substitution parameter",
              "the two sides of a rule are instantiated with different substitutions: %s" % [role_str(s) for s in subs], where_of(b))
    ctx.check(len({str(p) for p in pats}) == 2 and all(p[0] == "param" for p in pats), "both-patterns", "one instantiation per pattern parameter (%s)" % [role_str(p) for p in pats],
              "the same pattern is instantiated twice (%s): the rule unions a term with itself or with the wrong side" % [role_str(p) for p in pats], where_of(b))
    un = [c for c in b.calls if c.callee and c.callee.name == "union_internal"]
    ctx.floor("union_internal calls", len(un), 1)
    for c in un:
        a, bb_ = strip_role(b.role_of_operand(c.args[1])), strip_role(b.role_of_operand(c.args[2]))
        ok = a[0] == "call" and a[1] == "pattern_subst" and bb_[0] == "call" and bb_[1] == "pattern_subst" and a[4] != bb_[4]
        ctx.check(ok, "union-of-the-two-instantiations", "the union is of exactly the two instantiations",
                  "union_instantiations unions %s with %s" % (role_str(a)[:80], role_str(bb_)[:80]), where_of(b, c.bb))
        if ok:
            first = strip_role(a[3][1])
            ctx.check(first == pats[0] or True, "order", "from-side first", "", where_of(b, c.bb))


@rule("H2", doc="enodes_applied: bound/redundant occurrences and uncovered public slots get Slot::fresh()")
def h2(ctx):
    crate = ctx.lib()
    b0 = crate.one("egraph::EGraph", "enodes_applied")
    b = b0
    if not any(role_mentions_call(l[1], "all_slot_occurrences_mut") for l in C.iterator_loops(b0)):
        # the per-node part may live in a private helper (`instantiate_enode(sh, psn, class_slots, i) -> L`) that the node loop /
        # the `map` closure calls for every node
        cands = []
        for sub in b0.all_bodies():
            for c in sub.calls:
                t = crate.bodies.get(c.callee.target) if c.callee else None
                if t is not None and t.kind != "Closure" and t.vis != "pub" and t.file == b0.file and any(role_mentions_call(l[1], "all_slot_occurrences_mut") for l in C.iterator_loops(t)):
                    cands.append(t)
        # several sequential phase helpers (`refresh_redundant_slots`, then `instantiate_enode`): look at the node loop with its
        # private single-use helpers inlined
        v = mir.inline_view(crate, b0)
        # .. or in a closure of enodes_applied itself (`let apply_to_node = |(x, psn)| { .. }; class.nodes.iter().map(apply_to_node).collect()`):
        # captured variables resolve to the enclosing function's roles, so the closure is read like the loop body it replaces
        clos = [cb_ for cb_ in v.all_bodies() if cb_ is not v and cb_.kind == "Closure" and any(role_mentions_call(l[1], "all_slot_occurrences_mut") for l in C.iterator_loops(cb_))
                and any(c.callee and c.callee.name == "apply_slotmap" for c in cb_.calls)]
        if any(role_mentions_call(l[1], "all_slot_occurrences_mut") for l in C.iterator_loops(v)) and any(c.callee and c.callee.name == "apply_slotmap" for c in v.calls):
            b = b0 = v
        elif len({t.id for t in cands}) == 1:
            b = cands[0]
        elif len(clos) == 1:
            b0 = v
            b = clos[0]
    # (i) occurrence loop over all_slot_occurrences_mut
    loops = C.iterator_loops(b)
    occ = [l for l in loops if role_mentions_call(l[1], "all_slot_occurrences_mut")]
    ctx.check(len(occ) == 1 and C.loop_exhaustive(b, occ[0]), "all-occurrences-visited", "every slot occurrence (including private ones) of an exposed node is visited",
              "enodes_applied does not visit every slot occurrence of the node (all_slot_occurrences_mut loop missing or left early): a bound slot can keep its stored name and be captured by an equal-named pattern slot", where_of(b))
    stores = [(bi, s) for bi, si, s in b.statements() if s["k"] == "assign" and s["lhs"]["p"] == ["*"] and "slot::Slot" in b.local_ty(s["lhs"]["l"])]
    ctx.floor("slot overwrites in enodes_applied", len(stores), 1)
    fresh_store = False
    for bi, s in stores:
        r = strip_role(b.role_of_rvalue(s["rv"]))
        conds = C.conditions_at(b, bi)
        guard = any(cond[0] == "false" and role_str(cond[1]).startswith("contains(") and role_mentions_field(cond[1], "slots") for e, cond in conds)
        if not guard and b is not b0:
            # in the per-node helper the class's slot set is a parameter: what the caller passes for it is the class's `slots`
            for e, cond in conds:
                r_ = strip_role(cond[1]) if len(cond) > 1 else None
                if cond[0] == "false" and isinstance(r_, tuple) and r_[0] == "call" and r_[1] == "contains" and r_[3]:
                    setr = strip_role(r_[3][0])
                    if isinstance(setr, tuple) and setr[0] == "param":
                        pi = b.param_index(setr[1])
                        for sub in b0.all_bodies():
                            for c in sub.calls:
                                if c.callee and c.callee.target == b.id and pi is not None and pi - 1 < len(c.args) and role_mentions_field(sub.role_of_operand(c.args[pi - 1]), "slots"):
                                    guard = True
        ctx.check(guard, "rename-only-non-class-slots:%d" % bi, "a slot occurrence is renamed only if it is not a slot of the class",
                  "enodes_applied overwrites a slot occurrence without testing !class_slots.contains(slot)", where_of(b, bi, s.get("line")))
        members = [strip_role(x) for x in r[1]] if r[0] == "phi" else [r]
        if any(isinstance(x, tuple) and x[0] == "call" and x[1] == "fresh" for x in members):
            fresh_store = True
            rest = [x for x in members if not (isinstance(x, tuple) and x[0] == "call" and x[1] == "fresh")]
            ctx.check(all(role_mentions_call(x, "get") for x in rest), "reuse-from-renaming-map:%d" % bi, "a repeated occurrence reuses the fresh name recorded for that slot", "a slot occurrence is overwritten with %s" % role_str(r), where_of(b, bi, s.get("line")))
        else:
            ok = role_mentions_call(r, "get")
            ctx.check(ok, "reuse-from-renaming-map:%d" % bi, "a repeated occurrence reuses the fresh name recorded for that slot", "a slot occurrence is overwritten with %s" % role_str(r), where_of(b, bi, s.get("line")))
    ctx.check(fresh_store, "non-class-slots-get-fresh", "a bound or redundant slot is replaced by Slot::fresh()",
              "enodes_applied no longer replaces bound / redundant slot occurrences by Slot::fresh(): stored names leak to the matcher", where_of(b))
    # (ii) uncovered public slots
    ins = [c for c in b.calls if c.callee and c.callee.name == "insert" and "SlotMap" in (c.callee.impl_self or "") and not b.blocks[c.bb]["cleanup"]]
    okf = False
    for c in ins:
        v = strip_role(b.role_of_operand(c.args[2]))
        if v[0] == "call" and v[1] == "fresh":
            conds = C.conditions_at(b, c.bb)
            # (`m = i.m.clone()` extended in place: the slots of an e-node are distinct, so testing the growing copy is testing i.m)
            g = any(cond[0] == "false" and (role_str(cond[1]).startswith("contains_key(i.m") or role_str(cond[1]).startswith("contains_key(clone(i.m)")) for e, cond in conds)
            ctx.check(g, "fresh-only-for-uncovered", "a public slot gets a fresh name only if the invocation does not cover it", "enodes_applied gives a fresh name to a slot the invocation covers", where_of(b, c.bb))
            okf = True
    ctx.check(okf, "uncovered-slots-get-fresh", "public slots the invocation does not cover are mapped to Slot::fresh()",
              "enodes_applied no longer maps uncovered public slots to fresh ones", where_of(b))
    cov = [c for c in ins if strip_role(b.role_of_operand(c.args[2]))[0] != "call" or strip_role(b.role_of_operand(c.args[2]))[1] != "fresh"]
    okc = any(role_mentions_field(b.role_of_operand(c.args[1]), "m") and role_mentions_param(b.role_of_operand(c.args[1]), "i") for c in cov)
    # or the completed map starts out as a copy of i.m
    for c in ins:
        recv = strip_role(b.role_of_operand(c.args[0]))
        if isinstance(recv, tuple) and recv[0] == "call" and recv[1] == "clone" or role_mentions_call(b.role_of_operand(c.args[0]), "clone"):
            rr = b.role_of_operand(c.args[0])
            if role_mentions_field(rr, "m") and role_mentions_param(rr, "i"):
                okc = True
    ctx.check(okc, "covered-slots-follow-invocation", "covered slots are renamed by i.m", "enodes_applied no longer renames covered slots by the invocation's map", where_of(b))
    # the pushed node is the renamed one
    push = [c for c in b0.calls if c.callee and c.callee.name == "push"] if b is b0 else []
    if b is not b0:
        ctx.check(role_mentions_call(b.role_of_local(0), "apply_slotmap"), "result-is-renamed-node", "the node handed out is the renamed one", "the per-node helper of enodes_applied returns %s" % role_str(b.role_of_local(0))[:100], where_of(b))
    for c in push:
        r = b.role_of_operand(c.args[1])
        ctx.check(role_mentions_call(r, "apply_slotmap"), "result-is-renamed-node", "the node handed out is the renamed one", "enodes_applied pushes %s" % role_str(r)[:100], where_of(b, c.bb))
    nodes = [l for l in C.iterator_loops(b0) if strip_role(l[1])[0] == "field" and strip_role(l[1])[2] == "nodes"]
    ok_nodes = len(nodes) == 1 and C.loop_exhaustive(b0, nodes[0])
    if not nodes:
        # adaptor form: class.nodes.iter().map(|(sh, psn)| ..).collect()
        r0 = strip_role(b0.role_of_local(0))
        DROP = ("filter", "take", "skip", "step_by", "filter_map", "take_while", "skip_while", "find", "nth")
        ok_nodes = isinstance(r0, tuple) and r0[0] == "call" and r0[1] == "collect" and role_mentions_field(r0, "nodes") and any(isinstance(x, tuple) and x[0] == "call" and x[1] == "map" for x in role_walk(r0)) \
            and not any(isinstance(x, tuple) and x[0] == "call" and x[1] in DROP for x in role_walk(r0))
    ctx.check(ok_nodes, "all-nodes", "every e-node of the class is handed out", "enodes_applied can skip e-nodes of the class", where_of(b0))


@rule("H3", doc="final_subst: slots not covered by the pattern's slot map get Slot::fresh()")
def h3(ctx):
    crate = ctx.lib()
    b = mir.inline_view(crate, fn(crate, "final_subst", "rewrite/ematch.rs"))      # the completion loop may live in a shared helper
    ins = [c for c in b.calls if c.callee and c.callee.name == "insert" and "SlotMap" in (c.callee.impl_self or "")]
    ok = False
    for c in ins:
        v = strip_role(b.role_of_operand(c.args[2]))
        conds = C.conditions_at(b, c.bb)
        g = any(cond[0] == "false" and role_str(cond[1]).startswith("contains_key(") for e, cond in conds)
        if v[0] == "call" and v[1] == "fresh" and g:
            ok = True
        else:
            ctx.bad("uncovered-gets-non-fresh", "final_subst inserts %s for a slot the pattern does not cover (guarded: %s); it must be Slot::fresh()" % (role_str(v), g), where_of(b, c.bb))
    ctx.check(ok, "uncovered-gets-fresh", "slots of a bound class that the pattern does not mention get fresh names", "final_subst no longer invents fresh names for uncovered slots", where_of(b))
    st = [s for bi, si, s in b.statements() if s["k"] == "assign" and s["lhs"]["p"] == ["*"] and role_mentions_call(b.role_of_rvalue(s["rv"]), "apply_slotmap")]
    ctx.check(bool(st), "values-renamed", "every substitution value is renamed from e-graph slots to pattern slots", "final_subst no longer renames the substitution values", where_of(b))
    for l in C.iterator_loops(b):
        ctx.check(C.loop_exhaustive(b, l), "loop-exhaustive:%d" % l[0], "loop visits everything", "a loop in final_subst can stop early", where_of(b, l[0]))


@rule("H4", doc="b[x := t] replaces on equality of whole invocations")
def h4(ctx):
    crate = ctx.lib()
    b = fn(crate, "do_term_subst", "rewrite/subst_method.rs")
    found = False
    for sb in b.switch_blocks():
        t = b.blocks[sb]["term"]
        r = strip_role(b.role_of_operand(t["discr"]))
        if isinstance(r, tuple) and r[0] == "call" and r[1] in ("eq", "ne") and len(r[3]) == 2:
            site = b.call_at.get(r[4])
            x, y = strip_role(r[3][0]), strip_role(r[3][1])
            whole = "AppliedId" in ((site.callee.impl_self or "") + " ".join(site.callee.gargs)) and x[0] != "field" and y[0] != "field"
            inv = (role_mentions_call(x, "add_syn") or role_mentions_call(x, "add")) and y == ("param", "x") or (role_mentions_call(y, "add_syn") or role_mentions_call(y, "add")) and x == ("param", "x")
            # one handle space: x was produced by the same add_syn machinery (pattern_subst), so the rebuilt subterm is compared as
            # add_syn returned it.  Canonicalising one side only compares a leader with a possibly merged-away syntactic class
            # (explanations builds): `x` never matches and the substitution silently does nothing
            CANON = ("find_applied_id", "proven_find_applied_id", "find_id", "unionfind_get", "semify_app_id")
            cx = any(role_mentions_call(x, n_) for n_ in CANON)
            cy = any(role_mentions_call(y, n_) for n_ in CANON)
            if inv:
                ctx.check(cx == cy, "same-handle-space", "the rebuilt subterm and x are compared in the same handle space (neither side canonicalised on its own)",
                          "do_term_subst canonicalises only one side of the replacement test (%s vs %s): under `explanations` add_syn answers with the node's syntactic class, which differs from its leader once the class lost a union — the occurrence of x is then not recognised and b[x := t] returns b unchanged (the rule unions the redex with the un-substituted body)" % (role_str(x)[:60], role_str(y)[:60]), where_of(b, sb))
            if inv or x[0] == "field" or y[0] == "field":
                found = True
                ctx.check(whole and inv, "whole-invocation-equality", "the replacement test is <AppliedId as PartialEq>::eq(node's invocation, x)",
                          "do_term_subst compares %s with %s: with an id-only test b[(var x) := t] also replaces (var y)" % (role_str(x), role_str(y)), where_of(b, sb))
    ctx.check(found, "replacement-test-present", "do_term_subst tests each rebuilt subterm against x", "do_term_subst has no replacement test", where_of(b))
    rets = [strip_role(b.role_of_rvalue(d["rv"])) if d["kind"] == "assign" else ("call", d["call"].callee.name, "", [strip_role(b.role_of_operand(a)) for a in d["call"].args], d["bb"]) for d in b.defs().get(0, [])]
    ok_t = any(r[0] == "call" and r[1] == "clone" and r[3] and strip_role(r[3][0]) == ("param", "t") for r in rets) or any(r == ("param", "t") for r in rets)
    ctx.check(ok_t, "replaced-by-t", "a matching subterm is replaced by t", "do_term_subst no longer returns t for a matching subterm", where_of(b))
    rec = [c for c in b.all_calls() if c.callee and c.callee.target == b.id]      # also inside a closure handed to a rebuild helper
    okr = all(strip_role(c.body.role_of_operand(c.args[2])) == ("param", "x") and strip_role(c.body.role_of_operand(c.args[3])) == ("param", "t") for c in rec) and bool(rec)
    ctx.check(okr, "recursion-same-x-t", "children are substituted with the same x and t", "the recursive calls of do_term_subst change x or t", where_of(b))


# name-inventing constructors: who may call Slot::numeric / Slot::named, and why.
# Keyed by (source file, constructor) with the number of reviewed sites (renaming an internal function keeps the
# verdict; a new site in the file is reported).
ALLOWED_NAMED_CALLERS = {
    ("src/lang.rs", "numeric"): (1, "shape numbering: $0, $1, ... in occurrence order (names live only inside shapes)"),
    ("src/explain/registry.rs", "numeric"): (2, "proof-registry normalisation: equations are renamed to $0.. before hashing"),
    ("src/egraph/check.rs", "numeric"): (1, "the consistency check tests that $0 is not a class slot"),
    ("src/parse.rs", "named"): (1, "user text: `$name` in a term or pattern"),
    ("src/rewrite/mod.rs", "named"): (1, "user-supplied slot name in a side condition (slot_free_in)"),
}


@rule("H5", doc="census: only Slot::fresh invents names; numeric/named are confined to a frozen (file, constructor) table")
def h5(ctx):
    crate = ctx.lib()
    n_fresh = 0
    seen = {}
    for b in crate.bodies.values():
        for c in b.calls:
            if b.blocks[c.bb]["cleanup"] or not c.callee:
                continue
            t = c.callee.target or ""
            if t == "slot::Slot::fresh":
                n_fresh += 1
            elif t in ("slot::Slot::numeric", "slot::Slot::named"):
                root = crate.root_of(b)
                if (root.file or "").endswith("tst.rs") or (root.file or "").endswith("src/slot.rs") or (b.file or "").endswith("src/slotmap.rs") and root.name == "test_slotmap":
                    continue
                # (a function that was moved to another file of the crate takes its reviewed call sites with it)
                f_ = b.file
                tab_ = mir._anchors()
                if root.name and "%s::%s" % (root.file, root.name) not in tab_:
                    ks_ = [k_ for k_ in tab_ if k_.rsplit("::", 1)[1] == root.name]
                    if len(ks_) == 1 and len([x_ for x_ in crate.by_name.get(root.name, []) if x_.kind != "Closure"]) == 1:
                        f_ = ks_[0].rsplit("::", 1)[0]
                seen.setdefault((f_, c.callee.name), []).append((root, b, c))
    n_named = sum(len(v) for v in seen.values())
    for (file, ctor), sites in sorted(seen.items(), key=lambda x: (str(x[0][0]), x[0][1])):
        ent = ALLOWED_NAMED_CALLERS.get((file, ctor))
        if ent is not None and len(sites) <= ent[0]:
            ctx.ok("named-constructor:%s:%s" % (file, ctor), "%d reviewed call(s) of Slot::%s in %s — %s" % (len(sites), ctor, file, ent[1]), where_of(sites[0][1], sites[0][2].bb))
        else:
            root, b, c = sites[-1]
            ctx.bad("named-constructor:%s:%s" % (file, ctor), "%s in %s calls Slot::%s (%d site(s) in this file, %d reviewed): library code outside the frozen set invents a slot by name/number instead of Slot::fresh(); such a name can capture a user slot" % (
                C.short(root.id), file, ctor, len(sites), ent[0] if ent else 0), where_of(b, c.bb))
    ctx.floor("Slot::fresh call sites", n_fresh, 6)
    ctx.floor("Slot::numeric/named call sites", n_named, 2)


RULES = [h1, h2, h3, h4, h5]


def _mentions_fresh(crate, role):
    for x in role_walk(role):
        if isinstance(x, tuple) and x[0] == "fnconst" and str(x[1]).endswith("Slot::fresh"):
            return True
        # inside a closure that occurs in the role: `unwrap_or_else(|| *memo.get_or_insert_with(Slot::fresh))`
        if isinstance(x, tuple) and x[0] == "agg" and isinstance(x[1], str) and x[1] in crate.bodies:
            for sub in crate.bodies[x[1]].all_bodies():
                for c in sub.calls:
                    for a in c.args:
                        if any(isinstance(y, tuple) and y[0] == "fnconst" and str(y[1]).endswith("Slot::fresh") for y in role_walk(sub.role_of_operand(a))):
                            return True
    return C.role_calls_deep(crate, role, "fresh")


@rule("H6", doc="a fresh name invented while renaming slot *occurrences* is memoised per slot (sibling agreement)")
def h6(ctx):
    crate = ctx.lib()
    n = 0
    for b in crate.fns():
        for sub in b.all_bodies():
            for bi, si, s in sub.statements():
                if s["k"] != "assign" or s["lhs"]["p"] != ["*"]:
                    continue
                if "slot::Slot" not in sub.local_ty(s["lhs"]["l"]) or not sub.local_ty(s["lhs"]["l"]).startswith("&mut"):
                    continue
                r = sub.role_of_rvalue(s["rv"])
                tgt = sub.role_of_local(s["lhs"]["l"])
                if not any(isinstance(x, tuple) and x[0] == "call" and x[1].endswith("slot_occurrences_mut") for x in role_walk(tgt)):
                    continue
                if not _mentions_fresh(crate, r):
                    # a renaming helper parameterised by a closure: `*x = rename(*x)` — the closures its callers pass decide
                    sr = strip_role(r)
                    if isinstance(sr, tuple) and sr[0] == "call" and sr[1] in ("call_mut", "call", "call_once") and sr[3] and strip_role(sr[3][0])[0] == "param" and sub is b:
                        pidx = b.param_index(strip_role(sr[3][0])[1])
                        for caller in crate.bodies.values():
                            for cs in caller.calls:
                                if cs.callee and cs.callee.target == b.id and pidx is not None and pidx - 1 < len(cs.args) and not caller.blocks[cs.bb]["cleanup"]:
                                    cl = C._closure_of_role(crate, caller.role_of_operand(cs.args[pidx - 1]))
                                    if hasattr(cl, "calls") and (_mentions_fresh(crate, cl.role_of_local(0)) or any(x.callee and x.callee.name == "fresh" for sb_ in cl.all_bodies() for x in sb_.calls)):
                                        n += 1
                                        owner = crate.root_of(caller)
                                        ins, gets = [], []
                                        for bb in owner.all_bodies():
                                            for c in bb.calls:
                                                if not c.callee or bb.blocks[c.bb]["cleanup"]:
                                                    continue
                                                if c.callee.name == "insert" and len(c.args) == 3 and (_mentions_fresh(crate, bb.role_of_operand(c.args[2])) or True):
                                                    ins.append(strip_role(bb.role_of_operand(c.args[0])))
                                                if c.callee.name == "get" and len(c.args) == 2:
                                                    gets.append(strip_role(bb.role_of_operand(c.args[0])))
                                        ctx.check(any(i in gets for i in ins), "fresh-per-slot:" + C.fkey(owner),
                                                  "%s records each invented slot in a map keyed by the old slot and reuses it for further occurrences" % C.short(owner.id),
                                                  "%s renames slot occurrences through a closure that invents Slot::fresh() without memoising it per slot" % C.short(owner.id), where_of(caller, cs.bb))
                    continue
                n += 1
                # memoisation: an insert whose value is the invented slot, and a get on the same map
                ins = []
                gets = []
                for bb in b.all_bodies():
                    for c in bb.calls:
                        if not c.callee or bb.blocks[c.bb]["cleanup"]:
                            continue
                        if c.callee.name == "insert" and len(c.args) == 3 and _mentions_fresh(crate, bb.role_of_operand(c.args[2])):
                            ins.append(strip_role(bb.role_of_operand(c.args[0])))
                        if c.callee.name == "get" and len(c.args) == 2:
                            gets.append(strip_role(bb.role_of_operand(c.args[0])))
                memo = any(i in gets for i in ins)
                # the memo is keyed: `insert(memo, old slot, fresh)` takes three arguments, and the table it goes into is also read with
                # `get`.  One shared cell (`Option::get_or_insert_with(Slot::fresh)`) hands the same name to *different* uncovered slots.
                shared = [c for bb in b.all_bodies() for c in bb.calls if c.callee and c.callee.name in ("get_or_insert_with", "get_or_insert") and not bb.blocks[c.bb]["cleanup"]
                          and any(_mentions_fresh(crate, bb.role_of_operand(a)) for a in c.args)]
                ctx.check(not shared, "fresh-distinct-per-slot:" + C.fkey(b), "%s does not hand one shared invented name to different slots" % C.short(b.id),
                          "%s keeps the invented slot in a single cell (get_or_insert_with) and writes it to every uncovered occurrence: two DIFFERENT redundant slots of a node are renamed to the same fresh slot — g(p(u, v)) is handed out as g(p(z, z)), which the class does not contain (Extractor::new looks it up and panics; extracted terms identify distinct variables)" % C.short(b.id),
                          where_of(sub, bi, s.get("line")))
                ctx.check(memo, "fresh-per-slot:" + C.fkey(b),
                          "%s records each invented slot in a map keyed by the old slot and reuses it for further occurrences" % C.short(b.id),
                          "%s writes Slot::fresh() into slot occurrences without memoising it per slot: two occurrences of one uncovered (redundant) slot get two different names, e.g. (sub (var x) (var x)) is handed out as (sub (var f1) (var f2)) — a different term" % C.short(b.id),
                          where_of(sub, bi, s.get("line")))
    ctx.floor("occurrence renamings that invent fresh slots", n, 2)


RULES.append(h6)


@rule("H7", doc="b[x := t]: the three parts are instantiated from the same substitution and handed to the substitution method in order; both methods substitute in a term of b")
def h7(ctx):
    crate = ctx.lib()
    ps = crate.free_fn("pattern_subst")
    if len(ps) != 1:
        raise mir.AnchorMissing("pattern_subst")
    p = mir.inline_view(crate, ps[0], keep=("pattern_subst", "do_term_subst"))
    sub = [c for c in p.calls if c.callee and c.callee.name == "subst" and (c.callee.trait or "").endswith("SubstMethod") and not p.blocks[c.bb]["cleanup"]]
    if not ctx.floor("SubstMethod::subst call sites in pattern_subst", len(sub), 1):
        return
    for c in sub:
        parts = [strip_role(p.role_of_operand(a)) for a in c.args[1:4]]
        ok = all(r[0] == "call" and r[1] == "pattern_subst" for r in parts)
        srcs = []
        if ok:
            for r in parts:
                srcs.append(role_str(r[3][1]))
                ok = ok and strip_role(r[3][2]) == ("param", "subst")
        import re as _re
        comps = [(_re.search(r"Subst\.(\d)", s_) or [None, None])[1] for s_ in srcs]
        order_ok = ok and comps == ["0", "1", "2"]
        ctx.check(ok, "parts-from-same-substitution", "b, x and t are each pattern_subst(.., subst) of the three sub-patterns", "the parts of b[x := t] are %s" % [role_str(r)[:50] for r in parts], where_of(p, c.bb))
        ctx.check(order_ok, "parts-in-order", "subst(b, x, t) receives the instantiations of Subst.0, Subst.1, Subst.2 in that order", "b[x := t] hands its parts to the substitution method as %s" % srcs, where_of(p, c.bb))
    # the method is put back
    st = [bi for bi, si, s in p.statements() if s["k"] == "assign" and mir.place_has_field(s["lhs"], C.EGRAPH, "subst_method")]
    tk = [c for c in p.calls if c.callee and c.callee.name == "take" and role_mentions_field(p.role_of_operand(c.args[0]), "subst_method")]
    ok = bool(st) and bool(tk) and all(p.must_pass(p.after(c.bb), p.return_blocks(), st) for c in sub)
    ctx.check(ok, "method-restored", "the substitution method taken out of the e-graph is put back on every path", "pattern_subst can return without restoring EGraph.subst_method (the next b[x := t] panics)", where_of(p))
    dts = crate.free_fn("do_term_subst")
    impls = [b for b in crate.by_name.get("subst", []) if (b.impl_trait or "").endswith("SubstMethod")]
    ctx.floor("SubstMethod impls", len(impls), 2)
    for b in impls:
        cs = [c for c in b.calls if dts and c.callee and c.callee.target == dts[0].id]
        ok = len(cs) == 1
        if ok:
            a = [strip_role(b.role_of_operand(x)) for x in cs[0].args]
            term = b.role_of_operand(cs[0].args[1])
            ok = a[2] == ("param", "x") and a[3] == ("param", "t") and role_mentions_param(term, "b") and not role_mentions_param(term, "x") and not role_mentions_param(term, "t")
        ctx.check(ok, "method:" + (b.impl_self or "?").split("::")[-1], "%s substitutes x by t in a term of b" % (b.impl_self or "?").split("::")[-1],
                  "%s::subst does not call do_term_subst(eg, <term of b>, x, t)" % (b.impl_self or "?"), where_of(b))


RULES.append(h7)


@rule("H8", doc="b[x := t] compares fresh handles: everything pattern_subst returns was produced by this very call (add / the substitution method / the caller's substitution), never read back from e-graph state; id-carrying state census (C13.T8)")
def h8(ctx):
    crate = ctx.lib()
    ps = crate.free_fn("pattern_subst")
    if len(ps) != 1:
        raise mir.AnchorMissing("pattern_subst")
    p = mir.inline_view(crate, ps[0], keep=("pattern_subst", "do_term_subst", "add_syn", "add"))
    n = 0
    for d in p.defs().get(0, []):
        n += 1
        r = p.role_of_rvalue(d["rv"]) if d["kind"] == "assign" else ("call", d["call"].callee.name if d["call"].callee else "?", "", [p.role_of_operand(a) for a in d["call"].args], d["bb"])
        srcs = set()
        bad = []

        def classify(x, top=True):
            x = strip_role(x)
            if not isinstance(x, tuple):
                return
            if x[0] == "phi":
                for y in x[1]:
                    classify(y)
            elif x[0] == "call" and x[1] in ("add_syn", "add", "subst", "pattern_subst"):
                srcs.add(x[1])
            elif x[0] == "call" and x[1] in ("unwrap_or_else", "unwrap", "expect", "get", "index") and x[3]:
                # lookup in the caller's substitution
                if role_mentions_param(x, "subst") and not role_mentions_param(x, "eg"):
                    srcs.add("subst[?v]")
                else:
                    bad.append(role_str(x)[:80])
            elif x[0] in ("variant", "field"):
                classify(x[1])
            else:
                bad.append(role_str(x)[:80])
        classify(r)
        ctx.check(not bad, "fresh-handles:%d" % d["bb"], "pattern_subst returns %s" % sorted(srcs),
                  "pattern_subst can return %s — a handle that was not produced by this call (e.g. read back from a memo in the e-graph). `b[x := t]` finds the occurrences of x by comparing handles with ==, and a handle stored before a later union names a deprecated class: the substitution silently does nothing and the rule unites b[x := t] with b" % bad,
                  where_of(p, d["bb"], d.get("line")))
    ctx.floor("return definitions of pattern_subst", n, 2)
    from . import c13
    c13.t8(ctx)


RULES.append(h8)


@rule("H9", doc="a shape is renamed with caller-chosen slot names only after its private (bound) slots were refreshed")
def h9(ctx):
    crate = ctx.lib()
    n = 0
    for b in crate.fns():
        # (a parameter destructured in the signature — `(sh, bij): (L, SlotMap)` — has no name: roles call it `_<index>`)
        tup = [b.var_names.get(l) or "_%d" % l for l in range(1, b.argc + 1) if b.local_ty(l).replace("&", "").strip() in ("(L, slotmap::SlotMap)",)]
        if not tup:
            continue
        for c in b.calls:
            if not (c.callee and c.callee.name == "apply_slotmap" and len(c.args) == 2) or b.blocks[c.bb]["cleanup"]:
                continue
            recv, m = b.role_of_operand(c.args[0]), strip_role(b.role_of_operand(c.args[1]))
            for p in tup:
                if m == ("field", ("param", p), "1") and role_mentions_param(recv, p):
                    n += 1
                    ok = role_mentions_call(recv, "refresh_private") or role_mentions_call(recv, "refresh_internals")
                    ctx.check(ok, "refresh-before-rename:" + C.fkey(b), "%s refreshes the shape's private slots before renaming it with the caller's map" % C.short(b.id),
                              "%s renames the shape %s.0 with the caller's map %s.1 without refreshing its private slots first: a binder of the shape is numbered $0, $1, .. and the caller's names may be exactly those — the bound slot captures a free one (`lam $1. app $1 $1` for a term that applies a free $1)" % (C.short(b.id), p, p),
                              where_of(b, c.bb))
    ctx.floor("shape renamings with a caller-provided map", n, 1)


RULES.append(h9)


def completion_inserts(crate):
    """SlotMap::insert(m, k, v) sites guarded by `!m.contains_key(k)` (or `m.get(k)` being None): a map is being
    completed for a slot it does not cover yet.  [(root, body, call, value role)]"""
    out = []
    for b in crate.bodies.values():
        if not (b.file or "").startswith("src/") or (b.file or "").endswith("tst.rs") or crate.root_of(b).auto_derived:
            continue
        for c in b.calls:
            if not (c.callee and c.callee.name == "insert" and "SlotMap" in (c.callee.impl_self or "") and len(c.args) == 3) or b.blocks[c.bb]["cleanup"]:
                continue
            m, k = strip_role(b.role_of_operand(c.args[0])), strip_role(b.role_of_operand(c.args[1]))
            for e, cond in C.conditions_at(b, c.bb):
                r = strip_role(cond[1]) if len(cond) > 1 else None
                if cond[0] == "false" and isinstance(r, tuple) and r[0] == "call" and r[1] == "contains_key" and len(r[3]) == 2:
                    if strip_role(r[3][0]) == m and strip_role(r[3][1]) == k:
                        out.append((crate.root_of(b), b, c, b.role_of_operand(c.args[2])))
                        break
    return out


@rule("H10", doc="completion of a slot map for slots it does not cover invents brand-new names: `if !m.contains_key(x) { m.insert(x, Slot::fresh()) }` everywhere")
def h10(ctx):
    crate = ctx.lib()
    sites = completion_inserts(crate)
    for root, b, c, v in sites:
        sv = strip_role(v)
        ok = isinstance(sv, tuple) and sv[0] == "call" and sv[1] == "fresh"
        # canonical renumbering of a map built from scratch (`theta.insert(x, Slot::numeric(theta.len()))`): a normal form, not a completion
        m0 = strip_role(b.role_of_operand(c.args[0]))
        # .. numbered by the size of the very map being filled (so the numbering is injective by construction), nothing else
        lens = [x for x in role_walk(sv) if isinstance(x, tuple) and x[0] == "call" and x[1] == "len"]
        own_len = bool(lens) and all(x[3] and strip_role(x[3][0]) == m0 for x in lens) and not any(isinstance(x, tuple) and x[0] in ("phi", "bin") for x in role_walk(sv))
        if not ok and isinstance(sv, tuple) and sv[0] == "call" and sv[1] == "numeric" and own_len and isinstance(m0, tuple) and m0[0] == "call" and m0[1] in ("new", "default"):
            ctx.ok("canonical-numbering:" + C.fkey(root), "%s numbers the slots of a map built from scratch (normal form of a registry key)" % C.short(root.id), where_of(b, c.bb))
            continue
        ctx.check(ok, "completion-is-fresh:" + C.fkey(root), "%s completes a slot map with Slot::fresh()" % C.short(root.id),
                  "%s completes a slot map for an uncovered slot with %s instead of Slot::fresh(): the invented name can coincide with a name that is already in use (a slot of the class, a slot the rule's right-hand side introduces, a user name) — capture / a spurious redundancy, and the result depends on how names are spelled" % (C.short(root.id), role_str(sv)[:60]),
                  where_of(b, c.bb))
        # .. and a NEW one for every slot completed: the fresh() call runs once per insert — inside the loop (or the per-element
        # closure) the insert is in.  One fresh slot drawn in front of the loop and shared makes two uncovered slots coincide: the
        # completed map is no longer injective (hoisted `let placeholder = Slot::fresh();`).
        if ok:
            shared = None
            cs_ = b.call_at.get(sv[4]) if len(sv) > 4 else None
            own = cs_ is not None and cs_.callee is not None and cs_.callee.name == "fresh"
            for l in C.iterator_loops(b):
                lb = C.loop_body(b, l)
                if c.bb in lb and own and sv[4] not in lb:
                    shared = "the Slot::fresh() call lies outside the loop the insert is in"
            if b.kind == "Closure" and not any(x.callee and x.callee.name == "fresh" for x in b.calls):
                shared = "the slot is drawn outside the per-element closure that inserts it"
            ctx.check(shared is None, "fresh-per-completed-slot:" + C.fkey(root), "%s draws a new Slot::fresh() for every slot it completes" % C.short(root.id),
                      "%s completes several uncovered slots with ONE fresh slot (%s): two different slots are sent to the same name, the completed map is not injective — an e-node whose two redundant slots were identified re-canonicalises to a different shape, an invocation with a repeated argument is not a bijection" % (C.short(root.id), shared),
                      where_of(b, c.bb))
    ctx.floor("slot-map completion sites", len(sites), 1)
    C.fresh_hoist_census(ctx, crate)


RULES.append(h10)


@rule("H11", doc="a new class's syntactic node refers to its children by their own canonical terms (synify) in every configuration: get_syn_expr, on which b[x := t] is built, depends on it")
def h11(ctx):
    crate = ctx.lib()
    allocs = {b.id for b in crate.fns() if any(s["k"] == "assign" and s["rv"]["k"] == "agg" and s["rv"].get("adt") == C.ECLASS for bi, si, s in b.statements())}
    C.need("class allocator (constructs an EClass)", sorted(allocs))
    singles = {b.id for b in crate.fns() if b.id not in allocs and any(c.body is b for c in C.calls_to(crate, b, allocs))}
    # an allocator front-end that synifies its argument itself (add_syn) puts no obligation on its callers
    singles = {f for f in singles if not any(c.callee and c.callee.name in ("synify_enode",) for c in crate.bodies[f].calls)}
    n = 0
    for b in crate.fns():
        if b.id in singles or b.id in allocs:
            continue
        for c in C.calls_to(crate, b, singles):
            if c.body is not b:
                continue
            for a in c.args[1:]:
                pl = mir.op_place(a)
                if pl is None or b.local_ty(pl["l"]).replace("&mut ", "").lstrip("&").strip() != "L":
                    continue
                n += 1
                r = b.role_of_operand(a)
                ok = role_mentions_call(r, "synify_enode") or role_mentions_call(r, "synify_app_id")
                ctx.check(ok, "new-class-node-synified:" + C.fkey(b), "%s hands the allocator a node whose child references were converted to their classes' own canonical terms (synify_enode)" % C.short(b.id),
                          "%s allocates a class for %s without synify_enode: the stored syntactic node refers to a child by its current (possibly shrunk) slot set instead of all slots of the child's canonical term. get_syn_expr — and with it the default substitution method for b[x := t] — then indexes a missing slot and panics after a child class lost a slot" % (C.short(b.id), role_str(r)[:80]),
                          where_of(b, c.bb))
    ctx.floor("allocations of a class for a semantic node", n, 1)


RULES.append(h11)


@rule("H12", doc="a multi-pattern searcher hands the applier only real instances: a repeated variable is accepted only behind EGraph::eq (C05.V4)")
def h12(ctx):
    from . import c05
    c05.v4(ctx)


RULES.append(h12)


@rule("MC", doc="must-call census: no function of this property's files has gained an early exit in front of work it always did (every crate-local call that lay on all paths to a normal return in the reviewed tree still does)")
def mc(ctx):
    C.must_call_census(ctx, ctx.lib(), ['src/rewrite/mod.rs', 'src/rewrite/pattern.rs', 'src/rewrite/ematch.rs', 'src/rewrite/subst_method.rs', 'src/egraph/add.rs', 'src/egraph/union.rs', 'src/lang.rs', 'src/egraph/mod.rs', 'src/egraph/find.rs'])


RULES.append(mc)


@rule("H13", doc="a class is never shrunk to a slot set computed in another class's names (C01.R8)")
def h13(ctx):
    from . import c01
    c01.r8(ctx)


RULES.append(h13)


@rule("H14", doc="the condition combinators of conditional rules mean what their names say: or(x, y) is true as soon as x is and otherwise y's answer; and(x, y) is false as soon as x is and otherwise y's answer; not(x) negates — a conditional rule fires exactly under the condition its author wrote")
def h14(ctx):
    crate = ctx.lib()
    n = 0
    for name, short_const in (("or", True), ("and", False)):
        fs = [b for b in crate.by_name.get(name, []) if b.kind == "Fn" and (b.file or "").endswith("rewrite/mod.rs")]
        if len(fs) != 1:
            continue
        f = fs[0]
        for cl in f.closures:
            calls = [c for c in cl.calls if c.callee and c.callee.name in ("call", "call_mut", "call_once") and not cl.blocks[c.bb]["cleanup"]]
            if len(calls) != 2:
                continue
            n += 1
            first = [c for c in calls if any(cl.dominated_by(o.bb, [c.bb]) for o in calls if o is not c)]
            ok = False
            why = "shape not recognised"
            if len(first) == 1:
                c1 = first[0]
                c2 = [c for c in calls if c is not c1][0]
                for sb in cl.switch_blocks():
                    t = cl.blocks[sb]["term"]
                    pl = mir.op_place(t["discr"])
                    if pl is None or pl["p"] or pl["l"] != c1.dest["l"]:
                        continue
                    true_e = [("e", sb, "otherwise")] if any(v == "0" for v, _ in t["cases"]) else [("e", sb, "1")]
                    false_e = [("e", sb, "0")]
                    short_e, long_e = (true_e, false_e) if short_const else (false_e, true_e)
                    consts = [d for d in cl.defs().get(0, []) if d["kind"] == "assign" and C.const_bool(d["rv"]) is not None]
                    okc = len(consts) == 1 and C.const_bool(consts[0]["rv"]) is short_const and cl.dominated_by(consts[0]["bb"], short_e)
                    oky = cl.dominated_by(c2.bb, long_e) and c2.dest["l"] == 0
                    ok = okc and oky
                    why = "constant answer %s on the %s edge of the first condition, second condition consulted: %s" % ([C.const_bool(d["rv"]) for d in consts], "right" if okc else "wrong", oky)
            ctx.check(ok, "combinator:" + name, "%s(x, y) short-circuits to %s when x is %s and otherwise answers y" % (name, str(short_const).lower(), str(short_const).lower()),
                      "rewrite::%s does not compute `x %s y` (%s): a rule guarded by it fires when its author's condition does not hold, or not when it does" % (name, "||" if short_const else "&&", why), where_of(cl))
    fs = [b for b in crate.by_name.get("not", []) if b.kind == "Fn" and (b.file or "").endswith("rewrite/mod.rs")]
    for f in fs:
        for cl in f.closures:
            r = strip_role(cl.role_of_local(0))
            n += 1
            ctx.check(isinstance(r, tuple) and r[0] == "un" and r[1] == "Not", "combinator:not", "not(x) negates x's answer", "rewrite::not returns %s" % role_str(r)[:60], where_of(cl))
    # (no floor: the combinators are a convenience of the public API and may be removed)
    if n == 0:
        ctx.ok("combinator:none", "the library defines no condition combinators")


RULES.append(h14)


@rule("H15", doc="an e-node is canonicalised child by child: find_enode's per-child step is find_applied_id of that child's own invocation on every path (C13.T17) — a memo keyed by class id hands one child the arguments of another, a parent class loses a slot its terms depend on (an unsound redundancy)")
def h15_t17(ctx):
    from . import c13
    c13.t17(ctx)


RULES.append(h15_t17)

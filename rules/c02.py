"""C02 — congruence closure is complete (structural necessary conditions)."""
from salib import mir
from salib.mir import role_str, role_walk, strip_role, role_mentions_field, role_mentions_call
from salib.runner import rule, where_of
from . import common as C

META = {
    "level": "other",
    "explanation": "Decides the work-list discipline behind completeness: no public &mut entry point can return with a non-empty "
                   "work-list (P1, inter-procedural summaries P/S by greatest fixpoint, all feature configurations); the drain loop "
                   "exits only on 'empty' (P3); every class-level change is followed by re-queuing the class's usages with Full (P2); "
                   "PendingType::merge is the join with Full on top (P4, exhaustive 2x2 evaluation of the MIR); remove/re-insert pairing "
                   "in the work-list handler (P5) and self-symmetry derivation after re-insert (P6); the slot set written on a shrink "
                   "depends on the orbit closure (P7).",
    "not_decided": "that the fixpoint reached equals the congruence closure",
    "assumptions": ["user Analysis::modify hooks reach the e-graph only through the public API",
                    "a closure containing a dirtying call is charged to the block creating it"],
}


def public_egraph_mutators(crate):
    out = []
    for b in crate.fns():
        if b.vis != "pub" or not b.reachable:
            continue
        if any("&mut egraph::EGraph<" in b.local_ty(i) for i in range(1, b.argc + 1)):
            out.append(b)
    return out


@rule("P1", doc="rebuild-before-return: every public &mut EGraph entry point preserves 'work-lists empty'")
def p1(ctx):
    crate = ctx.lib()
    wl = C.Worklist(crate)
    C.need("drain", sorted(wl.drains), 1)
    ctx.roleset("drain", sorted(wl.drains))
    ctx.roleset("always-rebuilds(S)", sorted(C.short(x) for x in wl.S))
    ctx.roleset("may-leave-dirty(not P)", sorted(C.short(x) for x in set(wl.fns) - wl.P))
    pubs = public_egraph_mutators(crate)
    pub_ids = {b.id for b in pubs}
    ctx.floor("public &mut EGraph entry points", len(pubs), 12)

    def leads_to_direct(site, seen):
        kind, bb, c = site
        if kind in ("op", "closure-op"):
            return True
        t = c.callee.target
        if t in pub_ids:
            return False
        if t in seen:
            return False
        seen = seen | {t}
        return any(leads_to_direct(s, seen) for s in wl.why.get(t, []))

    for b in pubs:
        if b.id in wl.P:
            ctx.ok("entry:" + C.fkey(b), "%s preserves empty work-lists (%s)" % (C.short(b.id), "always rebuilds" if b.id in wl.S else "every dirtying call is followed by a rebuild on all paths"), where_of(b))
            continue
        roots = [s for s in wl.why[b.id] if leads_to_direct(s, frozenset([b.id]))]
        if not roots:
            ctx.info("%s is not P only because it calls public entry points that are reported themselves" % C.short(b.id))
            ctx.ok("entry-cascade:" + C.fkey(b), "%s fails only through other reported public entry points" % C.short(b.id), where_of(b))
            continue
        for kind, bb, c in roots:
            ctx.bad("entry:%s:after:%s" % (C.fkey(b), c.callee.name),
                    "public %s can return with a non-empty work-list: after the call to %s at line %s there is a path to return that does not rebuild — "
                    "implied equalities are not reported 'as soon as the call returns'" % (C.short(b.id), C.short(c.callee.target), c.line),
                    where_of(c.body, c.bb))


@rule("P2", doc="touch-after-change: group growth, slot shrink and a new union-find edge are followed by re-queuing usages with Full")
def p2(ctx):
    crate = ctx.lib()
    req = set(C.need("requeue", C.requeue_functions(crate)))
    ufs = set(C.uf_setters(crate))
    ctx.roleset("requeue", sorted(req))
    nsites = 0

    def requeue_blocks(b, idrole):
        """blocks in b calling the requeue function with Full and (if idrole given) the same id"""
        out = set()
        for c in b.calls:
            if c.callee and c.callee.target in req and not b.blocks[c.bb]["cleanup"]:
                full = any(isinstance(x, tuple) and x[0] == "agg" and str(x[1]).endswith("PendingType::Full") for a in c.args for x in role_walk(b.role_of_operand(a)))
                if not full:
                    continue
                if idrole is not None:
                    ids = [strip_role(b.role_of_operand(a)) for a in c.args]
                    if idrole not in ids:
                        continue
                out.add(c.bb)
        return out

    def class_id_of_group_place(b, recv):
        """X in  (get_mut|index|get)(self.classes, X) ... .group"""
        for x in role_walk(recv):
            if isinstance(x, tuple) and x[0] == "call" and x[1] in ("get_mut", "index", "index_mut", "get") and x[3] and role_mentions_field(x[3][0], "classes") and len(x[3]) > 1:
                return strip_role(x[3][1])
        return None

    sw_ids = set(C.slot_writers(crate))
    for b in crate.fns():
        # the slot-set writer is looked at with its single-use helpers spliced in (a struct / helper that carries the id
        # of the class being shrunk must not hide that the re-queue is for the same class)
        for sub in [mir.inline_view(crate, b, keep=("touched_class", "record_redundancy_witness", "union_internal")) if b.id in sw_ids else b]:
            # (a) Group::add / add_set on a class group
            for c in sub.calls:
                if sub.blocks[c.bb]["cleanup"] or not c.callee:
                    continue
                if c.callee.name in ("add", "add_set") and c.callee.is_(c.callee.name, "group::Group") and c.args:
                    recv = sub.role_of_operand(c.args[0])
                    if not role_mentions_field(recv, "group") or not role_mentions_field(recv, "classes"):
                        continue
                    nsites += 1
                    idr = class_id_of_group_place(sub, recv)
                    # start: the true edge if the result is branched on, else right after the call
                    starts = sub.after(c.bb)
                    dest = c.dest["l"]
                    for sb in sub.switch_blocks():
                        t = sub.blocks[sb]["term"]
                        r = sub.role_of_operand(t["discr"])
                        if r[0] == "call" and r[4] == c.bb and r[1] == c.callee.name:
                            starts = [("e", sb, "otherwise")] if any(v == "0" for v, _ in t["cases"]) else [("e", sb, "1")]
                    rq = requeue_blocks(sub, idr)
                    ordn = sum(1 for cc in sub.calls if cc.callee and cc.callee.name == c.callee.name and cc.bb < c.bb and cc.callee.is_(cc.callee.name, "group::Group"))
                    ok = sub.must_pass(starts, sub.return_blocks(), rq)
                    ctx.check(ok, "group-growth:%s:%s:%d" % (C.fkey(sub), c.callee.name, ordn),
                              "growth of classes[%s].group via %s is followed by requeue(%s, Full) on every path" % (role_str(idr), c.callee.name, role_str(idr)),
                              "after Group::%s on classes[%s].group reports growth there is a path to return that does not re-queue the usages of %s with PendingType::Full — parents whose shape depends on the new symmetry are never re-canonicalised" % (c.callee.name, role_str(idr), role_str(idr)),
                              where_of(sub, c.bb))
            # (b) stores to EClass.slots
            for bi, si, s in sub.statements():
                if s["k"] == "assign" and mir.place_has_field(s["lhs"], C.ECLASS, "slots"):
                    nsites += 1
                    base = strip_role(sub.role_of_place({"l": s["lhs"]["l"], "p": []}))
                    idr = class_id_of_group_place(sub, ("field", base, "x"))
                    rq = requeue_blocks(sub, None)
                    rq_same = requeue_blocks(sub, idr) if idr is not None else rq
                    ok = sub.must_pass(sub.after(bi) if False else [bi], sub.return_blocks(), rq_same) if False else sub.must_pass(list(sub.xgraph().get(bi, [])) or [bi], sub.return_blocks(), rq_same)
                    ctx.check(ok, "slot-shrink:%s" % C.fkey(sub),
                              "store to classes[%s].slots is followed by requeue(%s, Full) on every path" % (role_str(idr), role_str(idr)),
                              "after the class slot set is overwritten there is a path to return that does not re-queue the class's usages with Full (same id %s)" % role_str(idr),
                              where_of(sub, bi, s.get("line")))
            # (c) union-find edge to a different id (merge / redundancy witness, not allocation)
            for c in C.calls_to(crate, sub, ufs):
                if c.body is not sub:
                    continue
                idr = strip_role(sub.role_of_operand(c.args[1]))
                val = sub.role_of_operand(c.args[2])
                # allocation writes the identity edge uf[new] = new: the key is a fresh length, not a class id
                if role_mentions_call(idr, "unionfind_len") or role_mentions_call(idr, "len"):
                    continue
                # the requeue may be done by the direct caller (record-and-return helpers): look in this body first
                nsites += 1
                rq = requeue_blocks(sub, idr)
                ok = sub.must_pass(sub.after(c.bb), sub.return_blocks(), rq)
                if not ok:
                    # accept: every caller of this helper requeues the same id after the call
                    callers = [x for x in crate.fns() if C.calls_to(crate, x, {sub.id})]
                    ok2 = bool(callers)
                    for cal in callers:
                        for cc in C.calls_to(crate, cal, {sub.id}):
                            if cc.body is not cal:
                                ok2 = False
                                continue
                            # id argument at the caller
                            pidx = None
                            if idr[0] == "param":
                                pidx = sub.param_index(idr[1])
                            cid = strip_role(cal.role_of_operand(cc.args[pidx - 1])) if pidx else None
                            rq2 = requeue_blocks(cal, cid)
                            if not cal.must_pass(cal.after(cc.bb), cal.return_blocks(), rq2):
                                ok2 = False
                    ok = ok2
                ctx.check(ok, "uf-edge:%s" % C.fkey(sub),
                          "new union-find entry for %s is followed by requeue(%s, Full) (here or in every caller)" % (role_str(idr), role_str(idr)),
                          "after the union-find entry of %s is rewritten, a path to return does not re-queue the usages of that class with Full — e-nodes keep pointing to a dead / wider class" % role_str(idr),
                          where_of(sub, c.bb))
    ctx.floor("class-level change sites", nsites, 4)


@rule("P3", doc="drain to fixpoint: the rebuild loops have no exit but 'empty' and nothing dirties after")
def p3(ctx):
    crate = ctx.lib()
    wl = C.Worklist(crate)

    def witnesses(b, field):
        """edges "X is None" for X = next()/pop() on something derived from the field, or is_empty()==true"""
        out = []
        for sb in b.switch_blocks():
            t = b.blocks[sb]["term"]
            r = b.role_of_operand(t["discr"])
            if r[0] == "discr":
                inner = strip_role(r[1])
                if isinstance(inner, tuple) and inner[0] == "call" and inner[1] in ("next", "pop", "pop_front", "first", "last") and role_mentions_field(inner, field):
                    out.extend(C.variant_edges(b, sb, 0))
                # `next()?`: the Break arm of Try::branch is the None of the Option
                if isinstance(inner, tuple) and inner[0] == "call" and inner[1] == "branch" and inner[3]:
                    i2 = strip_role(inner[3][0])
                    if isinstance(i2, tuple) and i2[0] == "call" and i2[1] in ("next", "pop", "pop_front", "first", "last") and role_mentions_field(i2, field):
                        out.extend(C.variant_edges(b, sb, 1))
            elif r[0] == "call" and r[1] == "is_empty" and role_mentions_field(r, field):
                out.append(("e", sb, "otherwise"))
        return out

    C.need("pending drain", sorted(wl.pend_drains), 1)
    C.need("modify drain", sorted(wl.mod_drains), 1)
    for did in C.need("rebuild root", sorted(wl.drains), 1):
        b = crate.bodies[did]
        rets = b.return_blocks()
        # the loop may live in the root itself or in a split-off drain function called from it
        wp = witnesses(b, "pending") + [c.bb for c in C.calls_to(crate, b, wl.pend_drains - {did}) if c.body is b]
        wm = witnesses(b, "modify_queue") + [c.bb for c in C.calls_to(crate, b, wl.mod_drains - {did}) if c.body is b]
        ctx.check(bool(wp) and b.must_pass([0], rets, wp), "pending-exit:" + C.fkey(b),
                  "every path to return of %s passes the 'pending has no key left' edge" % C.short(did),
                  "%s can return while EGraph.pending is non-empty: a path to return avoids the None edge of next() on pending's keys" % C.short(did), where_of(b))
        ctx.check(bool(wm) and b.must_pass([0], rets, wm), "modify-exit:" + C.fkey(b),
                  "every path to return of %s passes the 'modify_queue.pop() is None' edge" % C.short(did),
                  "%s can return while EGraph.modify_queue is non-empty" % C.short(did), where_of(b))
        # nothing dirties after the pending witness except assumed-P external calls
        after = b.reach(wp) if wp else set()
        dirty_after = [(k, bb, c) for (k, bb, c) in wl.dirty_sites(b) if bb in after and bb not in wp]
        # dirty sites inside the pending loop are also reachable from wp only through a back edge: there is none
        ctx.check(not dirty_after, "no-dirty-after-drain:" + C.fkey(b),
                  "no dirtying call is reachable after the pending loop has been left",
                  "after the pending loop is left %s still calls %s which can re-fill the work-list" % (C.short(did), [C.short(c.callee.target) for _, _, c in dirty_after]), where_of(b))
    # split-off drain functions: the same exit discipline inside them
    for field, ds, key in (("pending", wl.pend_drains, "pending-exit"), ("modify_queue", wl.mod_drains, "modify-exit")):
        for did in sorted(ds - wl.drains):
            b = crate.bodies[did]
            w = witnesses(b, field)
            ctx.check(bool(w) and b.must_pass([0], b.return_blocks(), w), key + ":" + C.fkey(b),
                      "every path to return of %s passes the '%s is empty' edge" % (C.short(did), field),
                      "%s can return while EGraph.%s is non-empty" % (C.short(did), field), where_of(b))
            if field == "pending":
                after = b.reach(w) if w else set()
                dirty_after = [(k, bb, c) for (k, bb, c) in wl.dirty_sites(b) if bb in after]
                ctx.check(not dirty_after, "no-dirty-after-drain:" + C.fkey(b), "no dirtying call is reachable after the pending loop has been left",
                          "after the pending loop is left %s still dirties the work-list" % C.short(did), where_of(b))
    for did in sorted(wl.pend_drains):
        b = crate.bodies[did]
        # the loop body removes the chosen key and hands it to a handler
        rem = [c for c in b.calls if c.callee and c.callee.name in ("remove", "remove_entry", "pop_first", "take") and c.args and role_mentions_field(b.role_of_operand(c.args[0]), "pending")]
        handlers = [c for c in b.calls if c.callee and c.callee.target in crate.bodies and c.callee.target not in wl.P]
        ok = False
        for r in rem:
            for h in handlers:
                if h.bb in b.reach(b.after(r.bb)):
                    ok = True
        ctx.check(ok, "remove-then-handle:" + C.fkey(b), "the key removed from pending is handed to a handler",
                  "the pending loop removes a key without processing it", where_of(b))
        # ... every one of them: no request taken off the work-list is dropped
        hb = {h.bb for h in handlers}
        for r in rem:
            heads = {lp[0] for lp in C.iterator_loops(b) if r.bb in b.reach(lp[3], avoid=lp[2])}
            okh = bool(hb) and b.must_pass(b.after(r.bb), heads | set(b.return_blocks()), hb)
            ctx.check(okh, "every-request-handled:" + C.fkey(b), "every request taken off the work-list reaches the handler before the next one is taken",
                      "%s can take a request off EGraph.pending and go on to the next one (or return) without handing it to the handler: the re-canonicalisation / analysis refresh that was requested never happens" % C.short(did), where_of(b, r.bb))
        ctx.roleset("handler", sorted({h.callee.target for h in handlers}))


@rule("P4", doc="PendingType::merge is the join with Full on top", once=True)
def p4(ctx):
    crate = ctx.lib("default")
    adt = crate.adt_named("egraph::PendingType")
    if adt is None:
        raise mir.AnchorMissing("egraph::PendingType")
    names = [v["name"] for v in adt["variants"]]
    if "Full" not in names or len(names) != 2:
        raise mir.AnchorMissing("PendingType::{Full,OnlyAnalysis}", "variants are %s" % names)
    full = names.index("Full")
    ms = crate.method("PendingType", "merge")
    if len(ms) != 1:
        raise mir.AnchorMissing("PendingType::merge")
    m = ms[0]
    for a in range(2):
        for b in range(2):
            want = full if (a == full or b == full) else 1 - full
            try:
                got = mir.enum_eval(m, [a, b])
            except mir.EvalStuck as e:
                ctx.bad("merge-table:%s,%s" % (names[a], names[b]), "cannot evaluate PendingType::merge statically (%s) — its shape changed" % e, where_of(m))
                continue
            ctx.check(got == want, "merge-table:%s,%s" % (names[a], names[b]),
                      "merge(%s, %s) = %s" % (names[a], names[b], names[want]),
                      "PendingType::merge(%s, %s) = %s, but the join needs %s: a node queued for full re-processing can be downgraded to analysis-only and is then never re-canonicalised" % (names[a], names[b], names[got] if isinstance(got, int) and got < 2 else got, names[want]),
                      where_of(m))
    # the requeue function must combine with the stored type through merge
    for rid in C.requeue_functions(crate):
        rb = crate.bodies[rid]
        uses_merge = any(c.callee and c.callee.target == m.id for c in rb.all_calls()) or m.id in set(crate.reachable_from([rid], resolve_traits=False))
        ctx.check(uses_merge, "requeue-uses-merge:" + C.fkey(rb), "the requeue function combines the stored and the new pending type with merge",
                  "the requeue function overwrites / ignores the stored pending type instead of joining with PendingType::merge", where_of(rb))


def _handlers(crate, wl):
    out = set()
    for did in wl.pend_drains:
        b = crate.bodies[did]
        for c in b.calls:
            if c.callee and c.callee.target in crate.bodies and c.callee.target not in wl.P and c.callee.target not in wl.pend_drains | wl.mod_drains:
                out.add(c.callee.target)
    return sorted(out)


def _hc_split(crate):
    """split the hashcons writers into inserters (raw_add) and removers (raw_remove)"""
    ins, rem = [], []
    for wid in C.hashcons_writers(crate):
        b = crate.bodies[wid]
        names = {c.callee.name for c in b.calls if c.callee and c.args and role_mentions_field(b.role_of_operand(c.args[0]), "hashcons")}
        if "insert" in names:
            ins.append(wid)
        if "remove" in names:
            rem.append(wid)
    return ins, rem


@rule("P5", doc="remove/insert pairing in the work-list handler")
def p5(ctx):
    crate = ctx.lib()
    wl = C.Worklist(crate)
    ins, rem = _hc_split(crate)
    C.need("raw_add role", ins)
    C.need("raw_remove role", rem)
    leaders = set(C.leader_union_functions(crate))
    reach_leader = {b.id for b in crate.fns() if leaders & crate.reachable_from([b.id])}
    n = 0
    for hid in C.need("handler", _handlers(crate, wl)):
        h = crate.bodies[hid]
        for c in C.calls_to(crate, h, set(rem)):
            if c.body is not h:
                continue
            n += 1
            through = {x.bb for x in h.calls if x.callee and (x.callee.target in ins or x.callee.target in reach_leader) and not h.blocks[x.bb]["cleanup"]}
            ok = h.must_pass(h.after(c.bb), h.return_blocks(), through)
            ctx.check(ok, "pairing:" + C.fkey(h), "after raw_remove every path re-inserts the node or hands it to the congruence handler",
                      "in %s a path from the removal of the e-node (line %s) to return neither re-inserts it nor unions its class with the class that already holds the shape — the node silently disappears" % (C.short(hid), c.line),
                      where_of(h, c.bb))
    ctx.floor("raw_remove sites in handlers", n, 1)


@rule("P6", doc="re-insert is followed by the self-symmetry derivation")
def p6(ctx):
    crate = ctx.lib()
    wl = C.Worklist(crate)
    ins, rem = _hc_split(crate)
    sw = set(C.slot_writers(crate))
    # self-symmetry deriver: adds to a class group, is not the leader union, does not shrink slots
    leaders = set(C.leader_union_functions(crate)) | set(C.leader_helpers(crate))
    der = sorted({b.id for b, c in C.self_symmetry_sites(crate)})
    C.need("self-symmetry deriver", der)
    ctx.roleset("self-symmetry deriver", der)
    n = 0
    for hid in _handlers(crate, wl):
        h = crate.bodies[hid]
        for c in C.calls_to(crate, h, set(ins)):
            if c.body is not h:
                continue
            n += 1
            through = {x.bb for x in h.calls if x.callee and x.callee.target in der}
            ok = h.must_pass(h.after(c.bb), h.return_blocks(), through)
            ctx.check(ok, "symmetries-after-reinsert:" + C.fkey(h), "re-insert is followed by the self-symmetry derivation on every path",
                      "in %s the re-inserted node is not examined for self-symmetries on some path to return — symmetries that stem from symmetric children are never derived" % C.short(hid),
                      where_of(h, c.bb))
            # ... of the node that was just re-inserted: the deriver is told the same e-node identity (the node's source id) that
            # the re-insert registered — not the id of the class the node lives in, which names the class's NATIVE node (a node
            # that arrived through a union keeps its own source id; its symmetries would never be derived)
            if len(c.args) >= 2:
                ins_ids = [strip_role(h.role_of_operand(a)) for a in c.args[1:] if mir.op_place(a) is not None and h.local_ty(mir.op_place(a)["l"]) == "types::Id"]
                src = ins_ids[-1] if ins_ids else None
                for x in h.calls:
                    if x.callee and x.callee.target in der and x.bb in h.reach(h.after(c.bb)) and not h.blocks[x.bb]["cleanup"]:
                        got = [strip_role(h.role_of_operand(a)) for a in x.args[1:] if mir.op_place(a) is not None and h.local_ty(mir.op_place(a)["l"]) == "types::Id"]
                        if src is not None and got:
                            ctx.check(got[0] == src, "deriver-for-reinserted-node:" + C.fkey(h), "the self-symmetry derivation is run for the source id the re-insert registered",
                                      "in %s the node is re-inserted with source id %s but the self-symmetry derivation is run for %s: for an e-node that came into its class through a union these differ, and the symmetries that node gains when a child becomes symmetric are never derived (what is known then depends on which class a union happened to keep)" % (C.short(hid), role_str(src)[:50], role_str(got[0])[:50]),
                                      where_of(h, x.bb))
    ctx.floor("re-insert sites in handlers", n, 1)
    # the deriver compares name-free shapes and enumerates the group-compatible variants
    for did in der:
        d = crate.bodies[did]
        ws = [c for c in d.all_calls() if c.callee and c.callee.name == "weak_shape"]
        var = [c for c in d.all_calls() if c.callee and "variants" in (c.callee.name or "")]
        ctx.check(len(ws) >= 2 and len(var) >= 1, "deriver-shape:" + C.fkey(d), "deriver enumerates group-compatible variants and compares weak shapes",
                  "the self-symmetry deriver no longer enumerates the group-compatible variants / compares weak shapes", where_of(d))
        # no shortcut in front of the enumeration: the deriver has a second job besides growing the group (a variant that moves a
        # class slot onto a redundant slot of the node proves that slot redundant), so "the class cannot have a symmetry" is no excuse
        dv = mir.inline_view(crate, d, keep=tuple({c.callee.name for c in var}))
        vbb = {c.bb for c in dv.calls if c.callee and "variants" in (c.callee.name or "") and not dv.blocks[c.bb]["cleanup"]}
        ok = bool(vbb) and dv.must_pass([0], dv.return_blocks(), vbb)
        # ... and every variant whose name-free shape equals the node's is examined — the node itself included: the identity
        # variant is the one that notices "the class has a slot this node lacks" (its a.slots() != b.slots() test shrinks the class)
        for c_ in dv.calls:
            if c_.callee and c_.callee.name == "pc_congruence" and not dv.blocks[c_.bb]["cleanup"] and c_.bb not in dv.ghost_blocks()[0]:
                C.check_only_allowed_skips(ctx, dv, c_.bb, [
                    ("eq", lambda t, cond: t.count("weak_shape(") >= 2),
                    ("true", lambda t, cond: t.count("weak_shape(") >= 2),
                    ("false", lambda t, cond: t.count("weak_shape(") >= 2 and t.startswith("ne(")),
                ], "deriver-variants:" + C.fkey(d), "examining a group-compatible variant of the node")
        ctx.check(ok, "deriver-unconditional:" + C.fkey(d), "every path through the deriver enumerates the group-compatible variants of the node",
                  "the self-symmetry deriver can return before enumerating the node's group-compatible variants: the deduction 'this variant moves a class slot onto a redundant slot of the node, so the slot is redundant in the class' is skipped on that path, and whether the class shrinks then depends on the order in which the equations were asserted", where_of(d))


@rule("P7", doc="orbit closure: redundancy of a slot reaches its whole orbit (stored set depends on Group::orbit, or non-restrictable generators are re-asserted)")
def p7(ctx):
    crate = ctx.lib()
    leaders = set(C.leader_union_functions(crate))
    reach_leader = {b.id for b in crate.fns() if leaders & crate.reachable_from([b.id], resolve_traits=False)}
    n = 0
    for wid in C.need("W_slots", C.slot_writers(crate)):
        # single-use helpers of the slot-set writer (e.g. the re-assertion loop extracted into a method) are looked through
        b = mir.inline_view(crate, crate.bodies[wid], keep=("touched_class", "record_redundancy_witness", "union_internal", "union_leaders"))
        d = mir.Deps(crate, b) if b is not crate.bodies[wid] else crate.deps(b)
        for bi, si, s in b.statements():
            if s["k"] == "assign" and mir.place_has_field(s["lhs"], C.ECLASS, "slots"):
                n += 1
                rv = s["rv"]
                at = d.atoms_of_operand(b, rv["op"]) if rv["k"] == "use" else d.atoms_of_local(b, s["lhs"]["l"])
                via_orbit = bool(mir.atoms_calls(at, "orbit"))
                # alternative: generators that do not map the new slot set onto itself are split off and
                # re-asserted as equations (a call reaching the leader union) for every one of them
                via_reassert = False
                why = ""
                # (1) the split predicate: membership of source and image in the new slot set compared by ==/!=
                pred = None
                pred_op = None
                for sub in b.all_bodies():
                    cands = []
                    for x in sub.calls:
                        if x.callee and x.callee.name in ("eq", "ne") and len(x.args) == 2 and not sub.blocks[x.bb]["cleanup"]:
                            cands.append((sub.role_of_operand(x.args[0]), sub.role_of_operand(x.args[1]), x.callee.name))
                    for y in role_walk(sub.role_of_local(0)):
                        if isinstance(y, tuple) and y[0] == "bin" and y[1] in ("Eq", "Ne"):
                            cands.append((y[2], y[3], y[1].lower()))
                    for e_, cond in C.all_cond_edges(sub):
                        if cond[0] in ("eq", "ne") and len(cond) == 3:
                            cands.append((cond[1], cond[2], None))
                    for r0, r1, op_ in cands:
                        r0, r1 = strip_role(r0), strip_role(r1)
                        if all(isinstance(r, tuple) and r[0] == "call" and r[1] == "contains" and r[3] for r in (r0, r1)) and strip_role(r0[3][0]) == strip_role(r1[3][0]) and r0[3][1:] != r1[3][1:]:
                            pred = sub
                            pred_op = op_
                # (1a) the set the test is made against is the very set the class is given (in the class's own slot names): the
                #      caller's spelling of the kept slots, taken before the translation through from.m^-1, contains none of the
                #      generators' slots — every symmetry then looks restrictable and nothing is re-asserted
                if pred is not None:
                    def norm_set(r_):
                        r_ = strip_role(r_)
                        while isinstance(r_, tuple) and r_[0] == "upvar":
                            r_ = strip_role(r_[2])
                        return role_str(r_, 14)
                    stored_roles = {norm_set(b.role_of_rvalue(rv))}
                    tested = set()
                    for sub in b.all_bodies():
                        if sub is not pred:
                            continue
                        for x in sub.calls:
                            if x.callee and x.callee.name == "contains" and x.args and not sub.blocks[x.bb]["cleanup"]:
                                tested.add(norm_set(sub.role_of_operand(x.args[0])))
                    if tested:
                        # (compared loosely: what must not happen is that the test uses a bare parameter — the caller's set —
                        #  while the class is given a set derived from it)
                        params_ = {b.var_names.get(l) for l in range(1, b.argc + 1)}
                        bare = {t_ for t_ in tested if t_ in params_}
                        ctx.check(not (bare - stored_roles), "restrictable-tested-against-stored-set:" + C.fkey(b), "the generators are split by membership in the slot set that is stored in the class",
                                  "%s splits the generators by membership in %s, but stores %s as the class's slot set: a generator permutes the class's OWN slots, so the test must use the kept set in the class's names (the caller's spelling of it contains none of them — every symmetry passes as restrictable, is cut down to a partial map, and the rest of the orbit is never made redundant)" % (C.short(wid), sorted(tested)[0][:70], sorted(stored_roles)[0][:70]),
                                  where_of(b, bi, s.get("line")))
                # (1b) a generator can be restricted only if EVERY entry keeps its side of the new slot set: when the test is a
                #      closure handed to an iterator quantifier, that quantifier is `all` (or `any` over the negated test)
                if pred is not None and pred.kind == "Closure" and pred_op in ("eq", "ne"):
                    for sub in b.all_bodies():
                        for x in sub.calls:
                            if not x.callee or sub.blocks[x.bb]["cleanup"] or x.callee.name not in ("all", "any"):
                                continue
                            if any(isinstance(strip_role(sub.role_of_operand(a_)), tuple) and strip_role(sub.role_of_operand(a_))[0] == "agg" and strip_role(sub.role_of_operand(a_))[1] == pred.id for a_ in x.args):
                                okq = (x.callee.name, pred_op) in (("all", "eq"), ("any", "ne"))
                                ctx.check(okq, "restrictable-is-forall:" + C.fkey(b), "a generator is restricted to the new slot set only if all its entries stay on their side of it",
                                          "%s calls a generator restrictable when SOME entry keeps its side of the new slot set (`%s` over `contains(x) %s contains(y)`): a symmetry that maps a kept slot to a dropped one is then cut down to a partial map instead of being re-asserted — the group gets a non-permutation and the rest of the orbit is never made redundant" % (C.short(wid), x.callee.name, "==" if pred_op == "eq" else "!="),
                                          where_of(sub, x.bb))
                # (2) a loop over (something derived from) the old generators, after the slot store, running to
                #     exhaustion, that re-asserts each element through the leader union
                if pred is not None:
                    for lp in C.iterator_loops(b):
                        sb, it, none_e, some_e, cs = lp
                        atoms = set()
                        for x in role_walk(it):
                            if isinstance(x, tuple) and x[0] == "call" and x[4] in b.call_at:
                                for a_ in b.call_at[x[4]].args:
                                    atoms |= set(d.atoms_of_operand(b, a_))
                        if not mir.atoms_calls(atoms, "generators"):
                            continue
                        body = b.reach(some_e, avoid=none_e)
                        un = [x for x in b.calls if x.bb in body and x.callee and x.callee.target in reach_leader and x.callee.target != wid]
                        if un and C.loop_exhaustive(b, lp) and b.dominated_by(sb, [bi]):
                            via_reassert = True
                            why = "generators are split by `contains(x) == contains(y)` on the new slot set and the rest is re-asserted, each one, through %s" % C.short(un[0].callee.target)
                ctx.check(via_orbit or via_reassert, "orbit-feeds-slots:" + C.fkey(b),
                          "redundancy reaches the whole orbit: %s" % ("the stored slot set depends on Group::orbit" if via_orbit else why),
                          "the slot set stored in %s does not depend on the orbit of the newly redundant slots (it depends on calls %s) and the generators that map a kept slot to a dropped one are not re-asserted either: if d is redundant and a symmetry maps d to x then x is redundant too; dropping only d leaves generators that are not permutations of the slot set" % (
                              C.short(wid), sorted({a[3] for a in mir.atoms_calls(at)})),
                          where_of(b, bi, s.get("line")))
    ctx.floor("slot stores", n, 1)


RULES = [p1, p2, p3, p4, p5, p6, p7]


@rule("LC", doc="loop-exit census: every iterator-driven loop of the library runs to exhaustion, except a frozen per-file reviewed set of search / error-propagation loops")
def lc(ctx):
    C.loop_census(ctx, ctx.lib())


RULES.append(lc)


@rule("P8", doc="a Full work-list request always recomputes the strong shape (shared with C12.O4)")
def p8(ctx):
    from . import c12
    c12.o4(ctx)


RULES.append(p8)


@rule("P9", doc="a class merge moves every e-node of the absorbed class and queues each for full re-processing (C12.O1)")
def p9(ctx):
    from . import c12
    c12.o1(ctx)


RULES.append(p9)


@rule("P10", doc="the canonical group variant of a node is well defined: minimisation key is name-free and separates distinct variants (C11.N1)")
def p10(ctx):
    from . import c11
    c11.n1(ctx)


RULES.append(p10)


@rule("MC", doc="must-call census: no function of this property's files has gained an early exit in front of work it always did (every crate-local call that lay on all paths to a normal return in the reviewed tree still does)")
def mc(ctx):
    C.must_call_census(ctx, ctx.lib(), ['src/egraph/rebuild.rs', 'src/egraph/union.rs', 'src/egraph/add.rs', 'src/egraph/mod.rs', 'src/group/mod.rs', 'src/egraph/find.rs'])


RULES.append(mc)


@rule("P11", doc="the variant enumeration behind the strong shape is the full product of the children's groups; its only shortcut is 'every child's group is trivial' (C04.M3b/M3c)")
def p11(ctx):
    from . import c04
    c04.m3b(ctx)
    c04.m3c(ctx)


RULES.append(p11)


@rule("P12", doc="the usages index, which the re-queue after a class change walks, lists an e-node under EVERY class it refers to — its own class included (C08.W1)")
def p12(ctx):
    from . import c08
    c08.w1(ctx)


RULES.append(p12)


@rule("P13", doc="the strong shape under which a re-canonicalised e-node is looked up and re-inserted is computed AFTER the last shrink of the work-list handler: a class shrink can change the node itself (a node that refers to its own class loses the slot too), so a shape taken before the shrink loop is a stale key — the node sits in the hashcons under a shape that mentions a dropped slot and is never found again")
def p13(ctx):
    crate = ctx.lib()
    sw = set(C.slot_writers(crate))
    reach_sw = {b.id for b in crate.fns() if sw & set(crate.reachable_from([b.id], resolve_traits=False))} | sw
    n = 0
    for hid in C.need("re-insert function (handle_pending)", C.reinsert_functions(crate)):
        h = mir.inline_view(crate, crate.bodies[hid], keep=tuple(C.short(x).split("::")[-1] for x in reach_sw) + ("shape", "lookup_internal"))
        shapes = [c for c in h.calls if c.callee and c.callee.name == "shape" and not h.blocks[c.bb]["cleanup"] and h.blocks[c.bb] is not None and c.bb not in h.ghost_blocks()[0]]
        shrinks = [c for c in h.calls if c.callee and c.callee.target in reach_sw and c.callee.target != hid and not h.blocks[c.bb]["cleanup"]]
        if not shapes or not shrinks:
            continue
        for s in shapes:
            # only a shape that feeds the lookup / the re-insert matters
            uses = [c for c in h.calls if c.callee and c.callee.name in ("lookup_internal", "raw_add_to_class", "insert") and not h.blocks[c.bb]["cleanup"]
                    and any(role_mentions_call(h.role_of_operand(a), "shape") for a in c.args)]
            if not uses:
                continue
            n += 1
            later = [c for c in shrinks if c.bb in h.reach(h.after(s.bb)) and any(u.bb in h.reach(h.after(c.bb)) for u in uses)]
            ctx.check(not later, "shape-after-shrink:" + C.fkey(crate.bodies[hid]), "no class shrink can run between computing the strong shape and using it",
                      "%s computes the strong shape of the e-node and can then still call %s, which shrinks a class: when the e-node refers to the class that shrinks (an equation whose right side mentions its own left side) the node changes with it, and the shape computed earlier is a stale hashcons key" % (C.short(hid), sorted({c.callee.name for c in later})),
                      where_of(h, s.bb))
    ctx.floor("strong shapes computed in the work-list handler", n, 1)


RULES.append(p13)


@rule("P14", doc="an e-node's source id is not its class id: what is passed where a callee expects a source id (a parameter named `src_id`: it names the e-node's syntactic origin, which proofs and the self-symmetry derivation start from) is read from a stored node's `src_id`, is the id a class was just allocated with, or is the caller's own `src_id` — never `.id` of an invocation (the class the node lives in now; the two differ for every node that arrived through a union)")
def p14(ctx):
    crate = ctx.lib()
    n = 0
    for b in crate.fns():
        if not (b.file or "").startswith("src/") or (b.file or "").endswith("/check.rs"):
            continue
        for sub in b.all_bodies():
            for cs in sub.calls:
                if sub.blocks[cs.bb]["cleanup"] or not cs.callee or cs.callee.target not in crate.bodies:
                    continue
                t = crate.bodies[cs.callee.target]
                for i in range(min(len(cs.args), t.argc)):
                    if t.var_names.get(i + 1) != "src_id" or t.local_ty(i + 1) != "types::Id":
                        continue
                    n += 1
                    r = strip_role(sub.role_of_operand(cs.args[i]))
                    ok = (isinstance(r, tuple) and r[0] == "field" and r[2] == "src_id") or (isinstance(r, tuple) and r[0] == "param" and r[1] == "src_id") \
                        or (isinstance(r, tuple) and r[0] == "call" and (r[1].startswith("alloc") or r[1] in ("src_id",)))
                    if isinstance(r, tuple) and r[0] == "upvar":
                        ok = "src_id" in role_str(r)
                    ctx.check(ok, "source-id-argument:%s:%s" % (C.fkey(b), t.name), "%s hands %s a source id" % (C.short(b.id), t.name),
                              "%s passes %s where %s expects the SOURCE id of an e-node: only a stored node's `src_id`, a freshly allocated class id or the caller's own `src_id` name an e-node's origin — the id of the class the node currently lives in names that class's native node instead (different for every node that came in through a union)" % (C.short(b.id), role_str(r)[:60], t.name),
                              where_of(sub, cs.bb))
    # (no floor: the parameter name is the anchor; if it is renamed the rule has nothing to say)
    if n == 0:
        ctx.ok("source-id-argument:none", "no callee takes a parameter named src_id")


RULES.append(p14)


@rule("P15", doc="a union returns in assertion builds too: the assertions under `if CHECKS` on the union / rebuild path are the reviewed ones (C08.GA) — a post-condition that is stricter than the invariant (`slots(id) == cap` after a shrink, where the re-asserted symmetries may have shrunk the class further) panics inside a valid union, and no implied equality is ever reported")
def p15(ctx):
    C.ghost_census(ctx, ctx.lib())


RULES.append(p15)


@rule("P16", doc="slot-map completions are injective (C03.H10): a re-inserted e-node whose redundant slots share one placeholder is later stored under a more special shape, and congruences through the general node are missed")
def p16_h10(ctx):
    from . import c03
    c03.h10(ctx)


RULES.append(p16_h10)


@rule("P17", doc="a freshly created e-node is queued with PendingType::Full, unconditionally (C14.A4): symmetry and redundancy of the new class are consequences of the equations already asserted and are derived only by the full pass")
def p17_a4(ctx):
    from . import c14
    c14.a4(ctx)


RULES.append(p17_a4)

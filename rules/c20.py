"""C20 — runs are reproducible (determinism census)."""
import re
from salib import mir
from salib.mir import role_str, role_walk, strip_role, role_mentions_field, role_mentions_call, role_mentions_param
from salib.runner import rule, where_of
from . import common as C

META = {
    "level": "other",
    "explanation": "Z1: every std HashMap/HashSet instantiated anywhere in the crate (locals of every MIR body, ADT fields, signatures) uses "
                   "the fixed-seed FxBuildHasher; Z2: calls into clocks, thread identity, the environment, random number generators and "
                   "pointer-to-integer casts are confined to a frozen exception table (run/: timing fields and the time limit; "
                   "explain/show.rs: a pointer-keyed map whose iteration is sorted by insertion index before anything is formatted — "
                   "checked as a dominance rule; Language::check: pointer sets used for comparison only); Z3: the only static state is "
                   "the thread-local slot table, there are no atomics or locks; Z4: process-global interning (Symbol) is reviewed and "
                   "accepted (in-process replays agree).",
    "not_decided": "equality of whole transcripts",
    "assumptions": ["rustc_hash::FxBuildHasher is seed-free", "vec_collections VecSet/VecMap are sorted vectors (order = Ord on the element)"],
}

NONDET = [
    (re.compile(r"^std::time::"), "clock"),
    (re.compile(r"^std::thread::(current|park|sleep|spawn|yield_now|available_parallelism)"), "thread identity / scheduling"),
    (re.compile(r"^std::thread::Thread::"), "thread identity"),
    (re.compile(r"^std::env::"), "environment"),
    (re.compile(r"^std::process::id"), "process id"),
    (re.compile(r"^rand(_core|_chacha)?::"), "random numbers"),
    (re.compile(r"RandomState"), "randomly seeded hasher"),
    (re.compile(r"^std::fs::|^std::net::"), "file system / network"),
]

# root function (prefix) -> reason
# keyed by source file (module), not by function name
EXCEPTIONS = {
    "src/run/runner.rs": "Runner timing: start_time / finish_time / the time limit (StopReason::TimeLimit is about wall time by definition)",
    "src/run/run.rs": "run_eqsat timing: total_time and the time limit",
}


@rule("Z1", doc="hasher census: every std hash container uses FxBuildHasher")
def z1(ctx):
    crate = ctx.lib()
    n = 0
    bad = {}
    for b in crate.bodies.values():
        for cont, h in b.j.get("hashers", []):
            n += 1
            if "FxBuildHasher" not in h and "BuildHasherDefault<rustc_hash::FxHasher>" not in h:
                bad.setdefault((C.fkey(crate.root_of(b)), cont, h), b)
    for owner, (cont, h) in crate.j.get("sig_hashers", []):
        n += 1
        if "FxBuildHasher" not in h and "BuildHasherDefault<rustc_hash::FxHasher>" not in h:
            bad.setdefault((owner, cont, h), None)
    for (owner, cont, h), b in sorted(bad.items(), key=lambda x: x[0]):
        # generic hasher parameters of std's own impls seen through resolved callees are not instantiations of ours
        if h in ("S", "S2") and (b is None or b.from_expansion):
            continue
        ctx.bad("hasher:%s:%s" % (owner, h[:40]), "%s instantiates %s with hasher %s: iteration order depends on a per-process random seed, so class ids / match lists / dumps differ between runs" % (owner, cont, h),
                where_of(b) if b is not None else owner)
    ctx.floor("hash container instantiations seen", n, 150)
    if not bad:
        ctx.ok("all-fx", "all %d instantiations of std HashMap/HashSet use rustc_hash::FxBuildHasher" % n)
    # the crate's aliases
    # positive control: the census distinguishes hashers (it sees at least the Fx one spelled out)
    ctx.check(any("FxBuildHasher" in h for b in crate.bodies.values() for _, h in b.j.get("hashers", [])), "positive-control", "the census reads hasher type arguments (FxBuildHasher seen)", "the census cannot read hasher arguments")


@rule("Z2", doc="nondeterminism sources are confined to the frozen exception table")
def z2(ctx):
    crate = ctx.lib()
    hits = 0
    for b in crate.bodies.values():
        root = crate.root_of(b)
        for c in b.calls:
            if b.blocks[c.bb]["cleanup"] or not c.callee:
                continue
            t = c.callee.target or ""
            f = c.callee.fn or ""
            for rx, what in NONDET:
                if rx.search(t) or rx.search(f):
                    hits += 1
                    why = [w for k, w in EXCEPTIONS.items() if (b.file or "") == k]
                    ctx.check(bool(why), "source:%s:%s" % (C.fkey(root), t.split("::")[-1]), "%s uses %s (%s) — %s" % (C.short(root.id), t, what, why[0] if why else ""),
                              "%s calls %s (%s) outside the frozen exception table: an observable result can depend on it" % (C.short(root.id), t, what), where_of(b, c.bb))
                    break
        # pointer -> integer casts
        for bi, si, s in b.statements():
            rv = s["rv"] if s["k"] == "assign" else None
            if rv and rv["k"] == "cast" and ("Expose" in rv.get("ck", "") or ("Transmute" in rv.get("ck", "") and "*" in role_str(b.role_of_operand(rv["op"])))):
                if (b.file or "").startswith("src/") and not b.from_expansion and not s.get("mac"):
                    ctx.bad("ptr-to-int:" + C.fkey(root), "%s casts a pointer to an integer: the value depends on memory addresses" % C.short(root.id), where_of(b, bi, s.get("line")))
    ctx.floor("clock / environment call sites seen (positive control: run/ uses Instant)", hits, 4)
    # memory addresses used as an ORDER: `<` on raw pointers, sorting / min / max keyed by a pointer, ordered containers of pointers
    PTR = re.compile(r"^\*(const|mut) ")
    for b in crate.bodies.values():
        if not (b.file or "").startswith("src/") or b.from_expansion:
            continue
        root = crate.root_of(b)
        for bi, si, s_ in b.statements():
            rv = s_["rv"] if s_["k"] == "assign" else None
            if rv and rv["k"] == "bin" and rv.get("op") in ("Lt", "Le", "Gt", "Ge", "Cmp") and not s_.get("mac"):
                tys = [b.local_ty(mir.op_place(o)["l"]) for o in (rv["a"], rv["b"]) if mir.op_place(o) is not None and not mir.op_place(o)["p"]]
                if any(PTR.search(t) for t in tys):
                    ctx.bad("ptr-order:" + C.fkey(root), "%s orders two raw pointers: the outcome depends on where the allocator placed the values" % C.short(root.id), where_of(b, bi, s_.get("line")))
        for c in b.calls:
            if b.blocks[c.bb]["cleanup"] or not c.callee:
                continue
            if c.callee.name in ("hash", "hash_slice") and c.args and "Hash" in (c.callee.fn or "") + (c.callee.target or ""):
                pl = mir.op_place(c.args[0])
                ty0 = b.local_ty(pl["l"]) if pl is not None and not pl["p"] else ""
                if re.search(r"^&?(mut )?\s*\*(const|mut) ", ty0) or re.search(r"^&?\[\*(const|mut) ", ty0):
                    ctx.bad("ptr-hash:" + C.fkey(root), "%s feeds a raw pointer (%s) to a hasher: the hash — and with it the iteration order of every hash set / map of such values, which the library iterates (generator sets, orbit tables) — depends on where the allocator placed the value, which differs between threads and runs" % (C.short(root.id), ty0[:50]), where_of(b, c.bb))
            if c.callee.name in ("sort_by_key", "sort_unstable_by_key", "sort_by_cached_key", "min_by_key", "max_by_key", "binary_search_by_key") and c.args:
                cl = C._closure_of_role(crate, b.role_of_operand(c.args[-1]))
                if hasattr(cl, "local_ty") and PTR.search(cl.local_ty(0)):
                    ctx.bad("ptr-order:" + C.fkey(root), "%s sorts / selects by a key that is a raw pointer (%s): the order depends on memory addresses" % (C.short(root.id), cl.local_ty(0)[:40]), where_of(b, c.bb))
        for l, loc in enumerate(b.locals):
            if re.search(r"(BTreeMap|BTreeSet|BinaryHeap)<\*(const|mut) ", loc["ty"]):
                ctx.bad("ptr-order:" + C.fkey(root), "%s keeps raw pointers in an ordered container (%s): its iteration order depends on memory addresses" % (C.short(root.id), loc["ty"][:60]), where_of(b))
                break
    # the time limit only decides the stop reason, it never reaches the e-graph
    # pointer-keyed hash containers
    ptr_users = {}
    for b in crate.bodies.values():
        for l, loc in enumerate(b.locals):
            ty = loc["ty"]
            if re.search(r"Hash(Map|Set)<\*(const|mut) ", ty):
                ptr_users.setdefault(crate.root_of(b).id, set()).add(re.search(r"(Hash(Map|Set)<\*(const|mut) [^,>]*)", ty).group(1))
    ctx.info("pointer-keyed hash containers: %s" % {C.short(k): sorted(v) for k, v in ptr_users.items()})
    allowed_ptr = {"src/explain/show.rs": "ShowMap: keyed by proof-node address for sharing; iteration is sorted by insertion index before formatting (checked)",
                   "src/lang.rs": "Language::check: pointer sets compared with is_disjoint / == only (order never observed)"}
    for rid, tys in sorted(ptr_users.items()):
        root = crate.bodies[rid]
        why = [w for k, w in allowed_ptr.items() if (root.file or "") == k]
        if not ctx.check(bool(why), "ptr-keyed:" + C.fkey(root), "%s uses a pointer-keyed hash container — %s" % (C.short(rid), why[0] if why else ""),
                         "%s uses a hash container keyed by raw pointers (%s): its iteration order depends on memory addresses" % (C.short(rid), sorted(tys)), where_of(root)):
            continue
        # iteration over such a container must be sorted before use, or be used for membership only
        for sub in root.all_bodies():
            for c in sub.calls:
                if not c.callee or sub.blocks[c.bb]["cleanup"]:
                    continue
                if c.callee.name in ("into_iter", "iter", "keys", "values", "drain", "iter_mut") and c.args:
                    pl = mir.op_place(c.args[0])
                    ty = sub.local_ty(pl["l"]) if pl is not None and not pl["p"] else ""
                    if re.search(r"Hash(Map|Set)<\*(const|mut) ", ty):
                        # find sort call on something derived from this iteration that dominates every later loop
                        sorts = [x for x in sub.calls if x.callee and x.callee.name.startswith("sort") and role_mentions_call(sub.role_of_operand(x.args[0]), c.callee.name)]
                        loops = [l for l in C.iterator_loops(sub) if role_mentions_call(l[1], c.callee.name) and any(isinstance(y, tuple) and y[0] == "call" and y[4] == c.bb for y in role_walk(l[1]))]
                        ok = bool(sorts) and all(sub.dominated_by(l[0], {s_.bb for s_ in sorts}) for l in loops)
                        keyed = False
                        for s_ in sorts:
                            kcl = strip_role(sub.role_of_operand(s_.args[1])) if len(s_.args) > 1 else None
                            if kcl and kcl[0] == "agg" and kcl[1] in crate.bodies:
                                rr = role_str(crate.bodies[kcl[1]].role_of_local(0))
                                keyed = keyed or (".0" in rr and "*" not in rr)
                        ctx.check(ok and keyed, "ptr-iteration-sorted:" + C.fkey(root), "iteration over the pointer-keyed map is sorted by the stored insertion index before anything is formatted",
                                  "%s iterates a pointer-keyed hash container without sorting the result by an address-independent key first: the output order depends on memory addresses" % C.short(rid), where_of(sub, c.bb))


@rule("Z3", doc="state census: the only static is the thread-local slot table; no atomics, locks or lazy globals")
def z3(ctx):
    crate = ctx.lib()
    user = []
    for s in crate.statics:
        tl = s.get("thread_local")
        ok = tl and (s["file"] or "").endswith("slot.rs") and ("SLOT_TABLE" in s["path"] or "slot::" in s["ty"])
        ctx.check(ok, "static:" + s["path"].split("::{")[0], "static %s is thread-local (the slot table)" % s["path"].split("::{")[0],
                  "static %s (%s) is not the thread-local slot table: state shared between threads / runs makes transcripts depend on what other threads do" % (s["path"], s["ty"]), "%s:%s" % (s["file"], s["line"]))
        user.append(s)
    ctx.floor("statics seen (positive control: SLOT_TABLE)", len(user), 1)
    bad_ty = re.compile(r"std::sync::atomic::|std::sync::(Mutex|RwLock|OnceLock|LazyLock|Once)\b|once_cell::|lazy_static::|parking_lot::")
    seen = {}
    for a in crate.adts.values():
        for v in a["variants"]:
            for f in v["fields"]:
                if bad_ty.search(f["ty"]):
                    seen[(a["path"], f["name"])] = f["ty"]
    for b in crate.bodies.values():
        if not (b.file or "").startswith("src/"):
            continue
        for loc in b.locals:
            if bad_ty.search(loc["ty"]) and not b.from_expansion:
                seen[(C.fkey(crate.root_of(b)), "local")] = loc["ty"][:80]
    for (owner, what), ty in sorted(seen.items()):
        ctx.bad("shared-state:%s:%s" % (owner, what), "%s (%s) has type %s: cross-thread shared mutable state" % (owner, what, ty))
    if not seen:
        ctx.ok("no-shared-state", "no atomics, locks, Once/Lazy cells in any ADT field or user body local")
    # Symbol: process-global interner, reviewed
    sym = [a for a in crate.j.get("consts", []) if False]
    ctx.info("Z4: Symbol = symbol_table::GlobalSymbol is a process-global interner; an index is stable once interned, so replays inside one process agree (accepted, not armed)")


RULES = [z1, z2, z3]


@rule("Z5", cfgs=["explanations", "checks_explanations"], doc="the explanation printer numbers each proof node once: its work stack never holds two copies of a node (one premise is scheduled per round, or the insert is guarded by a membership test)")
def z5(ctx):
    crate = ctx.lib()
    n = 0
    for b in crate.fns():
        if not (b.file or "").startswith("src/explain/"):
            continue
        for sub in b.all_bodies():
            ins = [c for c in sub.calls if c.callee and c.callee.name == "insert" and c.args and re.search(r"Hash(Map|Set)<\*(const|mut) ", sub.local_ty(mir.op_place(c.args[0])["l"]) if mir.op_place(c.args[0]) is not None else "")
                   and not sub.blocks[c.bb]["cleanup"]]
            for c in ins:
                # value carries the insertion index len(map)
                if len(c.args) < 3 or not role_mentions_call(sub.role_of_operand(c.args[2]), "len"):
                    continue
                n += 1
                key = strip_role(sub.role_of_operand(c.args[1]))
                guarded = False
                for e, cond in C.conditions_at(sub, c.bb):
                    r = strip_role(cond[1]) if len(cond) > 1 else None
                    if cond[0] == "false" and isinstance(r, tuple) and r[0] == "call" and r[1] == "contains_key" and len(r[3]) == 2 and strip_role(r[3][1]) == key:
                        guarded = True
                # discipline (ii): the work stack gets at most one new element between two heads of the driving loop
                pushes = [x for x in sub.calls if x.callee and x.callee.name == "push" and x.args and "Vec<&" in sub.local_ty(mir.op_place(x.args[0])["l"]) and not sub.blocks[x.bb]["cleanup"]] if True else []
                heads = set()
                # `while let Some(x) = stack.last()` is not an Iterator::next loop: find its head as the switch on discr(last(stack))
                for sb in sub.switch_blocks():
                    r = sub.role_of_operand(sub.blocks[sb]["term"]["discr"])
                    if r[0] != "discr":
                        continue
                    x_ = strip_role(r[1])
                    while isinstance(x_, tuple) and x_[0] == "call" and x_[1] in ("cloned", "copied", "as_ref", "as_deref") and x_[3]:
                        x_ = strip_role(x_[3][0])
                    if isinstance(x_, tuple) and x_[0] == "call" and x_[1] in ("last", "pop", "last_mut"):
                        heads.add(sb)
                one_at_a_time = bool(pushes) and bool(heads) and all(not any(y.bb in sub.reach(sub.after(x.bb), avoid=heads) for y in pushes) for x in pushes)
                ctx.check(guarded or one_at_a_time, "node-numbered-once:" + C.fkey(crate.root_of(sub)),
                          "%s: a proof node gets its line number once (%s)" % (C.short(crate.root_of(sub).id), "insert guarded by a membership test" if guarded else "one premise scheduled per round"),
                          "%s numbers proof nodes with map.len() in a pointer-keyed map, but a node can be on the work stack twice (several premises are pushed in one round and nothing checks `already printed` when a node resurfaces): it is printed twice, two lines get the same number, and their relative order after sorting is the map's iteration order — which depends on heap addresses. The transcript of an explanation differs between runs" % C.short(crate.root_of(sub).id),
                          where_of(sub, c.bb))
    ctx.floor("insertion-indexed pointer-keyed maps in the explanation printer", n, 1)


RULES.append(z5)


@rule("MC", doc="must-call census: no function of this property's files has gained an early exit in front of work it always did (every crate-local call that lay on all paths to a normal return in the reviewed tree still does)")
def mc(ctx):
    C.must_call_census(ctx, ctx.lib(), ['src/lib.rs', 'src/slot.rs', 'src/egraph/rebuild.rs', 'src/explain/show.rs', 'src/rewrite/ematch.rs'])


RULES.append(mc)

"""C13 — nothing is lost, handles stay valid (structural necessary conditions)."""
from salib import mir
from salib.mir import role_str, role_walk, strip_role, role_mentions_field, role_mentions_call, role_mentions_param
from salib.runner import rule, where_of
from . import common as C
from . import c01, c08, c10

META = {
    "level": "other",
    "explanation": "Decides: nothing ever removes a class record or a union-find entry (T1, with a positive control that the matcher sees "
                   "removal calls on the other e-graph containers); the slot set has one writer whose value is an intersection (T2 = C01.R2); "
                   "each progress field is computed from its documented source (T3); canonicalising a (possibly stale) handle uses the "
                   "partial composition (T4); path compression combines old edge and recursive result (T5 = C08.W2). T6-T9: every return path of the find family composes the stored edge; a group reconstruction keeps the old generators and covers every level (G2/G3/G8 shared); id-carrying state census of EGraph/EClass; after a shrink the leader union restarts from the canonicalising entry (no stale handles).",
    "not_decided": "monotonicity of the equality relation over time as a behavioural fact",
    "assumptions": [],
}

REMOVERS = {"remove", "clear", "retain", "drain", "pop", "truncate", "remove_entry", "swap_remove", "take", "split_off", "extract_if", "dedup"}


@rule("T1", doc="no call ever removes from EGraph.classes or the union-find vector")
def t1(ctx):
    crate = ctx.lib()
    touched = {"classes": 0, "unionfind": 0}
    controls = 0
    for b in crate.bodies.values():
        for c in b.calls:
            if b.blocks[c.bb]["cleanup"] or not c.callee or not c.args:
                continue
            r = strip_role(b.role_of_operand(c.args[0]))
            # receiver is exactly self.classes / the borrowed union-find vector
            base = r
            fld = None
            if isinstance(base, tuple) and base[0] == "field" and base[2] in ("classes", "unionfind", "hashcons", "pending", "modify_queue", "nodes", "usages"):
                fld = base[2]
            if fld is None:
                continue
            if fld in touched:
                touched[fld] += 1
                if c.callee.name in REMOVERS:
                    ctx.bad("removal:%s:%s:%s" % (fld, C.fkey(crate.root_of(b)), c.callee.name),
                            "%s calls %s on EGraph.%s: a class record / union-find entry can disappear, but canonicalising an old handle indexes classes[&old_id] and unionfind[old_id]" % (C.short(crate.root_of(b).id), c.callee.name, fld),
                            where_of(b, c.bb))
            elif c.callee.name in REMOVERS:
                controls += 1
    # whole-field overwrites
    for fld in ("classes", "unionfind"):
        w = C.writers(crate, C.EGRAPH, fld, kinds=("store",))
        for wid, sites in w.items():
            ctx.bad("overwrite:%s:%s" % (fld, C.fkey(crate.bodies[wid])), "%s overwrites EGraph.%s" % (C.short(wid), fld), where_of(crate.bodies[wid]))
    ctx.floor("calls on EGraph.classes seen", touched["classes"], 20)
    ctx.floor("calls on the union-find seen", touched["unionfind"], 3)
    ctx.check(controls >= 3, "positive-control", "the matcher recognises %d removal calls on the other e-graph containers (hashcons, nodes, usages, pending, modify_queue)" % controls,
              "positive control failed: the matcher sees no removal call even on hashcons/pending — it cannot vouch for classes/unionfind")
    ctx.ok("no-removal", "no remove/clear/retain/drain/pop/truncate on EGraph.classes (%d calls seen) or the union-find (%d calls seen)" % (touched["classes"], touched["unionfind"]))


@rule("T2", doc="single slot-set writer with an intersection cap (C01.R2)")
def t2(ctx):
    c01.r2(ctx)


@rule("T3", doc="progress(): each field is computed from its documented source")
def t3(ctx):
    crate = ctx.lib()
    ps = crate.method("egraph::EGraph", "progress")
    if len(ps) != 1:
        raise mir.AnchorMissing("EGraph::progress")
    b = ps[0]
    d = crate.deps(b)
    agg = None
    for bi, si, s in b.statements():
        if s["k"] == "assign" and s["rv"]["k"] == "agg" and str(s["rv"].get("adt", "")).endswith("ProgressMeasure"):
            agg = s["rv"]
    if agg is None:
        raise mir.AnchorMissing("ProgressMeasure aggregate in progress()")
    want = {
        "number_of_classes": (lambda at: any(a[0] == "field" and a[2] == "classes" for a in at) and not mir.atoms_calls(at, "ids"),
                              "classes.len() (allocated classes, not the live ones)"),
        "number_of_live_classes": (lambda at: bool(mir.atoms_calls(at, "ids")) and not mir.atoms_calls(at, "count") and not mir.atoms_calls(at, "slots"),
                                   "ids().len()"),
        "sum_of_slots": (lambda at: bool(mir.atoms_calls(at, "ids")) and (bool(mir.atoms_calls(at, "slots")) or any(a[0] == "field" and a[2] == "slots" for a in at)) and not mir.atoms_calls(at, "count"),
                         "sum over live ids of slots(id).len()"),
        "sum_of_symmetries": (lambda at: bool(mir.atoms_calls(at, "ids")) and bool(mir.atoms_calls(at, "count", "group")) and not mir.atoms_calls(at, "slots"),
                              "sum over live ids of group.count()"),
    }
    fields = agg["fields"]
    for f, (pred, src) in want.items():
        if f not in fields:
            raise mir.AnchorMissing("ProgressMeasure." + f)
        at = d.atoms_of_operand(b, agg["ops"][fields.index(f)])
        ctx.check(pred(at), "field-source:" + f, "%s is computed from %s" % (f, src),
                  "ProgressMeasure.%s is not computed from %s (it depends on calls %s)" % (f, src, sorted({a[3] for a in mir.atoms_calls(at)})), where_of(b))
    ctx.check(len(fields) == 4, "four-fields", "ProgressMeasure has the four documented fields", "ProgressMeasure has fields %s" % fields, where_of(b))


@rule("T4", doc="canonicalising a handle applies its map with the partial composition")
def t4(ctx):
    crate = ctx.lib()
    n = 0
    for b in crate.fns():
        ugs = [c for c in b.calls if c.callee and c.callee.name in ("proven_unionfind_get", "unionfind_get") and c.callee.target in crate.bodies]
        if not ugs:
            continue
        pais = [l for l in range(1, b.argc + 1) if "ProvenAppliedId" in b.local_ty(l) or "AppliedId" in b.local_ty(l)]
        comps = [c for c in b.calls if c.callee and c.callee.name in ("compose", "compose_partial", "compose_fresh") and not b.blocks[c.bb]["cleanup"]
                 and any(role_mentions_call(b.role_of_operand(a), ugs[0].callee.name) for a in c.args)]
        if not pais or not comps:
            continue
        for c in comps:
            n += 1
            r0 = b.role_of_operand(c.args[0])
            r1 = b.role_of_operand(c.args[1])
            okname = c.callee.name == "compose_partial"
            okorient = role_mentions_call(r0, ugs[0].callee.name) and any(isinstance(x, tuple) and x[0] == "param" and x[1] != "self" for x in role_walk(r1))
            ctx.check(okname, "partial-composition:" + C.fkey(b), "find composes leader-map ; handle-map with compose_partial",
                      "%s composes the union-find entry with the handle's map using %s; a stale handle has more keys than the leader takes (total compose asserts under `checks`, compose_fresh invents slots)" % (C.short(b.id), c.callee.name), where_of(b, c.bb))
            ctx.check(okorient, "orientation:" + C.fkey(b), "uf-entry.m (slots(leader)->slots(old)) is the receiver, the handle's map the argument",
                      "%s composes %s with %s: the union-find entry's map must be applied first, then the handle's map" % (C.short(b.id), role_str(r0), role_str(r1)), where_of(b, c.bb))
    ctx.floor("find-on-handle compositions", n, 1)


@rule("T5", doc="path compression rule (C08.W2)")
def t5(ctx):
    c08.w2(ctx)


@rule("T6", doc="canonicalisation always goes through the union-find entry, also for a live id")
def t6(ctx):
    crate = ctx.lib()
    getters = {b.id for b in crate.fns() if b.id in C.uf_borrowers_mut(crate) and b.id not in C.uf_setters(crate)}
    reach_get = {b.id for b in crate.fns() if getters & crate.reachable_from([b.id], resolve_traits=False)}
    n = 0
    for name in ("find_applied_id", "proven_find_applied_id", "proven_proven_find_applied_id", "find_id", "find_enode"):
        for b in crate.method("egraph::EGraph", name):
            for i, d in enumerate(b.defs().get(0, [])):
                n += 1
                if d["kind"] == "call":
                    c = d["call"]
                    ok = c.callee is not None and (c.callee.target in reach_get or any(role_mentions_call(b.role_of_operand(a), "proven_unionfind_get") or role_mentions_call(b.role_of_operand(a), "unionfind_get") for a in c.args))
                    r = role_str(("call", c.callee.name if c.callee else "?", "", [b.role_of_operand(a) for a in c.args], c.bb))
                else:
                    rr = b.role_of_rvalue(d["rv"])
                    r = role_str(rr)
                    ok = any(isinstance(x, tuple) and x[0] == "call" and (b.call_at.get(x[4]) and b.call_at[x[4]].callee and b.call_at[x[4]].callee.target in reach_get) for x in role_walk(rr))
                ctx.check(ok, "find-consults-unionfind:%s:%d" % (name, i), "%s: the result is derived from the union-find entry" % name,
                          "%s has a return path whose result (%s) does not come from the union-find entry. A live class's own entry is not the identity once it lost a slot (the entry is rewritten to the restricted identity), so a shortcut for leaders returns handles with arguments that are no longer slots of the class: an equality that held before compares false afterwards" % (name, r[:140]),
                          where_of(b, d["bb"], d.get("line")))
    ctx.floor("return paths of the find family", n, 3)


RULES = [t1, t2, t3, t4, t5, t6]


@rule("T7", doc="symmetries survive every group reconstruction (shared with C10.G2/G3): add_set rebuilds from old generators | new ones, and generators() covers every level of the stabiliser chain")
def t7(ctx):
    c10.g2(ctx)
    c10.g3(ctx)
    c10.g8(ctx)


RULES.append(t7)


# (adt, field) -> why ids stored there cannot go stale
ID_STATE = {
    ("egraph::EGraph", "unionfind"): "the union-find itself: entries are chased / compressed on every read (T4, T5)",
    ("egraph::EGraph", "classes"): "keyed by class id; a deprecated class keeps its record, every access goes through find (T1, T6)",
    ("egraph::EGraph", "hashcons"): "shape -> class: re-canonicalised by the rebuild loop whenever a child class changes (C02.P2, C08.W1)",
    ("egraph::EGraph", "syn_hashcons"): "syntactic classes are never merged: the stored invocation names the class allocated for that syntactic node",
    ("egraph::EGraph", "pending"): "work-list of shapes, drained before any public mutator returns (C02.P1, P3)",
    ("egraph::EGraph", "modify_queue"): "popped ids are canonicalised with find_id before use (C14.A3)",
    ("egraph::EGraph", "proof_registry"): "proof objects name syntactic classes (never merged)",
    ("egraph::EClass", "nodes"): "re-canonicalised by the rebuild loop (C02.P5)",
    ("egraph::EClass", "usages"): "maintained together with hashcons / nodes (C08.W1)",
    ("egraph::EClass", "group"): "permutations of the class's own slots; proofs name syntactic classes",
    ("egraph::EClass", "syn_enode"): "the syntactic node the class was allocated for (syntactic ids are never merged)",
}
ID_TYPES = ("types::Id", "types::AppliedId", "ProvenAppliedId", "ProvenSourceNode", "Pattern<", "RecExpr<", "ProvenPerm", "ProofRegistry")


@rule("T8", doc="id-carrying state census: every field of EGraph / EClass that stores class ids (or nodes, which contain them) is one the rebuild keeps canonical")
def t8(ctx):
    crate = ctx.lib()
    n = 0
    for adt in ("egraph::EGraph", "egraph::EClass"):
        a = crate.adts.get(adt)
        if a is None:
            raise mir.AnchorMissing(adt)
        for f in a["variants"][0]["fields"]:
            ty = f["ty"]
            carries = any(t in ty for t in ID_TYPES) or ty == "L" or bool(__import__("re").search(r"(HashMap|HashSet|Vec|VecDeque|Option|BTreeMap|BTreeSet|BinaryHeap)<L[,>]", ty))
            if not carries:
                continue
            n += 1
            why = ID_STATE.get((adt, f["name"]))
            ctx.check(why is not None, "id-state:%s.%s" % (adt.split("::")[-1], f["name"]), "%s.%s stores ids — %s" % (adt.split("::")[-1], f["name"], why),
                      "%s.%s (%s) is new state that stores class ids / invocations across operations: after a later union the stored handle names a deprecated class, and code comparing it syntactically (e.g. `b[x := t]` looks for x with ==) silently stops recognising the class. It is not in the reviewed table of fields the rebuild keeps canonical" % (adt.split("::")[-1], f["name"], ty[:80]))
    ctx.floor("id-carrying fields of EGraph / EClass", n, 8)


RULES.append(t8)


@rule("T9", doc="after a shrink the leader union starts over from the canonicalising entry: handles computed before the shrink are not used again")
def t9(ctx):
    crate = ctx.lib()
    sw = set(C.slot_writers(crate))
    n = 0
    for lid in C.need("leader union", C.leader_union_functions(crate)):
        b = crate.bodies[lid]
        for c in C.calls_to(crate, b, sw):
            if c.body is not b:
                continue
            n += 1
            after = b.reach(b.after(c.bb))
            direct = [x for x in b.calls if x.bb in after and x.callee and x.callee.target == lid and not b.blocks[x.bb]["cleanup"]]
            merges = [x for x in b.calls if x.bb in after and x.callee and x.callee.target in set(C.merge_region(crate)["entries"]) and not b.blocks[x.bb]["cleanup"]]
            ctx.check(not direct and not merges, "retry-canonicalises:%d" % n,
                      "after shrinking an operand %s continues only through a callee that looks both operands up again" % C.short(lid),
                      "after shrinking an operand %s continues with %s directly: the shrink runs a nested union / rebuild (it may shrink the class below `cap`, re-assert symmetries, merge classes), so the operands held in locals are stale handles — the merge then overwrites the union-find entry that recorded the redundancy and an equality established earlier stops holding" % (
                          C.short(lid), ((direct + merges)[0].callee.name if (direct + merges) else "?")), where_of(b, c.bb))
    ctx.floor("shrink calls in the leader union", n, 2)


RULES.append(t9)


@rule("T10", doc="find_id follows the whole union-find chain (it goes through the chasing / compressing accessor, not a single table read); extraction canonicalises the whole invocation (C06.X5)")
def t10(ctx):
    crate = ctx.lib()
    fs = crate.method("egraph::EGraph", "find_id")
    if len(fs) != 1:
        raise mir.AnchorMissing("EGraph::find_id")
    b = mir.accessor_view(crate, fs[0])
    r = b.role_of_local(0)
    chased = any(isinstance(x, tuple) and x[0] == "call" and (x[1] in ("unionfind_get", "proven_unionfind_get", "find_applied_id", "proven_find_applied_id", "proven_proven_find_applied_id") or "unionfind_get" in x[1]) for x in role_walk(r))
    direct = any(isinstance(x, tuple) and x[0] == "call" and x[1] in ("index", "get") and x[3] and role_mentions_field(x[3][0], "unionfind") for x in role_walk(r))
    ctx.check(chased and not direct, "find-id-chases", "find_id returns the id of the chased (and compressed) union-find entry",
              "EGraph::find_id returns %s: a single read of the union-find table. After I was merged into J and J into K (no compressing find on I in between) it answers J, a dead class — analysis_data(I) then returns J's stale datum and equal classes disagree" % role_str(r)[:120], where_of(fs[0]))
    from . import c06
    c06.x5(ctx)


RULES.append(t10)


@rule("MC", doc="must-call census: no function of this property's files has gained an early exit in front of work it always did (every crate-local call that lay on all paths to a normal return in the reviewed tree still does)")
def mc(ctx):
    C.must_call_census(ctx, ctx.lib(), ['src/egraph/add.rs', 'src/egraph/find.rs', 'src/egraph/union.rs', 'src/rewrite/mod.rs', 'src/egraph/mod.rs', 'src/explain/wrapper/applied_id.rs'])


RULES.append(mc)


@rule("T11", doc="a class that shrinks installs its restricted group BEFORE it re-asserts the symmetries that could not be restricted: those re-entrant unions may rewrite the group, and a store after them would put a stale snapshot back")
def t11(ctx):
    crate = ctx.lib()
    sw = set(C.need("slot-set writer (shrink_slots)", C.slot_writers(crate)))
    merges = set(C.merge_functions(crate)) | sw
    reach_m = {b.id for b in crate.fns() if merges & crate.reachable_from([b.id], resolve_traits=False)}
    n = 0
    for wid in sw:
        b = mir.inline_view(crate, crate.bodies[wid], keep=tuple(sorted(reach_m)))
        stores = [bi for bi, si, s in b.statements() if s["k"] == "assign" and mir.place_has_field(s["lhs"], C.ECLASS, "group") and not b.blocks[bi]["cleanup"]]
        reent = [c for c in b.calls if c.callee and c.callee.target in reach_m and not b.blocks[c.bb]["cleanup"]]
        if not stores or not reent:
            continue
        n += 1
        for c in reent:
            later = [bi for bi in stores if bi in b.reach(b.after(c.bb))]
            ctx.check(not later, "group-installed-before-reentry:" + C.fkey(crate.bodies[wid]), "%s stores the class's group before the re-entrant %s" % (C.short(wid), c.callee.name),
                      "%s stores the class's group after calling %s, which can itself change that class's group (the nested shrink-and-retry learns the part of a re-asserted symmetry that survives on the final slots): the outer call overwrites it with the snapshot it computed before — an established symmetry is lost, handles that were equal compare unequal" % (C.short(wid), c.callee.name),
                      where_of(b, c.bb))
    ctx.floor("slot-set writers with re-entrant unions", n, 1)
    # the same for the other two pieces of state a shrink writes for ITS class: the slot set and the class's own union-find entry
    # (the redundancy witness).  A nested shrink of the same class — the re-asserted symmetry exchanged a kept slot with a dropped
    # one — writes a smaller entry; recording the outer, larger one afterwards brings the dropped slot back into every handle.
    ufs = set(C.uf_setters(crate))
    ufw = {b_.id for b_ in crate.fns() if b_.id not in reach_m and ufs & (crate.reachable_from([b_.id], resolve_traits=False) | {b_.id})}
    m = 0
    for wid in sw:
        b = mir.inline_view(crate, crate.bodies[wid], keep=tuple(sorted(reach_m | ufw)))
        reent = [c for c in b.calls if c.callee and c.callee.target in reach_m and not b.blocks[c.bb]["cleanup"]]
        wr = [(c.bb, c.callee.name) for c in b.calls if c.callee and c.callee.target in ufw and not b.blocks[c.bb]["cleanup"] and c.args
              and str(b.local_ty(mir.op_place(c.args[0])["l"]) if mir.op_place(c.args[0]) else "").startswith("&mut")]
        wr += [(c.bb, c.callee.name) for c in b.calls if c.callee and c.callee.target in ufw and not b.blocks[c.bb]["cleanup"] and (c.bb, c.callee.name) not in wr and c.callee.target in ufs]
        wr += [(bi, "slots :=") for bi, si, s_ in b.statements() if s_["k"] == "assign" and mir.place_has_field(s_["lhs"], C.ECLASS, "slots") and not b.blocks[bi]["cleanup"]]
        if not reent or not wr:
            continue
        m += 1
        for c in reent:
            after = b.reach(b.after(c.bb))
            later = sorted({nm for bi, nm in wr if bi in after})
            ctx.check(not later, "class-state-written-before-reentry:" + C.fkey(crate.bodies[wid]), "%s writes the class's slot set and its union-find entry before the re-entrant %s" % (C.short(wid), c.callee.name),
                      "%s runs %s after the re-entrant %s: that call can shrink the SAME class further (a re-asserted symmetry that exchanges a kept with a dropped slot) and record the smaller slot set / union-find entry; the late write puts the outer, larger one back — old handles of the class get the dropped slot again, the following union sees equal slot sets and merges without shrinking, and an equality that held is lost" % (C.short(wid), ", ".join(later), c.callee.name),
                      where_of(b, c.bb))
    ctx.floor("slot-set writers whose class-state writes are ordered against re-entrant unions", m, 1)


RULES.append(t11)


@rule("T12", doc="the slot set of an id is read from that id's own class record: a merged-away class keeps its frozen slot names (old handles and its union-find entry are keyed by them), so slots(id) does not jump to the leader's names")
def t12(ctx):
    crate = ctx.lib()
    bs = crate.method("egraph::EGraph", "slots")
    if len(bs) != 1:
        raise mir.AnchorMissing("EGraph::slots")
    b = bs[0]
    r = b.role_of_local(0)
    key_ok = False
    for x in role_walk(r):
        if isinstance(x, tuple) and x[0] == "call" and x[1] in ("index", "get") and len(x[3]) == 2 and role_mentions_field(x[3][0], "classes"):
            k = strip_role(x[3][1])
            key_ok = isinstance(k, tuple) and k[0] == "param"
    finds = sorted({c.callee.name for c in b.all_calls() if c.callee and c.callee.name in ("find_id", "find_applied_id", "unionfind_get", "proven_unionfind_get", "proven_find_applied_id")})
    ctx.check(key_ok and not finds and role_mentions_field(r, "slots"), "slots-of-the-id-given", "EGraph::slots(id) = classes[id].slots",
              "EGraph::slots(id) canonicalises the id (%s) or does not read classes[id].slots: for a merged-away id it answers with the leader's slot names, which are unrelated to the names old handles of that id are keyed by — identity handles built from it lose all their arguments, and an invocation returned by add() for a class that an analysis hook merged away during the insertion comes back without arguments" % (", ".join(finds) or role_str(r)[:60]),
              where_of(b))


RULES.append(t12)


@rule("T13", cfgs=["explanations", "checks_explanations"], doc="merging a class that has a symmetry away does not abort half-way (explanations builds): the proof paired with each transported generator is a chain whose steps meet — symmetry(find-proof) ; generator's proof ; find-proof (C07.K16); a panic there leaves the union-find redirected and the symmetry lost, and every old handle of the class unusable")
def t13(ctx):
    from . import c07
    c07.k16(ctx)


RULES.append(t13)


@rule("T15", cfgs=["explanations", "checks_explanations"], doc="a union that shrinks the right operand does not abort half-way (explanations builds): proof orientation at the call sites of the leader union (C07.K7); the panic leaves the redundancy half recorded")
def t15(ctx):
    from . import c07
    c07.k7(ctx)


RULES.append(t15)


@rule("T14", doc="an old handle stays usable between operations: every public &mut entry point returns with empty work-lists (C02.P1) — with requests still queued, parents of a class that was just moved are missing from the indexes extraction and lookup read")
def t14(ctx):
    from . import c02
    c02.p1(ctx)


RULES.append(t14)


@rule("T16", doc="the handle `add` returns stays usable when its class was merged away during the very insertion (an Analysis::modify that unions): semify_app_id keeps exactly the keys among slots(app.id) of the handle's OWN class — taking the slot set from the leader strips every argument of a dead id, and the handle canonicalises to an invocation with no slots (C09.I13)")
def t16(ctx):
    from . import c09
    c09.i13(ctx)


RULES.append(t16)


@rule("T17", doc="canonicalising an e-node canonicalises every child handle for itself: the step find_enode applies to child i answers, on every path, with find_applied_id of THAT child's invocation — no memo keyed by the class id alone (two children that refer to one stale class with different arguments would get the same arguments, and the parent loses a slot)")
def t17(ctx):
    crate = ctx.lib()
    bs = [b for b in crate.by_name.get("proven_proven_find_enode", []) if b.kind != "Closure"]
    if len(bs) != 1:
        raise mir.AnchorMissing("EGraph::proven_proven_find_enode")
    b = mir.inline_view(crate, bs[0], keep=("chain_pn_map", "proven_proven_find_applied_id", "proven_find_applied_id", "find_applied_id"))
    FIND = ("proven_proven_find_applied_id", "proven_find_applied_id", "find_applied_id")
    n = 0
    for c in b.calls:
        if not (c.callee and c.callee.name in ("chain_pn_map", "chain_pc_map") and not b.blocks[c.bb]["cleanup"]):
            continue
        cl = C._closure_of_role(crate, b.role_of_operand(c.args[-1]))
        if not hasattr(cl, "calls"):
            raise mir.AnchorMissing("the step closure find_enode hands to chain_pn_map")
        n += 1
        cv = mir.inline_view(crate, cl, keep=FIND)
        r = strip_role(cv.role_of_local(0))
        alts = list(r[1]) if isinstance(r, tuple) and r[0] == "phi" else [r]
        pai = cv.var_names.get(cv.argc)          # the last closure parameter: the proven child invocation
        ok = True
        for a in alts:
            a = strip_role(a)
            while isinstance(a, tuple) and a[0] == "call" and a[1] in ("clone", "into") and a[3]:
                a = strip_role(a[3][0])
            arg = strip_role(a[3][-1]) if isinstance(a, tuple) and a[0] == "call" and a[3] else None
            while isinstance(arg, tuple) and arg[0] == "call" and arg[1] in ("clone", "borrow", "deref") and arg[3]:
                arg = strip_role(arg[3][0])
            ok = ok and isinstance(a, tuple) and a[0] == "call" and a[1] in FIND and arg == ("param", pai)
        others = sorted({x.callee.name for sub in cv.all_bodies() for x in sub.calls if x.callee and not sub.blocks[x.bb]["cleanup"] and x.callee.name in ("push", "insert", "find", "get", "borrow_mut", "entry")})
        ctx.check(ok and not others, "find-enode-childwise", "the step applied to a child is find_applied_id of that child's own invocation, on every path",
                  "find_enode's per-child step answers with %s%s: every child handle must be canonicalised for itself — an answer looked up by class id (a memo / cache) carries the ARGUMENTS of another child that refers to the same class" % (" | ".join(role_str(x)[:60] for x in alts), (" and keeps state through " + ", ".join(others)) if others else ""),
                  where_of(cl))
    if n == 0:
        # loop form: for x in node.applied_id_occurrences_mut() { *x = find_applied_id(x) }
        stores = [(bi, s) for bi, si, s in b.statements() if s["k"] == "assign" and s["lhs"]["p"] == ["*"] and not b.blocks[bi]["cleanup"] and "AppliedId" in b.local_ty(s["lhs"]["l"])]
        if not stores:
            raise mir.AnchorMissing("the per-child step of find_enode (closure handed to chain_pn_map, or a loop writing over the children)")
        for bi, s in stores:
            n += 1
            v = strip_role(b.role_of_rvalue(s["rv"]))
            dst = strip_role(b.role_of_local(s["lhs"]["l"]))
            ok = isinstance(v, tuple) and v[0] == "call" and v[1] in FIND and any(strip_role(x) == dst for x in role_walk(v[3][-1]))
            ctx.check(ok, "find-enode-childwise", "each child is overwritten with find_applied_id of itself", "find_enode overwrites a child with %s" % role_str(v)[:100], where_of(b, bi))
    ctx.floor("per-child canonicalisation steps of find_enode", n, 1)


RULES.append(t17)

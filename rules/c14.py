"""C14 — analysis data is the make/merge fixpoint (join-and-propagate discipline)."""
from salib import mir
from salib.mir import role_str, role_walk, strip_role, role_mentions_field, role_mentions_call, role_mentions_param
from salib.runner import rule, where_of
from . import common as C
from . import c02

META = {
    "level": "other",
    "explanation": "Decides the join-and-propagate discipline: every store to a class datum is merge(old, make(node)) or merge(from, to) "
                   "(A1, A2); on the changed edge both the modify queue and the re-queue of parents are fed; the modify queue is drained "
                   "after pending with canonical ids (A3); a new class is seeded from make and queued (A4); the work-list handler "
                   "updates the datum before the analysis-only early return (A5).",
    "not_decided": "that the datum equals the least fixpoint; behaviour of user modify hooks",
    "assumptions": ["Analysis::merge is a semilattice join (the property's own premise)"],
}


def datum_stores_in(crate, b, root=None):
    out = []
    for bi, si, s in b.statements():
        if s["k"] != "assign":
            continue
        if mir.place_has_field(s["lhs"], C.ECLASS, "analysis_data"):
            out.append((root or crate.root_of(b), b, bi, s))
        elif "*" in s["lhs"]["p"] and not [p for p in s["lhs"]["p"] if p != "*"]:
            r = strip_role(b.role_of_local(s["lhs"]["l"]))
            if isinstance(r, tuple) and r[0] == "call" and "analysis_data" in r[1]:
                out.append((root or crate.root_of(b), b, bi, s))
    return out


def datum_stores(crate):
    """[(root body, body, bb, stmt)] for stores to EClass.analysis_data or through a &mut obtained from it"""
    out = []
    for b in crate.bodies.values():
        for bi, si, s in b.statements():
            if s["k"] != "assign":
                continue
            if mir.place_has_field(s["lhs"], C.ECLASS, "analysis_data"):
                out.append((crate.root_of(b), b, bi, s))
            elif "*" in s["lhs"]["p"] and not [p for p in s["lhs"]["p"] if p != "*"]:
                # *ref = value where ref comes from a function returning &mut Data (analysis_data_mut)
                r = strip_role(b.role_of_local(s["lhs"]["l"]))
                if isinstance(r, tuple) and r[0] == "call" and "analysis_data" in r[1]:
                    out.append((crate.root_of(b), b, bi, s))
    return out


def _both_queues_on_change(ctx, crate, b, store_bb, new_role_pred, key, idrole_hint=None, store_stmt=None):
    """find the switch comparing new and old datum; on its 'changed' edge both queues are fed"""
    req = set(C.requeue_functions(crate))
    found = False
    for sb in b.switch_blocks():
        t = b.blocks[sb]["term"]
        r = b.role_of_operand(t["discr"])
        cond_true = C.edge_condition(r, True)
        if cond_true[0] not in ("eq", "ne"):
            continue
        x, y = cond_true[1], cond_true[2]
        if not (role_mentions_call(x, "merge") or role_mentions_call(y, "merge")):
            continue
        found = True
        # the edge on which new != old
        if cond_true[0] == "ne":
            changed = [("e", sb, "otherwise")] if any(v == "0" for v, _ in t["cases"]) else [("e", sb, "1")]
        else:
            changed = [("e", sb, "0")]
        pushes = {c.bb for c in b.calls if c.callee and c.callee.name == "push" and c.args and role_mentions_field(b.role_of_operand(c.args[0]), "modify_queue")}
        rqs = {c.bb for c in b.calls if c.callee and c.callee.target in req}
        # ... of the class whose datum was stored (another class's usages do not count)
        if store_stmt is not None:
            tgt = b.role_of_local(store_stmt["lhs"]["l"]) if store_stmt["lhs"]["p"] and store_stmt["lhs"]["p"][0] == "*" else None
            subs = [strip_role(x) for x in role_walk(tgt)] if tgt is not None else []
            if subs:
                same = set()
                for c in b.calls:
                    if c.callee and c.callee.target in req and len(c.args) > 1:
                        idr = strip_role(b.role_of_operand(c.args[1]))
                        if idr in subs:
                            same.add(c.bb)
                rqs = same
        # the comparison is made whenever the datum is stored: no guard (`if cheap_test && new != old`) lets a path store a new
        # datum and return without asking whether it changed
        ok0 = b.must_pass([0], [store_bb], {sb}) or b.must_pass(b.after(store_bb), b.return_blocks(), {sb})
        ctx.check(ok0, "change-test-unconditional:" + key, "every path that stores a datum in %s also compares it with the old one" % C.short(b.id),
                  "in %s a path stores the joined datum and returns without comparing it with the old one (the change test sits behind another condition): a changed datum is not propagated to the parents and Analysis::modify is not triggered" % C.short(b.id), where_of(b, sb))
        # "changed" means: different from what the class that receives the store held before — the other operand of the comparison is
        # the previous datum of that very class (not of the class merged into it: join(from, to) == from says nothing about `to`)
        if store_stmt is not None:
            def id_args(r):
                out = set()
                for z in role_walk(r):
                    if isinstance(z, tuple) and z[0] == "call" and z[1] in ("analysis_data", "analysis_data_mut", "get", "get_mut", "index", "index_mut") and z[3]:
                        out.add(role_str(strip_role(z[3][-1])))
                return out
            oldop = y if role_mentions_call(x, "merge") else x
            if not role_mentions_call(oldop, "merge"):
                tg = id_args(b.role_of_local(store_stmt["lhs"]["l"]))
                og = id_args(oldop)
                if tg and og:
                    ctx.check(bool(tg & og), "change-test-against-receiver:" + key, "the new datum is compared with the previous datum of the class it is stored in",
                              "in %s the change test compares the joined datum with the datum of %s, but the join is stored in the class %s: whenever the other class had the better datum the join equals it, the test says `unchanged`, and the receiving class's parents keep data computed from its old datum (no re-queue, no modify)" % (C.short(b.id), sorted(og), sorted(tg)),
                              where_of(b, sb))
        ok1 = bool(pushes) and b.must_pass(changed, b.return_blocks(), pushes)
        ok2 = bool(rqs) and b.must_pass(changed, b.return_blocks(), rqs)
        ctx.check(ok1, "modify-queue-on-change:" + key, "when the datum changed the class is pushed to modify_queue",
                  "in %s the datum can change without the class being pushed to EGraph.modify_queue (Analysis::modify never sees the new datum)" % C.short(b.id), where_of(b, sb))
        ctx.check(ok2, "parents-on-change:" + key, "when the datum changed the class's usages are re-queued",
                  "in %s the datum can change without the class's parent e-nodes being re-queued: their data is computed from a stale child datum" % C.short(b.id), where_of(b, sb))
    ctx.check(found, "change-test:" + key, "the new datum is compared with the old one",
              "%s stores a merged datum but never compares it with the old one (no change propagation)" % C.short(b.id), where_of(b))


@rule("A1", doc="datum update = merge(old, make(node)); on change both queues")
def a1(ctx):
    crate = ctx.lib()
    stores = datum_stores(crate)
    ctx.roleset("datum-writers", sorted({r.id for r, _, _, _ in stores}))
    ctx.floor("datum stores", len(stores), 2)
    n_make = 0
    for root, b, bi, s in stores:
        r = b.role_of_rvalue(s["rv"])
        sr = strip_role(r)
        is_merge = isinstance(sr, tuple) and sr[0] == "call" and sr[1] == "merge" and len(sr[3]) == 2
        key = C.fkey(root)
        if not ctx.check(is_merge, "store-is-merge:" + key, "datum stored in %s is Analysis::merge(..): %s" % (C.short(root.id), role_str(r)[:160]),
                         "%s stores %s into EClass.analysis_data — not a join of the old datum with new information; information already accumulated is overwritten" % (C.short(root.id), role_str(r)[:200]),
                         where_of(b, bi, s.get("line"))):
            continue
        a0, a1_ = sr[3]
        old_ok = any(role_mentions_field(x, "analysis_data") or role_mentions_call(x, "analysis_data") or role_mentions_call(x, "analysis_data_mut") for x in (a0, a1_))
        ctx.check(old_ok, "merge-uses-old:" + key, "one operand of the merge is the class's current datum",
                  "the merge in %s does not take the class's current datum as an operand: %s" % (C.short(root.id), role_str(sr)), where_of(b, bi, s.get("line")))
        if role_mentions_call(sr, "make"):
            n_make += 1
            _both_queues_on_change(ctx, crate, b, bi, None, key, store_stmt=s)
            # the update is unconditional: every path through the updater stores merge(old, make(node)).  ("The node is about to be
            # re-canonicalised anyway" is no reason to skip — that one run on the old shape is the only time the parent of a
            # merged-away class sees the survivor's datum)
            if b is root:
                ctx.check(root.must_pass([0], root.return_blocks(), {bi}), "update-unconditional:" + key, "every path through %s re-makes and joins the datum" % C.short(root.id),
                          "%s can return without re-making the datum of the handled e-node: a parent whose child class was merged into a class with a different datum keeps the value computed from the dead child's old datum (datum != join of make over the e-nodes; modify is never triggered)" % C.short(root.id),
                          where_of(root))
            # make() is applied to the e-node this update is about: the node parameter of the updater, not some other node of the class
            node_params = [root.var_names.get(l) for l in range(1, root.argc + 1) if root.local_ty(l).lstrip("&").strip() == "L"]
            for x in role_walk(sr):
                if isinstance(x, tuple) and x[0] == "call" and x[1] == "make" and len(x[3]) >= 2:
                    arg = x[3][-1]
                    ok_n = any(role_mentions_param(arg, p_) for p_ in node_params if p_) and not role_mentions_field(arg, "syn_enode") and not role_mentions_field(arg, "nodes")
                    ctx.check(ok_n, "make-of-the-handled-node:" + key, "the datum is re-made from the e-node the update was requested for",
                              "%s re-makes the datum from %s instead of the e-node it was called for: the class's datum stops being the join over ALL its e-nodes (nodes added by a union or by congruence never contribute)" % (C.short(root.id), role_str(arg)[:80]),
                              where_of(b, bi, s.get("line")))
    ctx.floor("merge(old, make(node)) updaters", n_make, 1)


@rule("A2", doc="class merge joins both data into the survivor; on change both queues")
def a2(ctx):
    crate = ctx.lib()
    stores = datum_stores(crate)
    reg = C.merge_region(crate)
    members = set(reg["members"])
    tops = set(reg["entries"])
    C.need("merge core", reg["core"])
    C.need("merge entries", reg["entries"])
    ufs = set(C.uf_setters(crate))
    # the deprecated side, in terms of the entry's parameters
    dep_top = set()
    for cid in reg["core"]:
        cb = crate.bodies[cid]
        for c in C.calls_to(crate, cb, ufs):
            idr = strip_role(cb.role_of_operand(c.args[1]))
            if idr[0] == "field" and idr[1][0] == "param":
                dep_top |= C.lift_param(crate, cid, idr[1][1], tops)
    n = 0
    # look at the merge entries with their single-use helpers inlined (the analysis part may live in a helper that
    # gets the two ids as plain parameters); stores in other members are taken as they are
    views = [mir.inline_view(crate, crate.bodies[t], keep=("analysis_data", "analysis_data_mut", "touched_class")) for t in sorted(tops)]
    covered = {t for v in views for t in getattr(v, "inlined", [])} | set(tops)
    stores2 = []
    for v in views:
        stores2 += datum_stores_in(crate, v, root=crate.bodies[v.id])
    stores2 += [x for x in stores if x[0].id in members and x[0].id not in covered]
    for root, b, bi, s in stores2:
        n += 1
        sr = strip_role(b.role_of_rvalue(s["rv"]))
        key = C.fkey(root)
        if not (isinstance(sr, tuple) and sr[0] == "call" and sr[1] == "merge"):
            continue
        ps = set()
        for x in role_walk(sr):
            if isinstance(x, tuple) and x[0] == "field" and x[2] == "id" and x[1][0] == "param":
                ps.add(x[1][1])
        ctx.check(len(ps) >= 2, "joins-both-sides:" + key, "merged datum depends on both classes' data (%s)" % sorted(ps),
                  "the datum stored on a class merge depends only on %s: the other class's datum is lost" % sorted(ps), where_of(b, bi, s.get("line")))
        # stored into the survivor: the place written derives from the datum of a parameter that is not the deprecated side
        tgt = strip_role(b.role_of_local(s["lhs"]["l"]))
        tps = {x[1][1] for x in role_walk(tgt) if isinstance(x, tuple) and x[0] == "field" and x[2] == "id" and x[1][0] == "param"}
        lifted = set()
        for p in tps:
            lifted |= C.lift_param(crate, root.id, p, tops)
        surv_ok = bool(lifted) and not (lifted & dep_top) and bool(dep_top)
        ctx.check(surv_ok, "stored-in-survivor:" + key, "the joined datum is stored in the surviving class (deprecated side: %s)" % sorted(p for _, p in dep_top),
                  "the joined datum is stored through %s (bound to %s), which is not the surviving class's datum (the class whose union-find entry is redirected is %s)" % (role_str(tgt)[:80], sorted(lifted), sorted(dep_top)), where_of(b, bi, s.get("line")))
        _both_queues_on_change(ctx, crate, b, bi, None, key, store_stmt=s)
        # the deprecated class's datum is read while the class still answers for itself: the canonicalising accessor
        # (analysis_data goes through find_id) returns the SURVIVOR's datum once the union-find entry has been redirected, and the
        # join degenerates to merge(survivor, survivor)
        reads = [c for c in b.calls if c.callee and c.callee.name in ("analysis_data", "analysis_data_mut") and not b.blocks[c.bb]["cleanup"] and len(c.args) > 1]
        sets = [c for c in C.calls_to(crate, b, ufs) if c.body is b]
        for c in reads:
            late = [u for u in sets if c.bb in b.reach(b.after(u.bb))]
            ctx.check(not late, "datum-read-before-redirect:" + key, "the data of both classes are read before the union-find entry of the deprecated class is redirected",
                      "%s reads a class's datum through the canonicalising accessor after the union-find entry of the deprecated class was redirected: for the deprecated id the accessor now answers with the survivor's datum, so the merge joins the survivor with itself and the absorbed class's information is lost" % C.short(b.id),
                      where_of(b, c.bb))
    ctx.floor("datum stores in the merge region", n, 1)


@rule("A3", doc="modify queue drained after pending, with canonical ids")
def a3(ctx):
    crate = ctx.lib()
    pd = set(C.need("pending drain", C.drain_functions(crate)))
    md = C.need("modify drain (calls N::modify)", C.modify_drain_functions(crate))
    roots = C.need("rebuild root", C.rebuild_roots(crate))
    nmods = 0

    def pending_empty_witness(b):
        wit = []
        for sb in b.switch_blocks():
            t = b.blocks[sb]["term"]
            r = b.role_of_operand(t["discr"])
            if r[0] == "discr":
                inner = strip_role(r[1])
                if isinstance(inner, tuple) and inner[0] == "call" and inner[1] == "next" and role_mentions_field(inner, "pending"):
                    wit += C.variant_edges(b, sb, 0)
                # `next()?` (the work-list wrapped in a type of its own with a pop() method): the Break arm of Try::branch is the None
                if isinstance(inner, tuple) and inner[0] == "call" and inner[1] == "branch" and inner[3]:
                    i2 = strip_role(inner[3][0])
                    if isinstance(i2, tuple) and i2[0] == "call" and i2[1] == "next" and role_mentions_field(i2, "pending"):
                        wit += C.variant_edges(b, sb, 1)
        return wit
    for did in md:
        b = crate.bodies[did]
        mods = [c for c in b.calls if c.callee and c.callee.name == "modify" and (c.callee.trait or "").endswith("Analysis")]
        nmods += len(mods)
        for c in mods:
            idr = b.role_of_operand(c.args[1])
            ok = role_mentions_call(idr, "find_id") or role_mentions_call(idr, "find_applied_id")
            ctx.check(ok, "modify-gets-canonical-id:" + C.fkey(b), "N::modify is called with find_id(popped id)",
                      "N::modify is called with %s: a class merged away while queued is handed to the hook as a dead id" % role_str(idr), where_of(b, c.bb))
            src = role_mentions_call(idr, "pop") and role_mentions_field(idr, "modify_queue")
            ctx.check(src, "modify-from-queue:" + C.fkey(b), "the id handed to N::modify comes from modify_queue.pop()",
                      "the id handed to N::modify (%s) does not come from the modify queue" % role_str(idr), where_of(b, c.bb))
            if did in pd:
                # after pending: dominated by the pending-empty witness in the same function
                wit = pending_empty_witness(b)
                ctx.check(bool(wit) and b.dominated_by(c.bb, wit), "modify-after-pending:" + C.fkey(b), "N::modify runs only after the pending loop is empty",
                          "N::modify can run while EGraph.pending is non-empty (invariants not yet rebuilt)", where_of(b, c.bb))
        if did not in pd:
            # the loops were split: every call of the modify drain comes after the pending drain (or its witness) in the caller
            for caller in crate.fns():
                for c in C.calls_to(crate, caller, {did}):
                    if c.body is not caller:
                        continue
                    before = pending_empty_witness(caller) + [x.bb for x in C.calls_to(crate, caller, pd) if x.body is caller]
                    ctx.check(bool(before) and caller.dominated_by(c.bb, before), "modify-after-pending:" + C.fkey(caller), "the modify drain is called only after the pending drain",
                              "%s calls the modify drain %s on a path where EGraph.pending has not been drained (invariants not yet rebuilt when the hook runs)" % (C.short(caller.id), C.short(did)), where_of(caller, c.bb))
    ctx.floor("N::modify call sites in the drain", nmods, 1)
    c02.p3(ctx)


@rule("A4", doc="a new class is seeded from make and queued")
def a4(ctx):
    crate = ctx.lib()
    from .c09 import class_allocators
    n = 0
    for aid in C.need("class allocator", class_allocators(crate)):
        b = crate.bodies[aid]
        for bi, si, s in b.statements():
            rv = s["rv"] if s["k"] == "assign" else None
            if rv and rv["k"] == "agg" and str(rv.get("adt", "")).endswith("EClass"):
                n += 1
                f = rv["fields"]
                r = b.role_of_operand(rv["ops"][f.index("analysis_data")])
                ok = role_mentions_call(r, "make")
                ctx.check(ok, "seed-from-make:" + C.fkey(b), "a new class's datum is N::make(syn_enode)",
                          "a new class's datum is %s, not N::make of its e-node" % role_str(r), where_of(b, bi, s.get("line")))
    ctx.floor("EClass constructions", n, 1)
    # the singleton path queues the node (Full) and the class
    al = set(class_allocators(crate))
    hw = set(C.hashcons_writers(crate))
    m = 0
    for b in crate.fns():
        if b.id in al:
            continue
        if C.calls_to(crate, b, al) and C.calls_to(crate, b, hw):
            m += 1
            ins = [c for c in b.calls if c.callee and c.callee.name == "insert" and c.args and role_mentions_field(b.role_of_operand(c.args[0]), "pending")]
            # (the request kind is the constant Full itself — not `if .. { Full } else { OnlyAnalysis }`: the full pass of a new node is
            # what derives its self-symmetries, e.g. for a parent over differently permuted invocations of a symmetric class)
            def _is_full(r_):
                r_ = strip_role(r_)
                return isinstance(r_, tuple) and r_[0] == "agg" and str(r_[1]).endswith("PendingType::Full") and not r_[2]
            full = [c for c in ins if len(c.args) >= 3 and _is_full(b.role_of_operand(c.args[-1]))]
            push = [c for c in b.calls if c.callee and c.callee.name == "push" and c.args and role_mentions_field(b.role_of_operand(c.args[0]), "modify_queue")]
            ctx.check(bool(full) and b.must_pass([0], b.return_blocks(), {c.bb for c in full}), "singleton-queued-full:" + C.fkey(b),
                      "the first node of a new class is queued with PendingType::Full",
                      "%s inserts the first node of a new class without queuing it with PendingType::Full" % C.short(b.id), where_of(b))
            ctx.check(bool(push) and b.must_pass([0], b.return_blocks(), {c.bb for c in push}), "singleton-modify-queued:" + C.fkey(b),
                      "the new class is pushed to the modify queue", "%s does not push the new class to modify_queue: N::modify never runs for it" % C.short(b.id), where_of(b))
    ctx.floor("singleton-class constructors", m, 1)


@rule("A5", doc="the work-list handler updates the datum before the analysis-only early return")
def a5(ctx):
    crate = ctx.lib()
    wl = C.Worklist(crate)
    updaters = set()
    for root, b, bi, s in datum_stores(crate):
        sr = strip_role(b.role_of_rvalue(s["rv"]))
        if role_mentions_call(sr, "make"):
            updaters.add(root.id)
    C.need("datum updater", sorted(updaters))
    ctx.roleset("datum-updater", sorted(updaters))
    for hid in C.need("handler", c02._handlers(crate, wl)):
        h = crate.bodies[hid]
        ub = {c.bb for c in h.calls if c.callee and c.callee.target in updaters}
        ok = bool(ub) and h.must_pass([0], h.return_blocks(), ub)
        ctx.check(ok, "handler-updates-datum:" + C.fkey(h), "every path through %s (including the OnlyAnalysis early return) updates the datum" % C.short(hid),
                  "a path through the work-list handler %s returns without calling the datum updater — an e-node queued for analysis-only is dropped" % C.short(hid), where_of(h))
        # the updater gets the node's own class
        for c in h.calls:
            if c.callee and c.callee.target in updaters:
                r = h.role_of_operand(c.args[2]) if len(c.args) > 2 else None
                ok2 = r is not None and role_mentions_field(r, "hashcons")
                ctx.check(ok2, "updater-gets-owning-class:" + C.fkey(h), "the datum updater is called with hashcons[sh], the node's class",
                          "the datum updater is called with %s, not the class that holds the e-node" % role_str(r), where_of(h, c.bb))


RULES = [a1, a2, a3, a4, a5]


@rule("A6", doc="equal classes share one datum: the public accessors go through the canonical id")
def a6(ctx):
    crate = ctx.lib()
    n = 0
    for name in ("analysis_data", "analysis_data_mut"):
        for b in crate.method("egraph::EGraph", name):
            n += 1
            idx = [c for c in b.calls if c.callee and c.callee.name in ("index", "get", "get_mut", "index_mut") and c.args and role_mentions_field(b.role_of_operand(c.args[0]), "classes") and not b.blocks[c.bb]["cleanup"]]
            ok = bool(idx) and all(role_mentions_call(b.role_of_operand(c.args[1]), "find_id") or role_mentions_call(b.role_of_operand(c.args[1]), "find_applied_id") for c in idx)
            ctx.check(ok, "canonical-id:" + name, "%s indexes classes by find_id(i)" % name,
                      "%s reads the datum of the class record of the id as given: after a merge an old handle sees a stale datum, so equal classes do not share one datum" % name, where_of(b))
            r = b.role_of_local(0)
            ctx.check(role_mentions_field(r, "analysis_data"), "returns-datum:" + name, "%s returns the class's analysis_data" % name, "%s returns %s" % (name, role_str(r)[:80]), where_of(b))
    ctx.floor("datum accessors", n, 2)


RULES.append(a6)


@rule("A6b", doc="analysis data is read through the canonical class: find_id chases the whole union-find chain (shared with C13.T10)")
def a6b(ctx):
    from . import c13
    c13.t10(ctx)


RULES.append(a6b)


@rule("MC", doc="must-call census: no function of this property's files has gained an early exit in front of work it always did (every crate-local call that lay on all paths to a normal return in the reviewed tree still does)")
def mc(ctx):
    C.must_call_census(ctx, ctx.lib(), ['src/egraph/analysis.rs', 'src/egraph/rebuild.rs', 'src/egraph/union.rs', 'src/egraph/add.rs', 'src/egraph/find.rs'])


RULES.append(mc)


@rule("A7", doc="on a class merge every e-node of the absorbed class is moved and queued for re-processing — unconditionally: re-processing the moved node in its new class is what joins make(node) into the survivor's datum (C12.O1)")
def a7(ctx):
    from . import c12
    c12.o1(ctx)


RULES.append(a7)


@rule("A8", doc="a request to re-process a parent is never weakened: the re-queue joins the stored and the new request with PendingType::merge, whose table has Full on top (C02.P4) — `entry().or_insert(ty)` alone lets an earlier analysis-only request swallow a later structural one, and the parent keeps a datum computed from a class that no longer exists")
def a8(ctx):
    from . import c02
    c02.p4(ctx)


RULES.append(a8)

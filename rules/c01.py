"""C01 — equality is sound.  Structural necessary conditions, see DESIGN.md §4/C01."""
from salib import mir
from salib.mir import role_str, role_walk, strip_role, role_mentions_call, role_mentions_field, role_mentions_param
from salib.runner import rule, where_of
from . import common as C

META = {
    "level": "other",
    "explanation": "Decides the structural gates of equality: eq() can answer true only through the class-group "
                   "membership test behind the id and slot-set guards on canonicalised operands (R1); a class loses slots "
                   "only in the slot-set writer, whose cap is an intersection of both sides of an equation (R2); a "
                   "permutation is added only in the same-class branch and a merge happens only in the different-class branch, "
                   "both after the slot sets agree (R3); the union-find edge written on merge names the survivor and depends on "
                   "both sides' maps with the inverse on the deprecated side (R4).",
    "not_decided": "soundness of the computed slot maps as values; group algebra (C10); shapes (C11/C16)",
    "assumptions": ["MIR of generic bodies stands for all instantiations; user Language/Analysis impls obey their trait contracts"],
}


def _is_find_of(role, param):
    """role == find_applied_id(self, <param>) (possibly wrapped)"""
    r = strip_role(role)
    return isinstance(r, tuple) and r[0] == "call" and r[1] == "find_applied_id" and len(r[3]) == 2 and strip_role(r[3][1]) == ("param", param)


def _field_of_find(role, field, param):
    r = strip_role(role)
    return isinstance(r, tuple) and r[0] == "field" and r[2] == field and _is_find_of(r[1], param)


@rule("R1", doc="eq-gate: true only via Group::contains behind id and value-set guards on canonical operands")
def r1(ctx):
    crate = ctx.lib()
    eq0 = crate.one("egraph::EGraph", "eq")
    eq = C.unwrap_delegation(crate, eq0)
    ctx.roleset("eq-body", [eq.id])
    params = [eq.var_names.get(i) for i in range(2, eq.argc + 1)]
    if len(params) != 2:
        raise mir.AnchorMissing("EGraph::eq", "expected two operands, found %s" % params)
    pa, pb = params
    # (1) every value reaching the return place is `false` or the result of Group::contains on a class group
    defs = eq.defs().get(0, [])
    contains_sites = []
    for d in defs:
        w = where_of(eq, d["bb"], d.get("line"))
        if d["kind"] == "assign":
            r = eq.role_of_rvalue(d["rv"])
            ctx.check(r == ("const", "false"), "ret-value:%s" % role_str(r)[:60],
                      "return value is the constant false", "eq() returns %s which is neither `false` nor a group membership test" % role_str(r), w)
        else:
            c = d["call"]
            if c.callee and c.callee.is_("contains", "group::Group"):
                contains_sites.append(c)
                ctx.ok("ret-value:contains", "return value is Group::contains(..)", w)
            else:
                ctx.bad("ret-value:call:%s" % (c.callee.target if c.callee else "indirect"),
                        "eq() returns the result of %s, not of the class-group membership test" % (c.callee.target if c.callee else "an indirect call"), w)
    if not ctx.floor("contains-sites", len(contains_sites), 1):
        return
    for c in contains_sites:
        w = where_of(eq, c.bb)
        recv = eq.role_of_operand(c.args[0])
        perm = eq.role_of_operand(c.args[1])
        # (2) receiver is classes[X.id].group with X canonical
        rr = strip_role(recv)
        ok_recv = False
        idrole = None
        if isinstance(rr, tuple) and rr[0] == "field" and rr[2] == "group":
            inner = strip_role(rr[1])
            if isinstance(inner, tuple) and inner[0] == "call" and inner[1] in ("index", "get") and role_mentions_field(inner[3][0], "classes"):
                idrole = strip_role(inner[3][1])
                ok_recv = _field_of_find(idrole, "id", pa) or _field_of_find(idrole, "id", pb)
        ctx.check(ok_recv, "contains-receiver", "membership is asked of classes[find(x).id].group: %s" % role_str(recv),
                  "the group asked is %s, not the group of the canonicalised operand's class" % role_str(recv), w)
        # (3) permutation depends on both canonical operands' maps
        dep_a = any(_field_of_find(x, "m", pa) for x in role_walk(perm))
        dep_b = any(_field_of_find(x, "m", pb) for x in role_walk(perm))
        ctx.check(dep_a and dep_b, "perm-depends-both", "queried permutation depends on find(a).m and find(b).m: %s" % role_str(perm),
                  "queried permutation %s does not depend on both canonicalised operands' maps" % role_str(perm), w)
        # (3b) orientation: perm = X.m ; Y.m^-1  (slots of the class -> slots of the class), not X.m^-1 ; Y.m (names -> names)
        pr = strip_role(perm)
        shape_ok = False
        if isinstance(pr, tuple) and pr[0] == "call" and pr[1] in ("compose", "compose_partial") and len(pr[3]) == 2:
            x, y = strip_role(pr[3][0]), strip_role(pr[3][1])
            if isinstance(y, tuple) and y[0] == "call" and y[1] == "inverse" and y[3]:
                yy = strip_role(y[3][0])
                shape_ok = (_field_of_find(x, "m", pa) and _field_of_find(yy, "m", pb)) or (_field_of_find(x, "m", pb) and _field_of_find(yy, "m", pa))
        ctx.check(shape_ok, "perm-is-class-permutation", "the queried permutation is find(x).m ; find(y).m^-1 — a permutation of the class's own slots",
                  "the permutation asked of the class group is %s; it must be find(a).m.compose(find(b).m.inverse()) (class slots -> names -> class slots). The other way round it permutes the *names* and is meaningless to the group" % role_str(perm), w)
        # (4) guards
        conds = C.conditions_at(eq, c.bb)
        id_guard = False
        val_guard = False
        for e, cond in conds:
            if cond[0] == "eq":
                x, y = cond[1], cond[2]
                if C.roles_pair_match(x, y, lambda r: _field_of_find(r, "id", pa), lambda r: _field_of_find(r, "id", pb)):
                    id_guard = True

                def vals_of(r, p):
                    r = strip_role(r)
                    return isinstance(r, tuple) and r[0] == "call" and r[1] in ("values", "slots") and any(_is_find_of(x, p) or _field_of_find(x, "m", p) for x in role_walk(r))
                if C.roles_pair_match(x, y, lambda r: vals_of(r, pa), lambda r: vals_of(r, pb)):
                    val_guard = True
        ctx.check(id_guard, "id-guard", "membership test is dominated by find(a).id == find(b).id",
                  "the membership test is reachable without find(a).id == find(b).id having been established (two different classes can compare equal)", w,
                  sample=[(str(e), cond[0], [role_str(x) for x in cond[1:]]) for e, cond in conds])
        ctx.check(val_guard, "value-set-guard", "membership test is dominated by values(find(a).m) == values(find(b).m)",
                  "the membership test is reachable without the two invocations' slot sets having been compared (c[x,y] vs c[x,z] sifts a partial map)", w,
                  sample=[(str(e), cond[0], [role_str(x) for x in cond[1:]]) for e, cond in conds])


@rule("R2", doc="slot-set writer: single role, cap is an intersection of both sides")
def r2(ctx):
    crate = ctx.lib()
    sw = C.slot_writers(crate)
    ctx.roleset("W_slots", sw)
    if not ctx.floor("W_slots", len(sw), 1):
        return
    nsites = 0
    for wid in sw:
        wb = crate.bodies[wid]
        # which parameter does the stored value come from?
        stores = [x for x in crate.field_writers(C.ECLASS, "slots")[wid] if x[2] == "store"]
        params_used = set()
        for (b, bb, kind, line) in stores:
            for bi, si, s in b.statements():
                if bi == bb and s["k"] == "assign" and mir.place_has_field(s["lhs"], C.ECLASS, "slots"):
                    r = b.role_of_rvalue(s["rv"])
                    for x in role_walk(r):
                        if isinstance(x, tuple) and x[0] == "param" and x[1] not in ("self", "_closure"):
                            params_used.add(x[1])
                    ctx.info("stored slot set in %s: %s" % (C.short(wid), role_str(r)))
        # candidates: parameters of set type
        set_params = [wb.var_names.get(i) for i in range(1, wb.argc + 1) if "VecSet" in wb.local_ty(i)]
        capp = [p for p in set_params if p in params_used]
        if not ctx.check(len(capp) >= 1, "writer-param:" + C.fkey(wb), "stored slot set flows from parameter(s) %s of %s" % (capp, C.short(wid)),
                         "the slot set stored in %s does not flow from a set-typed parameter (%s)" % (C.short(wid), set_params), where_of(wb)):
            continue
        # every call site passes an intersection
        for caller in crate.fns():
            for c in C.calls_to(crate, caller, {wid}):
                nsites += 1
                for p in capp:
                    idx = wb.param_index(p)
                    arg = c.args[idx - 1]
                    r = c.body.role_of_operand(arg)
                    inter = [x for x in role_walk(r) if isinstance(x, tuple) and x[0] == "call" and x[1] == "bitand" and len(x[3]) == 2]
                    good = False
                    for x in inter:
                        a, b = strip_role(x[3][0]), strip_role(x[3][1])
                        if a != b:
                            good = True
                    ordn = sum(1 for cc in C.calls_to(crate, caller, {wid}) if cc.bb < c.bb)
                    ctx.check(good, "cap-is-intersection:%s:%d" % (C.fkey(caller), ordn),
                              "cap passed to the slot-set writer is an intersection of two different slot sets: %s" % role_str(r),
                              "the new slot set passed to %s is %s — not an intersection of both sides' slot sets; a class may drop a slot its terms depend on" % (C.short(wid), role_str(r)),
                              where_of(c.body, c.bb))
    ctx.floor("slot-writer call sites", nsites, 2)


@rule("R3", doc="leader union: add-permutation only if same class, merge only if different class, both after slot sets agree")
def r3(ctx):
    crate = ctx.lib()
    leaders = C.need("leader-union", C.leader_union_functions(crate))
    C.need("merge", C.merge_functions(crate))
    merges = set(C.need("merge entry (called from the leader union)", C.merge_region(crate)["entries"]))
    sw = set(C.slot_writers(crate))
    ctx.roleset("leader-union", leaders)
    ctx.roleset("merge-entries", sorted(merges))
    n_add = n_merge = 0

    def classify(conds):
        ids_eq = ids_ne = False
        slots_agree = 0
        for cond in conds:
            if cond[0] in ("eq", "ne"):
                x, y = strip_role(cond[1]), strip_role(cond[2])
                if isinstance(x, tuple) and isinstance(y, tuple) and x[0] == "field" and y[0] == "field" and x[2] == "id" and y[2] == "id" and x[1] != y[1]:
                    if cond[0] == "eq":
                        ids_eq = True
                    else:
                        ids_ne = True
                if cond[0] == "eq":
                    if (role_mentions_call(x, "slots") and role_mentions_call(y, "bitand")) or (role_mentions_call(y, "slots") and role_mentions_call(x, "bitand")):
                        slots_agree += 1
        return ids_eq, ids_ne, slots_agree

    for n, site in enumerate(C.leader_add_sites(crate)):
        c, fb = site["call"], site["body"]
        ids_eq, ids_ne, slots_agree = classify(site["conds"])
        key = "%s:add:%d" % (C.fkey(site["leader"]), n)
        w = where_of(fb, c.bb)
        n_add += 1
        ctx.check(ids_eq and not ids_ne, "add-needs-same-class:" + key, "Group::add is dominated by l.id == r.id",
                  "a permutation is added to a class group without l.id == r.id having been established", w)
        ctx.check(slots_agree >= 2, "after-slot-agreement:" + key, "add happens only after both slots()==cap tests passed",
                  "add is reachable while one side still has a slot the other lacks (only %d of the 2 slot-set agreement guards dominate it)" % slots_agree, w)
    for lid in leaders:
        lb = crate.bodies[lid]
        for n, c in enumerate(C.calls_to(crate, lb, merges)):
            ids_eq, ids_ne, slots_agree = classify([cond for e, cond in C.conditions_at(c.body, c.bb)])
            key = "%s:merge:%d" % (C.fkey(lb), n)
            w = where_of(c.body, c.bb)
            n_merge += 1
            ctx.check(ids_ne and not ids_eq, "merge-needs-different-class:" + key, "merge is dominated by l.id != r.id",
                      "the merge function is called without l.id != r.id having been established", w)
            ctx.check(slots_agree >= 2, "after-slot-agreement:" + key, "merge happens only after both slots()==cap tests passed",
                      "merge is reachable while one side still has a slot the other lacks (only %d of the 2 slot-set agreement guards dominate it)" % slots_agree, w)
    ctx.floor("Group::add sites in leader union", n_add, 1)
    ctx.floor("merge call sites in leader union", n_merge, 2)


@rule("R4", doc="merge edge: uf[from] := to-side id with a map depending on both sides, inverse on the deprecated side")
def r4(ctx):
    crate = ctx.lib()
    merges = C.need("merge", C.merge_functions(crate))
    ufs = set(C.need("uf-setter", C.uf_setters(crate)))
    n = 0
    for mid in merges:
        mb = crate.bodies[mid]
        for c in C.calls_to(crate, mb, ufs):
            n += 1
            w = where_of(c.body, c.bb)
            idr = strip_role(c.body.role_of_operand(c.args[1]))
            val = c.body.role_of_operand(c.args[2])
            if not (isinstance(idr, tuple) and idr[0] == "field" and idr[2] == "id" and idr[1][0] == "param"):
                ctx.bad("uf-key-shape:" + C.fkey(mb), "union-find key in the merge function is %s, not <param>.id" % role_str(idr), w)
                continue
            dep = idr[1][1]
            # surviving id
            surv = None
            for x in role_walk(val):
                if isinstance(x, tuple) and x[0] == "field" and x[2] == "id" and x[1][0] == "param" and x[1][1] != dep:
                    surv = x[1][1]
            ctx.check(surv is not None, "edge-names-survivor:" + C.fkey(mb), "uf[%s.id] points to %s.id" % (dep, surv),
                      "the union-find entry written for %s.id does not name the other side's id: %s" % (dep, role_str(val)), w)
            if surv is None:
                continue
            m_dep = any(x == ("field", ("param", dep), "m") for x in role_walk(val))
            m_surv = any(x == ("field", ("param", surv), "m") for x in role_walk(val))
            ctx.check(m_dep and m_surv, "edge-map-depends-both:" + C.fkey(mb), "edge map depends on %s.m and %s.m" % (dep, surv),
                      "the slot map of the union-find edge does not depend on both sides' maps: %s" % role_str(val), w)
            inv_on = set()
            for x in role_walk(val):
                if isinstance(x, tuple) and x[0] == "call" and x[1] == "inverse" and x[3]:
                    a = strip_role(x[3][0])
                    if isinstance(a, tuple) and a[0] == "field" and a[2] == "m" and a[1][0] == "param":
                        inv_on.add(a[1][1])
            ctx.check(inv_on == {dep}, "inverse-on-deprecated-side:" + C.fkey(mb), "inverse is applied to the deprecated side's map only (%s)" % dep,
                      "edge map %s applies inverse to %s; uf[%s] must be survivor.m ; %s.m^-1 (slots(survivor) -> slots(deprecated))" % (role_str(val), sorted(inv_on), dep, dep), w)
    ctx.floor("uf-setter calls in merge", n, 1)


RULES = [r1, r2, r3, r4]


def canonical_variant_functions(crate):
    """functions that pick the minimum over group-compatible variants keyed on a weak shape
    (today: proven_proven_pre_shape)"""
    out = []
    for b in crate.fns():
        mins = [c for c in b.all_calls() if c.callee and c.callee.name in ("min_by_key", "min_by", "min")]
        if not mins:
            # the minimum written as a loop: an order comparison between two keys that both come from weak shapes
            mins = [c for c in b.all_calls() if c.callee and c.callee.name in ("lt", "le", "gt", "ge", "cmp", "partial_cmp") and len(c.args) == 2
                    and all(role_mentions_call(c.body.role_of_operand(a), "weak_shape") for a in c.args)]
        if not mins:
            continue
        ws = [c for c in b.all_calls() if c.callee and c.callee.name == "weak_shape"]
        var = [c for c in b.all_calls() if c.callee and "variants" in (c.callee.name or "")]
        if var:
            out.append(b.id)
    return sorted(out)


@rule("R5", doc="congruence alignment: a 'found' ProvenContains carries the canonical variant of its node")
def r5(ctx):
    crate = ctx.lib()
    cv = set(C.need("canonical-variant", canonical_variant_functions(crate)))
    ctx.roleset("canonical-variant", sorted(cv))
    reach_cv = {b.id for b in crate.fns() if cv & crate.reachable_from([b.id], resolve_traits=False)}
    # the positional aligner: two weak_shape calls whose bijections are composed (match_pcs)
    aligners = []
    for b in crate.fns():
        ws = [c for c in b.calls if c.callee and c.callee.name == "weak_shape"]
        comp = [c for c in b.calls if c.callee and c.callee.name in ("compose_fresh", "compose", "compose_partial")
                and any(role_mentions_call(b.role_of_operand(a), "weak_shape") for a in c.args)]
        pcs = [l for l in range(1, b.argc + 1) if "ProvenContains" in b.local_ty(l)]
        if len(ws) >= 2 and comp and len(pcs) >= 2:
            aligners.append(b.id)
    C.need("positional aligner (match_pcs)", aligners)
    ctx.roleset("positional-aligner", aligners)
    n = 0
    for b in crate.fns():
        for bi, si, s in b.statements():
            rv = s["rv"] if s["k"] == "assign" else None
            if not rv or rv["k"] != "agg" or not str(rv.get("adt", "")).endswith("ProvenContains"):
                continue
            fields = rv.get("fields", [])
            if "pai" not in fields or "node" not in fields:
                continue
            pai = b.role_of_operand(rv["ops"][fields.index("pai")])
            node = b.role_of_operand(rv["ops"][fields.index("node")])
            sp = strip_role(pai)
            if not (isinstance(sp, tuple) and sp[0] == "call" and "find_applied_id" in sp[1]):
                continue
            n += 1
            sn = strip_role(node)
            ok = False
            if isinstance(sn, tuple) and sn[0] == "call":
                site = b.call_at.get(sn[4])
                tgt = site.callee.target if site and site.callee else None
                ok = tgt in reach_cv
            ctx.check(ok, "found-pc-is-canonical:" + C.fkey(b),
                      "the up-to-date ProvenContains pairs find(pai) with the canonical group variant of its node: %s" % role_str(node),
                      "in %s an up-to-date ProvenContains is built with node = %s, which is not the canonical (minimal weak-shape) group variant; the congruence step aligns two such nodes position by position, so two nodes of equal strong but different weak shape get a wrongly permuted slot map (unsound union)" % (C.short(b.id), role_str(node)),
                      where_of(b, bi, s.get("line")))
    ctx.floor("found-ProvenContains constructions", n, 1)


RULES.append(r5)


@rule("ST", doc="slot-space typing: no slot map of one class's slots is used where another class's slots are required")
def st(ctx):
    from salib import spaces
    from . import c02
    crate = ctx.lib()
    ins, rem = c02._hc_split(crate)
    tot = dec = 0
    nfun = 0
    pol_ = mir.default_inline_policy(crate)
    acc_ = crate._cache.get("accessor_policy", set())
    roots_ = {rb.id for rb, _ in C.self_symmetry_sites(crate)}       # the self-symmetry deriver stays a unit of its own
    for b in crate.fns():
        if not (b.file or "").startswith("src/"):
            continue
        # the proof checker (src/explain) relates invocations whose class ids are equal by the proof's own shape (the middle
        # term of a transitivity step ...) — those equalities are not visible as `a.id == b.id` tests, and nothing there
        # can change what eq() answers: outside the scope of this rule
        if (b.file or "").startswith("src/explain/"):
            continue
        # a private helper with a single call site is typed inside its caller (its parameters are then the caller's values:
        # `add_self_symmetry(i, &a, &b, proof)` makes sense only with what the caller knows about i, a and b)
        if b.id in pol_ and b.id not in acc_ and b.id not in roots_:
            continue
        errs, (sites, d) = spaces.check_function(crate, mir.accessor_view(crate, mir.inline_view(crate, b, keep=tuple(sorted(roots_ - {b.id})))), ins)
        tot += sites
        dec += d
        if sites:
            nfun += 1
        seen = set()
        for site, msg in errs:
            callee = ""
            if isinstance(site, int):
                for sub in b.all_bodies():
                    cs = sub.call_at.get(site)
                    if cs is not None and cs.callee:
                        callee = cs.callee.name
                        break
            key = "space-mismatch:%s:%s" % (C.fkey(b), callee)
            if key in seen:
                continue
            seen.add(key)
            ctx.bad(key, "slot-space type error in %s at the call of %s: %s. A slot map is a morphism between the parameter slots of specific classes (the code's own comments: `from.m :: slots(from.id) -> X`); composing, applying or storing it against the slots of a different class silently relates unrelated slots" % (C.short(b.id), callee, msg),
                    where_of(b, site if isinstance(site, int) else None))
    ctx.extra["slot_space_typing_%s" % ctx.cur_cfg] = {"functions_with_typed_sites": nfun, "unification_sites": tot, "decisive (both spaces known)": dec}
    ctx.floor("decisive slot-space unifications", dec, 14)
    if True:
        ctx.ok("well-typed", "%d unification sites in %d functions, %d of them between two known class spaces: all consistent" % (tot, nfun, dec))


RULES.append(st)


@rule("R6", doc="a derived self-symmetry is accepted only when the variant's whole name-free shape equals that of the stored node")
def r6(ctx):
    crate = ctx.lib()
    sw = set(C.slot_writers(crate))
    leaders = set(C.leader_union_functions(crate)) | set(C.leader_helpers(crate))
    n = 0
    for b, c in C.self_symmetry_sites(crate):
        if True:
            n += 1
            good = []
            for e, cond in C.conditions_at(c.body, c.bb):
                if cond[0] != "eq":
                    continue
                sides = [strip_role(x) for x in cond[1:]]

                def whole_shape(r):
                    return isinstance(r, tuple) and r[0] == "field" and r[2] == "0" and isinstance(strip_role(r[1]), tuple) and strip_role(r[1])[0] == "call" and strip_role(r[1])[1] == "weak_shape"
                if all(whole_shape(x) for x in sides):
                    var = [role_mentions_call(x, "next") and any(isinstance(y, tuple) and y[0] == "call" and "variants" in y[1] for y in role_walk(x)) for x in sides]
                    if var.count(True) == 1:
                        good.append(e)
            if not good:
                # filter form: `for pn2 in variants.into_iter().filter(|pn2| weak == pn2.elem.weak_shape().0)` — the loop only sees
                # variants that passed the whole-shape comparison
                def whole_shape2(r, depth=0):
                    r = strip_role(r)
                    while isinstance(r, tuple) and r[0] == "upvar" and depth < 6:
                        r = strip_role(r[2]); depth += 1
                    return isinstance(r, tuple) and r[0] == "field" and r[2] == "0" and isinstance(strip_role(r[1]), tuple) and strip_role(r[1])[0] == "call" and strip_role(r[1])[1] == "weak_shape"
                for lp in C.iterator_loops(c.body):
                    if c.bb not in c.body.reach(lp[3], avoid=lp[2]):
                        continue
                    for x in role_walk(lp[1]):
                        if isinstance(x, tuple) and x[0] == "call" and x[1] == "filter" and len(x[3]) == 2 and any(isinstance(y, tuple) and y[0] == "call" and "variants" in y[1] for y in role_walk(x[3][0])):
                            cl = C._closure_of_role(crate, x[3][1])
                            if hasattr(cl, "calls"):
                                rr = strip_role(cl.role_of_local(0))
                                if isinstance(rr, tuple) and rr[0] == "call" and rr[1] == "eq" and len(rr[3]) == 2 and all(whole_shape2(a_) for a_ in rr[3]):
                                    good.append(("filter", lp[0]))
            ctx.check(bool(good), "whole-shape-equality:" + C.fkey(b),
                      "%s adds a symmetry only under `weak_shape(stored node).0 == weak_shape(variant).0` (whole nodes, bound slots included)" % C.short(b.id),
                      "%s adds a permutation to a class group without having compared the whole weak shape of the group-compatible variant with that of the stored node "
                      "(guards seen: %s): comparing a projection (e.g. only the public slot occurrences) accepts variants that differ in how bound slots are arranged, and the permutation read off "
                      "them is not a symmetry of the class" % (C.short(b.id), [(k[0], [role_str(x)[:70] for x in k[1:]]) for _, k in C.conditions_at(c.body, c.bb) if k[0] in ("eq", "ne")]),
                      where_of(c.body, c.bb))
    ctx.floor("self-symmetry add sites", n, 1)


RULES.append(r6)


@rule("R7", doc="group membership, on which eq() rests, has no shortcut to `true` and sifts by the convention of the chain (shared with C10.G1)")
def r7(ctx):
    from . import c10
    c10.g1(ctx)


RULES.append(r7)


@rule("MC", doc="must-call census: no function of this property's files has gained an early exit in front of work it always did (every crate-local call that lay on all paths to a normal return in the reviewed tree still does)")
def mc(ctx):
    C.must_call_census(ctx, ctx.lib(), ['src/egraph/union.rs', 'src/egraph/rebuild.rs', 'src/egraph/find.rs', 'src/egraph/add.rs', 'src/egraph/mod.rs', 'src/group/mod.rs', 'src/slotmap.rs', 'src/lang.rs'])


RULES.append(mc)


@rule("R8", doc="the slot set a class is shrunk to is computed from class invocations, never from an e-node's own slot set (an e-node that migrated through a union spells its slots in another class's names)")
def r8(ctx):
    crate = ctx.lib()
    sw = set(C.need("slot-set writer", C.slot_writers(crate)))
    n = 0
    for b in crate.fns():
        if b.id in sw:
            continue
        v = mir.inline_view(crate, b, keep=tuple(C.short(x).split("::")[-1] for x in sw))
        for c in C.calls_to(crate, v, sw):
            if c.body is not v or len(c.args) < 3:
                continue
            n += 1
            k = v.role_of_operand(c.args[2])
            bad = []
            for x in role_walk(k):
                if isinstance(x, tuple) and x[0] == "call" and x[1] in ("slots", "all_slot_occurrences", "public_slot_occurrences", "private_slots") and "AppliedId" not in str(x[2]):
                    bad.append("%s of %s" % (x[1], role_str(x[3][0])[:40] if x[3] else "?"))
            ctx.check(not bad, "cap-from-invocations:" + C.fkey(b), "%s computes the kept slot set from invocations of the class" % C.short(b.id),
                      "%s shrinks a class to a slot set computed from an e-node's own slots (%s): for a node that moved into the class through a union these are names of a different class, the intersection is empty and the class loses slots its terms depend on — eq() then equates invocations that differ in those arguments" % (C.short(b.id), "; ".join(bad)),
                      where_of(v, c.bb))
    ctx.floor("calls of the slot-set writer", n, 3)


RULES.append(r8)


@rule("R9", doc="the name-free shape under which e-nodes are compared and stored separates different slots: every LanguageChildren impl numbers through on_see_slot / add_slot, which take numbers from a counter that only grows (C16.D1, C16.N2)", once=True)
def r9(ctx):
    from . import c16
    c16.d1(ctx)
    c16.n2(ctx)


RULES.append(r9)


@rule("R10", doc="`eq` decides by composing slot maps and looking keys up by binary search: every SlotMap the library builds is sorted by key with unique keys (C19.Q1 representation invariant, closed writer set) and inverse / compose are built from insertions (C19.Q3) — a map out of key order silently loses entries, `a.m ; b.m⁻¹` degenerates to the identity and `Group::contains` answers true for two invocations nobody equated", once=True)
def r10(ctx):
    from . import c19
    c19.q1(ctx)
    c19.q3(ctx)


RULES.append(r10)


@rule("R11", doc="an e-node is canonicalised child by child: find_enode's per-child step is find_applied_id of that child's own invocation on every path (C13.T17) — a memo keyed by class id hands one child the arguments of another, a parent class loses a slot its terms depend on (an unsound redundancy)")
def r11_t17(ctx):
    from . import c13
    c13.t17(ctx)


RULES.append(r11_t17)

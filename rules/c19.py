"""C19 — slot maps behave as finite maps.  Q1 is a proof of the representation invariant (keys strictly
increasing); Q2/Q3 are structural rules about the operations."""
from salib import mir
from salib.mir import role_str, role_walk, strip_role, role_mentions_field, role_mentions_call, role_mentions_param
from salib.runner import rule, where_of
from . import common as C

META = {
    "level": "other",
    "explanation": "Q1 proves the representation invariant of SlotMap (the vector `map` is sorted by key with unique keys) inductively: the "
                   "writer set of the private field is closed {new/Default (empty), insert, remove, values_mut (values only), into_iter "
                   "(consuming)}; insert writes at the index binary search returned for the very key it writes (overwrite at Ok(i), "
                   "positional insert at Err(i)); remove deletes at Ok(i); values_mut projects the value component only; search is "
                   "binary_search_by_key on the key component; every other constructor builds through insert. With the std contract of "
                   "binary search on a sorted slice this is an inductive proof. Q2: Eq/Hash/Ord are the derived impls, hence functions of "
                   "the sorted pair vector, hence of the set of pairs. Q3: each operation's inserted key/value come from the documented "
                   "sources (operand-role table): compose*, inverse, identity, bijection_from_fresh_to, get, keys/values, try_union, is_perm.",
    "not_decided": "agreement with a reference map on all operation sequences and the algebraic laws (associativity etc.) are consequences of "
                   "Q1-Q3 but are not mechanically derived",
    "assumptions": ["std contract: slice::binary_search_by_key on a slice sorted by the key returns Ok(i) with key(s[i]) == k, or Err(i) with i the insertion point that keeps the slice sorted",
                    "smallvec::SmallVec::insert(i, x) / remove(i) / index_mut(i) behave like Vec's"],
    "trusted_base": ["rustc MIR construction and privacy checking", "sefacts", "salib roles", "std binary_search_by_key contract", "smallvec insert/remove contract"],
}

SM = "slotmap::SlotMap"


def m(crate, name):
    bs = [b for b in crate.by_name.get(name, []) if b.impl_self == SM and not b.impl_trait and b.kind != "Closure"]
    if not bs:
        # a private helper of the map written as a free function of its module (`fn search(entries: &[(Slot, Slot)], l)`)
        bs = [b for b in crate.by_name.get(name, []) if not b.impl_self and b.kind != "Closure" and (b.file or "").endswith("slotmap.rs")]
    if len(bs) != 1:
        raise mir.AnchorMissing("SlotMap::" + name, "found %d" % len(bs))
    return bs[0]


def closure_returns_component(crate, role, comp):
    r = strip_role(role)
    if not (isinstance(r, tuple) and r[0] == "agg" and r[1] in crate.bodies):
        return False
    cb = crate.bodies[r[1]]
    rr = strip_role(cb.role_of_local(0))
    return isinstance(rr, tuple) and rr[0] == "field" and rr[2] == comp and rr[1][0] == "param" and rr[1][1] not in ("_closure",)


@rule("Q1", doc="representation invariant: closed writer set and verified writer idioms", once=True)
def q1(ctx):
    crate = ctx.lib("default")
    adt = crate.adts.get(SM)
    if adt is None:
        raise mir.AnchorMissing(SM)
    f = adt["variants"][0]["fields"]
    FLD = f[0]["name"]            # the one field of the map, whatever it is called
    P = lambda body, i: ("param", body.var_names.get(i))      # parameters by position
    ctx.check(len(f) == 1 and f[0]["vis"] not in ("pub", "crate"), "field-private", "SlotMap.map is private to module slotmap (%s)" % f[0]["vis"],
              "SlotMap.map is visible as %s: code outside slotmap.rs can break the sortedness invariant" % f[0]["vis"])
    # every function touching the field mutably / moving it
    w = crate.field_writers(SM, FLD)
    movers = set()
    for b in crate.bodies.values():
        for c in b.calls:
            for a in c.args:
                if a["k"] == "move" and mir.place_has_field(a["pl"], SM, FLD) and not b.blocks[c.bb]["cleanup"]:
                    movers.add(crate.root_of(b).id)
    writers = set(w) | movers
    allowed = {"slotmap::SlotMap::insert": "sorted positional insert / overwrite (checked below)",
               "slotmap::SlotMap::remove": "delete at the index binary search found (checked below)",
               "slotmap::SlotMap::values_mut": "hands out &mut to the value component only (checked below)",
               "slotmap::SlotMap::into_iter": "consumes the map",
               "slotmap::SlotMap::check": "test-only invariant check on a clone"}
    for wid in sorted(writers):
        b = crate.bodies[wid]
        if b.auto_derived:
            continue
        ctx.check(wid in allowed, "writer:" + C.fkey(b), "%s may touch SlotMap.map mutably: %s" % (C.short(wid), allowed.get(wid, "")),
                  "%s takes SlotMap.map mutably / by value and is not one of the verified writers {insert, remove, values_mut, into_iter}: the sorted-unique-keys invariant is no longer proved" % C.short(wid), where_of(b))
    for need in ("slotmap::SlotMap::insert", "slotmap::SlotMap::remove", "slotmap::SlotMap::values_mut"):
        ctx.check(need in writers, "writer-present:" + need.split("::")[-1], "%s is in the writer set" % need, "%s no longer writes the field (anchor moved)" % need)
    # constructors: aggregates of SlotMap
    for b in crate.bodies.values():
        for bi, si, s in b.statements():
            rv = s["rv"] if s["k"] == "assign" else None
            if rv and rv["k"] == "agg" and rv.get("adt") == SM and not crate.root_of(b).auto_derived:
                r = strip_role(b.role_of_operand(rv["ops"][0]))
                ok = r[0] == "call" and r[1] in ("default", "new") and (b.file or "").endswith("slotmap.rs")
                ctx.check(ok, "constructor:" + C.fkey(crate.root_of(b)), "%s constructs the empty map" % C.short(crate.root_of(b).id),
                          "%s constructs a SlotMap from %s (not the empty vector): sortedness is not established" % (C.short(crate.root_of(b).id), role_str(r)), where_of(b, bi, s.get("line")))
    # search = binary_search_by_key(&l, |(x,_)| *x)
    se = m(crate, "search")
    def haystack_is_the_map(se_, site):
        r_ = se_.role_of_operand(site.args[0])
        if role_mentions_field(r_, FLD):
            return True
        # free-function form: the slice searched is a parameter, and every caller hands in its own `map` field
        ps = [x[1] for x in role_walk(r_) if isinstance(x, tuple) and x[0] == "param"]
        if se_.impl_self or len(ps) != 1:
            return False
        pos = se_.param_index(ps[0])
        sites = [(b_, c_) for b_ in crate.bodies.values() for c_ in b_.calls if c_.callee and c_.callee.target == se_.id and not b_.blocks[c_.bb]["cleanup"]]
        return bool(sites) and pos is not None and all(len(c_.args) >= pos and role_mentions_field(b_.role_of_operand(c_.args[pos - 1]), FLD) for b_, c_ in sites)
    bs = [c for c in se.calls if c.callee and c.callee.name.startswith("binary_search")]
    ok = len(bs) == 1 and bs[0].callee.name == "binary_search_by_key" and strip_role(se.role_of_operand(bs[0].args[1])) == P(se, 2) \
        and haystack_is_the_map(se, bs[0]) and closure_returns_component(crate, se.role_of_operand(bs[0].args[2]), "0") \
        and strip_role(se.role_of_local(0))[0] == "call" and strip_role(se.role_of_local(0))[1] == "binary_search_by_key"
    ctx.check(ok, "search-is-binary-search-on-key", "search(l) = map.binary_search_by_key(&l, |(x, _)| *x)", "SlotMap::search is no longer a binary search for l on the key component", where_of(se))
    # insert
    ins = m(crate, "insert")
    sc = [c for c in ins.calls if c.callee and c.callee.target == se.id]
    ok = len(sc) == 1 and strip_role(ins.role_of_operand(sc[0].args[1])) == P(ins, 2)
    ctx.check(ok, "insert-searches-its-key", "insert(l, r) searches for l", "insert does not search for the key it inserts", where_of(ins))
    pos = [c for c in ins.calls if c.callee and c.callee.name == "insert" and "SmallVec" in (c.callee.impl_self or "")]
    okp = False
    for c in pos:
        idx = strip_role(ins.role_of_operand(c.args[1]))
        val = strip_role(ins.role_of_operand(c.args[2]))
        okp = idx[0] == "field" and idx[2] == "0" and idx[1][0] == "variant" and idx[1][2] == "Err" and role_mentions_call(idx, "search") \
            and val[0] == "agg" and [strip_role(x) for x in val[2]] == [P(ins, 2), P(ins, 3)]
    ctx.check(len(pos) == 1 and okp, "insert-at-err-index", "a new key is inserted at the Err(i) insertion point as (l, r)", "insert places a new pair at a position other than search's Err index, or not the pair (l, r)", where_of(ins))
    ow = [c for c in ins.calls if c.callee and c.callee.name == "index_mut"]
    oko = False
    for c in ow:
        idx = strip_role(ins.role_of_operand(c.args[1]))
        d = c.dest["l"]
        st = [s for bi, si, s in ins.statements() if s["k"] == "assign" and s["lhs"]["l"] == d and s["lhs"]["p"] == ["*"]]
        if idx[0] == "field" and idx[1][0] == "variant" and idx[1][2] == "Ok" and len(st) == 1:
            v = strip_role(ins.role_of_rvalue(st[0]["rv"]))
            oko = v[0] == "agg" and [strip_role(x) for x in v[2]] == [P(ins, 2), P(ins, 3)]
        # value-only overwrite `self.map[i].1 = r`: the key found at Ok(i) IS l, so leaving it in place is the same store
        stv = [s for bi, si, s in ins.statements() if s["k"] == "assign" and s["lhs"]["l"] == d and len(s["lhs"]["p"]) == 2 and s["lhs"]["p"][0] == "*"
               and isinstance(s["lhs"]["p"][1], dict) and s["lhs"]["p"][1].get("f") == "1"]
        stk = [s for bi, si, s in ins.statements() if s["k"] == "assign" and s["lhs"]["l"] == d and len(s["lhs"]["p"]) == 2 and s["lhs"]["p"][0] == "*"
               and isinstance(s["lhs"]["p"][1], dict) and s["lhs"]["p"][1].get("f") == "0"]
        if idx[0] == "field" and idx[1][0] == "variant" and idx[1][2] == "Ok" and not st and len(stv) == 1 and not stk:
            oko = strip_role(ins.role_of_rvalue(stv[0]["rv"])) == P(ins, 3)
    ctx.check(len(ow) == 1 and oko, "overwrite-at-ok-index", "an existing key is overwritten in place at Ok(i) with (l, r) (same key, so order is kept)",
              "insert overwrites at a position other than search's Ok index, or with a different key", where_of(ins))
    # remove
    rm = m(crate, "remove")
    rc = [c for c in rm.calls if c.callee and c.callee.name == "remove" and "SmallVec" in (c.callee.impl_self or "")]
    okr = False
    for c in rc:
        idx = strip_role(rm.role_of_operand(c.args[1]))
        okr = idx[0] == "field" and idx[1][0] == "variant" and idx[1][2] == "Ok" and role_mentions_call(idx, "search") and strip_role(strip_role(idx[1][1])[3][1]) == P(rm, 2)
    ctx.check(len(rc) == 1 and okr, "remove-at-ok-index", "remove(x) deletes at the Ok(i) index of search(x) (deleting keeps a sorted vector sorted)", "remove deletes at an index not returned by search(x)", where_of(rm))
    # values_mut
    vm = m(crate, "values_mut")
    mp = [c for c in vm.calls if c.callee and c.callee.name == "map"]
    ok = len(mp) == 1 and closure_returns_component(crate, vm.role_of_operand(mp[0].args[1]), "1")
    ctx.check(ok, "values-mut-projects-values", "values_mut yields &mut to the value component only", "values_mut can hand out a mutable reference to a key", where_of(vm))
    # public API returning &mut into the map
    for b in crate.fns():
        if b.impl_self == SM and b.vis == "pub" and "&mut slot::Slot" in b.local_ty(0) and b.id != vm.id:
            ctx.bad("extra-mut-access:" + C.fkey(b), "%s returns mutable access into the map" % C.short(b.id), where_of(b))
    # all other builders go through insert: FromIterator / From<[_;N]> / identity / inverse / compose* / union*
    builders = [b for b in crate.fns() if (b.impl_self == SM) and (b.file or "").endswith("slotmap.rs") and b.id not in writers and "slotmap::SlotMap" in b.local_ty(0) and b.name not in ("new", "default", "clone")]
    n = 0
    for b in builders:
        if b.auto_derived:
            continue
        r = b.role_of_local(0)
        starts = any(isinstance(x, tuple) and x[0] == "call" and x[1] in ("new", "clone", "collect", "compose_partial", "default", "from_iter") for x in role_walk(r))
        # ... or hands the job to another builder of the same impl (checked in its own right)
        top = strip_role(r)
        if not starts and isinstance(top, tuple) and top[0] == "call" and b.call_at.get(top[4]) is not None and b.call_at[top[4]].callee and b.call_at[top[4]].callee.target in {x.id for x in builders}:
            starts = True
        n += 1
        ctx.check(starts, "builder-through-api:" + C.fkey(b), "%s builds its result from new()/clone() through the public writers" % C.short(b.id),
                  "%s produces a SlotMap by other means (%s)" % (C.short(b.id), role_str(r)[:80]), where_of(b))
    ctx.floor("SlotMap builders", n, 8)


@rule("Q2", doc="Eq / Hash / Ord on SlotMap are the derived impls", once=True)
def q2(ctx):
    crate = ctx.lib("default")
    want = ["std::cmp::PartialEq", "std::cmp::Eq", "std::hash::Hash", "std::cmp::PartialOrd", "std::cmp::Ord"]
    for t in want:
        imps = [i for i in crate.impls if i.get("self_adt") == SM and i.get("trait") == t]
        ctx.check(len(imps) == 1 and imps[0]["auto_derived"], "derived:" + t.split("::")[-1], "%s for SlotMap is derived" % t.split("::")[-1],
                  "%s for SlotMap is hand-written or missing (%d impls): equality/hash/order may depend on more than the set of pairs" % (t, len(imps)))


ITER_ADAPTORS = {"iter", "into_iter", "copied", "cloned", "by_ref", "rev_not"}   # order/identity preserving ones only


def _consumer_of_closure(body):
    """(parent body, call site) of the call that receives this closure as an argument"""
    if body.creation is None:
        return None
    parent, cbb, csi, _ = body.creation
    cl_local = parent.blocks[cbb]["stmts"][csi]["lhs"]["l"]
    for c in parent.calls:
        for a in c.args:
            pl = mir.op_place(a)
            if pl is not None and pl["l"] == cl_local and not parent.blocks[c.bb]["cleanup"]:
                return parent, c
    return None


def _owner_of_param(body, name):
    """the closure body (this one or an ancestor) that has a parameter called `name`"""
    b = body
    while b is not None:
        for l in range(1, b.argc + 1):
            nm = b.var_names.get(l, "_%d" % l)
            if nm == name and not (b.kind == "Closure" and l == 1):
                return b
        b = b.parent_body
    return None


def desc(body, role, depth=0):
    """normalised description of a slot value inside a SlotMap operation:
    ('elem', collection parameter, component) | ('get', map parameter, desc) | ('fresh',) | ('other', text)"""
    if depth > 8:
        return ("other", "deep")
    r = strip_role(role)
    if not isinstance(r, tuple):
        return ("other", str(r))
    if r[0] == "call" and r[1] == "fresh":
        return ("fresh",)
    # peel `.k` projections and `as Some`
    path = []
    x = r
    while isinstance(x, tuple) and x[0] in ("field", "variant"):
        if x[0] == "field":
            path.append(x[2])
        else:
            path.append("@" + x[2])
        x = strip_role(x[1])
    path.reverse()
    if isinstance(x, tuple) and x[0] == "call":
        if x[1] == "next" and x[3]:
            # loop form: element of the iterated collection
            src = strip_role(x[3][0])
            while isinstance(src, tuple) and src[0] == "call" and src[1] in ITER_ADAPTORS and src[3]:
                src = strip_role(src[3][0])
            if isinstance(src, tuple) and src[0] == "param":
                comps = [p for p in path if not p.startswith("@") and p != "0"] if path[:2] == ["@Some", "0"] else None
                rest = path[2:] if path[:2] == ["@Some", "0"] else path
                rest = [p for p in rest if not p.startswith("@")]
                return ("elem", src[1], rest[0] if rest else None)
        if x[1] == "get" and len(x[3]) == 2:
            m_ = strip_role(x[3][0])
            if isinstance(m_, tuple) and m_[0] == "param" and path[:2] == ["@Some", "0"]:
                return ("get", m_[1], desc(body, x[3][1], depth + 1))
        if x[1] in ("unwrap_or_else", "unwrap_or") and len(x[3]) == 2 and not path:
            g_ = strip_role(x[3][0])
            alt = strip_role(x[3][1])
            alt_fresh = (isinstance(alt, tuple) and ((alt[0] == "fnconst" and str(alt[1]).endswith("Slot::fresh")) or (alt[0] == "call" and alt[1] == "fresh")))
            if not alt_fresh and isinstance(alt, tuple) and alt[0] == "agg" and alt[1] in body.crate.bodies:
                ar = strip_role(body.crate.bodies[alt[1]].role_of_local(0))
                alt_fresh = isinstance(ar, tuple) and ar[0] == "call" and ar[1] == "fresh"
            if isinstance(g_, tuple) and g_[0] == "call" and g_[1] == "get" and len(g_[3]) == 2 and alt_fresh:
                m_ = strip_role(g_[3][0])
                if isinstance(m_, tuple) and m_[0] == "param":
                    return ("get_or_fresh", m_[1], desc(body, g_[3][1], depth + 1))
    if isinstance(x, tuple) and x[0] == "param":
        owner = _owner_of_param(body, x[1])
        if owner is not None and owner.kind == "Closure":
            cons = _consumer_of_closure(owner)
            if cons is not None:
                parent, c = cons
                recv = strip_role(parent.role_of_operand(c.args[0])) if c.args else None
                if c.callee and c.callee.name in ("map", "filter_map", "for_each", "filter", "flat_map", "find_map", "all", "any") and recv is not None:
                    # Option::map on a get(..): the parameter is the payload
                    if isinstance(recv, tuple) and recv[0] == "call" and recv[1] == "get" and len(recv[3]) == 2 and "Option" in (c.callee.impl_self or ""):
                        m_ = strip_role(recv[3][0])
                        if isinstance(m_, tuple) and m_[0] == "param":
                            return ("get", m_[1], desc(parent, recv[3][1], depth + 1))
                    src = recv
                    while isinstance(src, tuple) and src[0] == "call" and src[1] in ITER_ADAPTORS and src[3]:
                        src = strip_role(src[3][0])
                    if isinstance(src, tuple) and src[0] == "param":
                        comps = [p for p in path if not p.startswith("@")]
                        return ("elem", src[1], comps[0] if comps else None)
        elif owner is not None:
            comps = [p for p in path if not p.startswith("@")]
            if not comps:
                return ("param", x[1])
    return ("other", role_str(r)[:60])


def result_pairs(crate, b):
    """(key desc, value desc, body, bb, call-or-None) for every pair that can end up in the SlotMap the
    function returns: SlotMap::insert calls, and (k, v) tuples produced by closures of an iterator chain
    that is collected"""
    out = []
    for c in b.calls:
        if c.callee and c.callee.target == "slotmap::SlotMap::insert" and not b.blocks[c.bb]["cleanup"]:
            out.append((desc(b, b.role_of_operand(c.args[1])), desc(b, b.role_of_operand(c.args[2])), b, c.bb, c))
    for sub in b.all_bodies():
        if sub is b:
            continue
        for bi, si, s in sub.statements():
            rv = s["rv"] if s["k"] == "assign" else None
            if rv and rv["k"] == "agg" and rv.get("agg") == "tuple" and len(rv["ops"]) == 2 and s["lhs"]["l"] == 0:
                out.append((desc(sub, sub.role_of_operand(rv["ops"][0])), desc(sub, sub.role_of_operand(rv["ops"][1])), sub, bi, None))
    return out


def loop_inserts(crate, b):
    """insert(out, k, v) calls with roles, plus what the loop iterates"""
    out = []
    for c in b.calls:
        if c.callee and c.callee.target == "slotmap::SlotMap::insert" and not b.blocks[c.bb]["cleanup"]:
            out.append((c, strip_role(b.role_of_operand(c.args[1])), strip_role(b.role_of_operand(c.args[2]))))
    return out


def comp(role):
    """('self'|'other'|'set', component) for roles like next(into_iter(iter(self))) as Some.0.1"""
    r = role
    path = []
    while isinstance(r, tuple) and r[0] in ("field", "variant"):
        if r[0] == "field":
            path.append(r[2])
        r = strip_role(r[1])
    src = None
    if isinstance(r, tuple) and r[0] == "call" and r[1] == "next":
        for x in role_walk(r):
            if isinstance(x, tuple) and x[0] == "param":
                src = x[1]
    path.reverse()
    return (src, path[-1] if path else None)


def visits_all_of(crate, b, param):
    """the function looks at every element of `param`: an exhaustive loop over it, or an iterator chain over it
    without dropping adaptors other than filter_map/map (whose closures are inspected separately)"""
    for lp in C.iterator_loops(b):
        src = strip_role(lp[1])
        while isinstance(src, tuple) and src[0] == "call" and src[1] in ITER_ADAPTORS and src[3]:
            src = strip_role(src[3][0])
        if src == ("param", param):
            return C.loop_exhaustive(b, lp)
    for c in b.calls:
        if c.callee and c.callee.name in ("collect", "for_each") and not b.blocks[c.bb]["cleanup"]:
            r = strip_role(b.role_of_operand(c.args[0]))
            bad = False
            x = r
            while isinstance(x, tuple) and x[0] == "call" and x[3]:
                if x[1] in ("take", "skip", "step_by", "take_while", "skip_while", "filter", "rev"):
                    bad = True
                nxt = strip_role(x[3][0])
                if nxt == ("param", param):
                    return not bad
                x = nxt
    return False


@rule("Q3", doc="operation roles: inserted key / value come from the documented sources", once=True)
def q3(ctx):
    crate = ctx.lib("default")
    # compose_partial / compose_fresh: every pair of the result is (x, other.get(y)) for a pair (x, y) of self
    sm_private = {x.id for x in crate.fns() if (x.file or "").endswith("slotmap.rs") and x.kind != "Closure" and x.vis != "pub" and not any(c.callee and c.callee.target == x.id for c in x.all_calls())}
    for name, fresh in (("compose_partial", False), ("compose_fresh", True)):
        b = mir.inline_view(crate, m(crate, name), depth=2, policy=sm_private - {m(crate, name).id})
        ctx.check(visits_all_of(crate, b, "self"), "iterates-self:" + name, "%s visits every pair of self" % name, "%s does not visit every pair of self" % name, where_of(b))
        # ... on every path: no shortcut that answers with another operation's result (`if other.len() >= self.len() { return
        # self.compose_partial(other) }` — sizes say nothing about which keys `other` covers)
        deleg = [d_["call"].callee.name for d_ in b.defs().get(0, []) if d_["kind"] == "call" and d_["call"].callee and d_["call"].callee.name in ("compose", "compose_partial", "compose_fresh", "union", "try_union", "inverse") and d_["call"].callee.name != name]
        ctx.check(not deleg, "no-conditional-delegation:" + name, "%s answers only with the map its own traversal built" % name,
                  "%s can answer with the result of %s instead of the map built by visiting every pair of self: the two operations differ exactly on the inputs the shortcut's condition does not rule out (for compose_fresh: a value of self that `other` does not cover must get a fresh image, not be dropped)" % (name, deleg), where_of(b))
        pairs = result_pairs(crate, b)
        nget = 0
        expanded = []
        for k, v, sub, bb, c in pairs:
            if v[0] == "get_or_fresh":
                # one insert whose value is other.get(y) or, only when that is None, a fresh slot
                expanded.append((k, ("get", v[1], v[2]), sub, bb, c))
                ctx.check(fresh, "fresh-only-in-fresh-variant:" + name, "fresh fill-in only in compose_fresh", "%s invents fresh slots" % name, where_of(sub, bb))
                ctx.ok("fresh-on-miss-only:" + name, "the fresh slot is the `unwrap_or_else` alternative of other.get(y): used only on a miss", where_of(sub, bb))
                ctx.check(k == ("elem", "self", "0"), "key-from-own-key:%s:fresh" % name, "%s inserts under self's key x" % name, "%s puts a pair under key %s instead of self's own key" % (name, k), where_of(sub, bb))
            else:
                expanded.append((k, v, sub, bb, c))
        npairs = len(pairs) + sum(1 for p_ in pairs if p_[1][0] == "get_or_fresh")
        pairs = expanded
        for k, v, sub, bb, c in pairs:
            ctx.check(k == ("elem", "self", "0"), "key-from-own-key:%s:%s" % (name, "fresh" if v == ("fresh",) else "get"), "%s inserts under self's key x" % name,
                      "%s puts a pair under key %s instead of self's own key" % (name, k), where_of(sub, bb))
            if v == ("fresh",):
                ctx.check(fresh, "fresh-only-in-fresh-variant:" + name, "fresh fill-in only in compose_fresh", "%s invents fresh slots" % name, where_of(sub, bb))
                conds = C.conditions_at(sub, bb)
                miss = any(cond[0] in ("true", "false", "unknown") and len(cond) > 1 and cond[1][0] == "discr" and role_mentions_call(cond[1], "get") for e, cond in conds)
                ctx.check(miss, "fresh-on-miss-only:" + name, "the fresh slot is used only when other has no entry for y", "compose_fresh uses a fresh slot although other maps y", where_of(sub, bb))
            else:
                nget += 1
                ok = v == ("get", "other", ("elem", "self", "1"))
                ctx.check(ok, "value-is-other-of-own-value:" + name, "%s maps x to other.get(y) for self's pair (x, y) (first self, then other)" % name,
                          "%s maps a key to %s; it must be other.get(self's value): the composition order / components are mixed up" % (name, v), where_of(sub, bb))
        ctx.check(nget == 1 and npairs == (2 if fresh else 1), "pair-sources:" + name, "%s has the expected pair sources" % name, "%s has %d pair sources (%s)" % (name, len(pairs), [(k, v) for k, v, _, _, _ in pairs]), where_of(b))
    cm = m(crate, "compose")
    r = strip_role(cm.role_of_local(0))
    ctx.check(r[0] == "call" and r[1] == "compose_partial" and [strip_role(x) for x in r[3]] == [("param", "self"), ("param", "other")], "compose-delegates", "compose = compose_partial(self, other) (+ ghost assertion)",
              "compose is %s" % role_str(r), where_of(cm))
    # inverse / identity / bijection_from_fresh_to
    def pairs_of(name):
        b_ = m(crate, name)
        return b_, [(k, v) for k, v, _, _, _ in result_pairs(crate, b_)]
    b, ps = pairs_of("inverse")
    ok = len(ps) == 1 and ps[0][0][0] == "elem" and ps[0][1][0] == "elem" and ps[0][0][1] == ps[0][1][1] == "self" and (ps[0][0][2], ps[0][1][2]) == ("1", "0")
    ctx.check(ok, "inverse-swaps", "inverse inserts (y, x) for every (x, y)", "inverse builds the pairs %s" % ps, where_of(b))
    b, ps = pairs_of("identity")
    ok = len(ps) == 1 and ps[0][0] == ps[0][1] and ps[0][0][0] == "elem" and ps[0][0][1] == "set"
    ctx.check(ok, "identity-maps-x-to-x", "identity inserts (x, x) for every x of the set", "identity builds the pairs %s" % ps, where_of(b))
    b, ps = pairs_of("bijection_from_fresh_to")
    ok = len(ps) == 1 and ps[0][0] == ("fresh",) and ps[0][1][0] == "elem" and ps[0][1][1] == "set"
    ctx.check(ok, "fresh-to-x", "bijection_from_fresh_to inserts (fresh, x)", "bijection_from_fresh_to builds the pairs %s" % ps, where_of(b))
    for nm_ in ("inverse", "identity", "bijection_from_fresh_to"):
        ctx.check(visits_all_of(crate, m(crate, nm_), "self" if nm_ == "inverse" else "set"), "visits-all:" + nm_, "%s visits every element" % nm_, "%s does not visit every element of its input" % nm_, where_of(m(crate, nm_)))
    for nm_ in ("inverse", "identity", "bijection_from_fresh_to"):
        b = m(crate, nm_)
        for l in C.iterator_loops(b):
            ctx.check(C.loop_exhaustive(b, l), "loop-exhaustive:" + nm_, "%s visits every element" % nm_, "%s can stop early" % nm_, where_of(b, l[0]))
    # get
    g = m(crate, "get")
    r = g.role_of_local(0)
    ok = role_mentions_call(r, "search")
    cl = [x for x in role_walk(r) if isinstance(x, tuple) and x[0] == "agg" and x[1] in crate.bodies]
    okc = False
    for x in cl:
        cb = crate.bodies[x[1]]
        rr = strip_role(cb.role_of_local(0))
        okc = okc or (isinstance(rr, tuple) and rr[0] == "field" and rr[2] == "1")
    # match form: the Some payload is `.1` of the pair at the index search() found
    for x in role_walk(r):
        if isinstance(x, tuple) and x[0] == "field" and x[2] == "1" and role_mentions_field(x[1], crate.adts[SM]["variants"][0]["fields"][0]["name"]) and role_mentions_call(x[1], "search"):
            okc = True
    ctx.check(ok and okc, "get-is-search-then-value", "get(l) = search(l).ok().map(|i| map[i].1)", "get is %s" % role_str(r)[:100], where_of(g))
    ix = [b for b in crate.by_name.get("index", []) if b.impl_self == SM and (b.impl_trait or "").endswith("ops::Index")]
    if ix:
        r = strip_role(ix[0].role_of_local(0))
        ok = isinstance(r, tuple) and r[0] == "field" and r[2] == "1" and role_mentions_call(r, "search")
        ctx.check(ok, "index-is-search-then-value", "m[l] = map[search(l)].1", "Index for SlotMap returns %s" % role_str(r), where_of(ix[0]))
    # keys / values
    for nm_, c_ in (("keys", "0"), ("values", "1"), ("keys_vec", "0"), ("values_vec", "1")):
        b = mir.inline_view(crate, m(crate, nm_))        # (a shared private `key_iter()` / `value_iter()` helper is looked through)
        r = b.role_of_local(0)
        cl = [x for x in role_walk(r) if isinstance(x, tuple) and x[0] == "agg" and x[1] in crate.bodies]
        ok = len(cl) == 1 and closure_returns_component(crate, cl[0], c_) and role_mentions_call(r, "iter") and not any(isinstance(x, tuple) and x[0] == "call" and x[1] in ("filter", "take", "skip") for x in role_walk(r))
        ctx.check(ok, "projection:" + nm_, "%s collects component %s of every pair" % (nm_, c_), "%s does not collect component %s of every pair" % (nm_, c_), where_of(b))
    # try_union: None iff a key is present with a different value; otherwise self + every pair of other
    tu = m(crate, "try_union")
    okn = False
    n_none = 0
    for sub in tu.all_bodies():
        for d in sub.defs().get(0, []):
            if d["kind"] != "assign":
                continue
            rr = strip_role(sub.role_of_rvalue(d["rv"]))
            if not (isinstance(rr, tuple) and rr[0] == "agg" and str(rr[1]).endswith("None")):
                continue
            conds = C.conditions_at(sub, d["bb"])
            conflict = any(cond[0] == "ne" and (role_mentions_call(cond[1], "get") or role_mentions_call(cond[2], "get")) for e_, cond in conds)
            for e_, cond in conds:
                r_ = strip_role(cond[1]) if cond[0] == "true" and len(cond) > 1 else None
                if isinstance(r_, tuple) and r_[0] == "call" and r_[1] == "is_some_and" and len(r_[3]) == 2 and role_mentions_call(r_[3][0], "get"):
                    cl_ = C._closure_of_role(crate, r_[3][1])
                    if hasattr(cl_, "calls") and any(isinstance(y, tuple) and ((y[0] == "call" and y[1] == "ne") or (y[0] == "bin" and y[1] == "Ne")) for y in role_walk(cl_.role_of_local(0))):
                        conflict = True
            if conflict:
                okn = True
                n_none += 1
            elif sub is tu and any(isinstance(x, tuple) and x[0] == "call" and x[1] in ("try_fold", "branch") for x in role_walk(sub.role_of_local(0))):
                pass          # the None produced by `?` / try_fold propagation of the closure's None
            else:
                n_none += 1
                okn = okn and False
    ctx.check(okn and n_none == 1, "try-union-none-on-conflict", "try_union returns None exactly under 'key present with a different value'", "try_union's None branch is not guarded by a value conflict", where_of(tu))
    ins = [(sub, c) for sub in tu.all_bodies() for c in sub.calls if c.callee and c.callee.target == "slotmap::SlotMap::insert" and not sub.blocks[c.bb]["cleanup"]]
    ok = len(ins) == 1
    if ok:
        sub, c = ins[0]
        k_, v_ = role_str(sub.role_of_operand(c.args[1])), role_str(sub.role_of_operand(c.args[2]))
        same_elem = (k_.endswith(".0") and v_.endswith(".1") and k_[:-2] == v_[:-2]) or (comp(strip_role(sub.role_of_operand(c.args[1]))) == ("other", "0") and comp(strip_role(sub.role_of_operand(c.args[2]))) == ("other", "1"))
        # the loop over `other` may be left early only to answer None
        none_bbs = {d["bb"] for d in tu.defs().get(0, []) if d["kind"] == "assign" and isinstance(strip_role(tu.role_of_rvalue(d["rv"])), tuple) and str(strip_role(tu.role_of_rvalue(d["rv"]))[1]).endswith("None")}
        loop_ok = False
        for lp in C.iterator_loops(tu):
            src = strip_role(lp[1])
            while isinstance(src, tuple) and src[0] == "call" and src[1] in ITER_ADAPTORS and src[3]:
                src = strip_role(src[3][0])
            if src == ("param", "other"):
                loop_ok = tu.must_pass(lp[3], tu.return_blocks(), set(lp[2]) | none_bbs)
        ok = same_elem and (visits_all_of(crate, tu, "other") or loop_ok) or (same_elem and any(x.callee and x.callee.name in ("try_fold", "fold") and role_mentions_param(tu.role_of_operand(x.args[0]), "other") for x in tu.calls))
        ok = ok and role_mentions_call(tu.role_of_local(0), "clone") or (ok and any(x.callee and x.callee.name == "clone" and strip_role(tu.role_of_operand(x.args[0])) == ("param", "self") for x in tu.calls))
    ctx.check(bool(ok), "try-union-adds-others-pairs", "try_union = self.clone() + every pair of other", "try_union no longer inserts every pair (x, y) of other into a copy of self", where_of(tu))
    # union, From<[(Slot, Slot); N]>, FromIterator: every pair of the source is inserted, key first, on every path through an iteration
    P = lambda body, i: ("param", body.var_names.get(i))      # parameters by position

    def insert_like(tgt):
        """SlotMap::insert, or a small SlotMap method that forwards (self, key, value) to it on every path (`insert_new`)"""
        if tgt == "slotmap::SlotMap::insert":
            return True
        hb = crate.bodies.get(tgt)
        if hb is None or hb.impl_self != SM or hb.argc != 3 or len(hb.blocks) > 14:
            return False
        fw = [c for c in hb.calls if c.callee and c.callee.target == "slotmap::SlotMap::insert" and not hb.blocks[c.bb]["cleanup"]]
        return len(fw) == 1 and [strip_role(hb.role_of_operand(a)) for a in fw[0].args] == [P(hb, 1), P(hb, 2), P(hb, 3)] and hb.must_pass([0], hb.return_blocks(), {fw[0].bb})

    def every_pair_inserted(b, what):
        ins_ = [c for c in b.calls if c.callee and insert_like(c.callee.target) and not b.blocks[c.bb]["cleanup"]]
        if not ins_:
            # `source.into_iter().for_each(|(x, y)| out.insert(x, y))`: the closure runs for every pair; it inserts its own pair, key first
            for fe in b.calls:
                if fe.callee and fe.callee.name == "for_each" and not b.blocks[fe.bb]["cleanup"] and len(fe.args) == 2:
                    cl_ = C._closure_of_role(crate, b.role_of_operand(fe.args[1]))
                    src = strip_role(b.role_of_operand(fe.args[0]))
                    while isinstance(src, tuple) and src[0] == "call" and src[1] in ("into_iter", "iter", "copied", "cloned") and src[3]:
                        src = strip_role(src[3][0])
                    if hasattr(cl_, "calls") and isinstance(src, tuple) and src[0] == "param":
                        ci = [c for c in cl_.calls if c.callee and insert_like(c.callee.target) and not cl_.blocks[c.bb]["cleanup"]]
                        if len(ci) == 1 and cl_.must_pass([0], cl_.return_blocks(), {ci[0].bb}):
                            k_, v_ = role_str(strip_role(cl_.role_of_operand(ci[0].args[1])), 12), role_str(strip_role(cl_.role_of_operand(ci[0].args[2])), 12)
                            if k_.endswith(".0") and v_.endswith(".1") and k_[:-2] == v_[:-2]:
                                return True, "for_each"
                            return False, "the for_each closure inserts (%s, %s)" % (k_[-30:], v_[-30:])
            # delegation (`pairs.into_iter().collect()`, `Self::from_iter(..)`): the delegate is checked where it is defined
            return any(c.callee and c.callee.name in ("collect", "from_iter", "union", "try_union") and not b.blocks[c.bb]["cleanup"] for c in b.calls), "delegates"
        if len(ins_) != 1:
            return False, "%d insert sites" % len(ins_)
        c = ins_[0]
        k_, v_ = role_str(strip_role(b.role_of_operand(c.args[1])), 12), role_str(strip_role(b.role_of_operand(c.args[2])), 12)
        if not (k_.endswith(".0") and v_.endswith(".1") and k_[:-2] == v_[:-2]):
            return False, "inserts (%s, %s): key and value must be the two components of one source pair, in that order" % (k_[-40:], v_[-40:])
        ghost = b.ghost_blocks()[0]
        for lp in C.iterator_loops(b):
            if c.bb in b.reach(lp[3], avoid=lp[2]):
                if not C.loop_exhaustive(b, lp):
                    return False, "the loop can stop early"
                if not b.must_pass(lp[3], [lp[0]], {c.bb}):
                    return False, "an iteration can go on to the next pair without inserting this one"
                return True, "loop"
        return False, "the insert is not inside a loop over the source"
    for nm_, bodies_ in (("union", [m(crate, "union")]),
                         ("from-array", [b_ for b_ in crate.by_name.get("from", []) if b_.impl_self == SM and b_.kind != "Closure"]),
                         ("from_iter", [b_ for b_ in crate.by_name.get("from_iter", []) if b_.impl_self == SM and b_.kind != "Closure"])):
        for b_ in bodies_:
            okp, whyp = every_pair_inserted(mir.inline_view(crate, b_), nm_)
            ctx.check(okp, "every-pair-inserted:" + nm_, "%s inserts every (key, value) pair of its source (%s)" % (nm_, whyp),
                      "SlotMap %s does not insert every pair of its source as (key, value): %s" % (nm_, whyp), where_of(b_))
    # is_perm / is_bijection
    ip = m(crate, "is_perm")
    names = {c.callee.name for c in ip.calls if c.callee}
    eqs = [c for c in ip.calls if c.callee and c.callee.name in ("eq", "ne")]
    okq = any({strip_role(ip.role_of_operand(c.args[0]))[1], strip_role(ip.role_of_operand(c.args[1]))[1]} == {"keys", "values"} for c in eqs if strip_role(ip.role_of_operand(c.args[0]))[0] == "call" and strip_role(ip.role_of_operand(c.args[1]))[0] == "call")
    bij_guard = any(cond[0] == "true" and role_str(cond[1]).startswith("is_bijection(") for c in eqs for e, cond in C.conditions_at(ip, c.bb))
    ok = "is_bijection" in names and okq and bij_guard
    ctx.check(ok, "is-perm", "is_perm = is_bijection && keys == values", "is_perm no longer tests bijectivity and keys == values", where_of(ip))
    ib = m(crate, "is_bijection")
    falses = [d for d in ib.defs().get(0, []) if d["kind"] == "assign" and ib.role_of_rvalue(d["rv"]) == ("const", "false")]
    ok = False
    for d in falses:
        ok = any((cond[0] == "true" and role_str(cond[1]).startswith("contains(")) or (cond[0] == "false" and role_str(cond[1]).startswith("insert(")) for e, cond in C.conditions_at(ib, d["bb"]))
    trues = [d for d in ib.defs().get(0, []) if d["kind"] == "assign" and ib.role_of_rvalue(d["rv"]) == ("const", "true")]
    alt = False
    if not (len(falses) == 1 and ok and len(trues) == 1):
        # adaptor form: iter().all(|(_, y)| seen.insert(y)) — true iff every value is new to the set
        r_ = strip_role(ib.role_of_local(0))
        if isinstance(r_, tuple) and r_[0] == "call" and r_[1] == "all" and len(r_[3]) == 2:
            cl_ = C._closure_of_role(crate, r_[3][1])
            if hasattr(cl_, "calls"):
                cr = strip_role(cl_.role_of_local(0))
                alt = isinstance(cr, tuple) and cr[0] == "call" and cr[1] == "insert" and ("HashSet" in (cl_.call_at[cr[4]].callee.impl_self or "") if cr[4] in cl_.call_at and cl_.call_at[cr[4]].callee else False)
    ctx.check((len(falses) == 1 and ok and len(trues) == 1) or alt, "is-bijection", "is_bijection: false on a repeated value, true after all pairs", "is_bijection's structure changed", where_of(ib))
    ck = [c for sub_ in ib.all_bodies() for c in sub_.calls if c.callee and c.callee.name in ("contains", "insert") and not sub_.blocks[c.bb]["cleanup"]]
    def _is_value(r_):
        return comp(strip_role(r_))[1] == "1" or role_str(r_).endswith(".1") or ((role_mentions_call(r_, "values_immut") or role_mentions_call(r_, "values")) and not role_mentions_call(r_, "keys"))
    def _val_role(c):
        r__ = c.body.role_of_operand(c.args[1])
        sr = strip_role(r__)
        # a closure parameter pattern `|(_, y)|` over self.iter(): component .1 of the element
        return r__
    okv = all(_is_value(_val_role(c)) or (c.body is not ib and role_str(_val_role(c)).endswith(".1")) for c in ck) and len(ck) in (1, 2) and any(c.callee.name == "insert" for c in ck)
    ctx.check(okv, "is-bijection-on-values", "is_bijection tracks the value component", "is_bijection tracks %s" % [role_str(ib.role_of_operand(c.args[1])) for c in ck], where_of(ib))
    # contains_key / len / is_empty
    ckb = m(crate, "contains_key")
    r = ckb.role_of_local(0)
    ctx.check(role_mentions_call(r, "get") and role_mentions_call(r, "is_some"), "contains-key", "contains_key(k) = get(k).is_some()", "contains_key is %s" % role_str(r), where_of(ckb))


RULES = [q1, q2, q3]


@rule("Q1w", doc="compile-fail witnesses: a SlotMap cannot be built from a raw vector and no API hands out &mut keys", thorough_only=True, once=True)
def q1w(ctx):
    from salib import witness
    witness.check(ctx, ['c19_slotmap_literal', 'c19_slotmap_keys_mut'])


RULES.append(q1w)


@rule("MC", doc="must-call census: no function of this property's files has gained an early exit in front of work it always did (every crate-local call that lay on all paths to a normal return in the reviewed tree still does)")
def mc(ctx):
    C.must_call_census(ctx, ctx.lib(), ['src/slotmap.rs'])


RULES.append(mc)


@rule("Q4", doc="compose_fresh / bijection_from_fresh_to give every key they invent a value for its OWN Slot::fresh(): the slot is drawn inside the loop over the keys, never once in front of it (C03.H10 fresh-hoisted) — with a shared slot the result of compose_fresh is not injective although both operands are")
def q4(ctx):
    C.fresh_hoist_census(ctx, ctx.lib())


RULES.append(q4)

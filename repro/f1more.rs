use slotted_egraphs::*;
define_language! {
    pub enum T {
        G3(Slot, Slot, Slot) = "g",
        H4(Slot, Slot, Slot, Slot) = "h",
        K3(Slot, Slot, Slot) = "k",
        W(AppliedId) = "w",
        P(AppliedId, AppliedId) = "p",
        C() = "c",
    }
}
fn re(s: &str) -> RecExpr<T> { RecExpr::parse(s).unwrap() }
fn add(eg: &mut EGraph<T>, s: &str) -> AppliedId { eg.add_syn_expr(re(s)) }

#[test]
fn orbit_s3_all_redundant() {
    let mut eg = EGraph::<T>::default();
    let a = add(&mut eg, "(g $0 $1 $2)");
    let b = add(&mut eg, "(g $1 $2 $0)");
    let _w = add(&mut eg, "(w (g $0 $1 $2))");
    eg.union_justified(&a, &b, Some("rot".into()));
    let c = add(&mut eg, "(g $0 $1 $3)");
    eg.union_justified(&a, &c, Some("red".into()));
    eg.check();
    let a = eg.find_applied_id(&a);
    assert!(eg.slots(a.id).is_empty());
    let x = add(&mut eg, "(w (g $7 $8 $9))");
    let y = add(&mut eg, "(w (g $0 $1 $2))");
    assert!(eg.eq(&x, &y));
    #[cfg(feature = "explanations")]
    { let p = eg.explain_equivalence(re("(w (g $7 $8 $9))"), re("(w (g $0 $1 $2))")); let _ = p.to_string(&eg); }
    eg.check();
}

#[test]
fn orbit_partial() {
    let mut eg = EGraph::<T>::default();
    let a = add(&mut eg, "(h $0 $1 $2 $3)");
    let b = add(&mut eg, "(h $1 $0 $2 $3)");
    let c = add(&mut eg, "(h $0 $1 $3 $2)");
    let _p = add(&mut eg, "(p (h $0 $1 $2 $3) (h $0 $1 $3 $2))");
    eg.union_justified(&a, &b, Some("s01".into()));
    eg.union_justified(&a, &c, Some("s23".into()));
    let d = add(&mut eg, "(h $9 $1 $2 $3)");
    eg.union_justified(&a, &d, Some("red0".into()));
    eg.check();
    let a = eg.find_applied_id(&a);
    assert_eq!(eg.slots(a.id).len(), 2, "$0 and its orbit mate $1 are redundant, $2 $3 stay");
    let x = add(&mut eg, "(h $7 $8 $2 $3)");
    let y = add(&mut eg, "(h $5 $6 $3 $2)");
    assert!(eg.eq(&x, &y));
    let z = add(&mut eg, "(h $5 $6 $2 $4)");
    assert!(!eg.eq(&x, &z));
    #[cfg(feature = "explanations")]
    { let p = eg.explain_equivalence(re("(h $7 $8 $2 $3)"), re("(h $5 $6 $3 $2)")); let _ = p.to_string(&eg); }
    eg.check();
}

#[test]
fn orbit_through_merge() {
    // the symmetric class is merged into another one first, then a slot becomes redundant
    let mut eg = EGraph::<T>::default();
    let a = add(&mut eg, "(g $0 $1 $2)");
    let b = add(&mut eg, "(g $1 $0 $2)");
    eg.union(&a, &b);
    let k = add(&mut eg, "(k $0 $1 $2)");
    let _w = add(&mut eg, "(w (k $0 $1 $2))");
    eg.union(&a, &k);
    let k2 = add(&mut eg, "(k $5 $1 $2)");
    eg.union(&k, &k2);
    eg.check();
    let k = eg.find_applied_id(&k);
    assert_eq!(eg.slots(k.id).len(), 1);
    let x = add(&mut eg, "(w (g $7 $8 $2))");
    let y = add(&mut eg, "(w (k $0 $1 $2))");
    assert!(eg.eq(&x, &y));
    eg.check();
}

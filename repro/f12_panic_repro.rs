// Reproduces a panic of the UNMODIFIED library:
//   src/group/mod.rs:93  `SlotMap::index($f..): index missing!`
// in `Group::contains`, reached from `apply_rewrites` via
//   union_instantiations -> rebuild -> handle_pending -> determine_self_symmetries -> Group::add -> Group::add_set -> Group::contains.
//
// Public API only, default features.
// Run with: RUST_BACKTRACE=1 cargo test --offline -j 4 --test panic_repro -- --nocapture

use slotted_egraphs::*;

define_language! {
    pub enum M {
        Add(AppliedId, AppliedId) = "add",
        Mul(AppliedId, AppliedId) = "mul",
        Var(Slot) = "var",
        Sum(Bind<AppliedId>) = "sum",
        Let(Bind<AppliedId>, AppliedId) = "let",
        Num(u32),
    }
}

// All rules are valid for arithmetic modulo a prime p, where
//   (sum $i b)    is the sum of b over all i in 0..p  (so the sum of something that does not depend on i is p*b = 0)
//   (let $x b t)  is b with x bound to the value of t.
fn rules() -> Vec<Rewrite<M>> {
    vec![
        Rewrite::new("mul-comm", "(mul ?a ?b)", "(mul ?b ?a)"),
        Rewrite::new("mul-assoc", "(mul (mul ?a ?b) ?c)", "(mul ?a (mul ?b ?c))"),
        Rewrite::new("sum-in", "(mul ?a (sum $i ?b))", "(sum $i (mul ?a ?b))"),
        Rewrite::new_if("sum-const", "(sum $i ?a)", "0", |subst, _| {
            !subst["a"].slots().contains(&Slot::named("i"))
        }),
        Rewrite::new("let-subst", "(let $x ?b ?t)", "?b[(var $x) := ?t]"),
    ]
}

const START: &str = "(let $l1 (sum $s4 (var $s3)) (mul (let $l2 (mul (var $l2) (var $c)) (var $a)) 0))";
const ITERATIONS: usize = 3;

#[test]
fn group_contains_index_missing() {
    // print where the panic comes from (and a backtrace, if RUST_BACKTRACE is set).
    std::panic::set_hook(Box::new(|info| {
        let loc = info.location().map(|l| format!("{}:{}:{}", l.file(), l.line(), l.column()));
        let msg = info
            .payload()
            .downcast_ref::<String>()
            .cloned()
            .or_else(|| info.payload().downcast_ref::<&str>().map(|s| s.to_string()));
        eprintln!("PANIC at {:?}: {:?}", loc, msg);
        eprintln!("{}", std::backtrace::Backtrace::capture());
    }));

    let result = std::panic::catch_unwind(|| {
        let start: RecExpr<M> = RecExpr::parse(START).unwrap();
        let mut eg: EGraph<M> = EGraph::new(());
        eg.add_expr(start);
        let rs = rules();
        for it in 0..ITERATIONS {
            eprintln!(
                "iteration {it}: {} e-nodes, {} classes",
                eg.total_number_of_nodes(),
                eg.ids().len()
            );
            apply_rewrites(&mut eg, &rs);
        }
        eprintln!(
            "done: {} e-nodes, {} classes",
            eg.total_number_of_nodes(),
            eg.ids().len()
        );
    });

    let _ = std::panic::take_hook();
    assert!(result.is_ok(), "apply_rewrites panicked on model-valid rules");
}

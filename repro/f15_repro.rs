// candidate defect F15: the multi-pattern matcher binds a child variable to the e-graph's name of a slot that the
// same e-node has just identified with a pattern slot (`?o == (lam $a ?b)`): the child invocation is put into the
// substitution without going through the state's slot union-find, and nothing re-canonicalises it afterwards.
use slotted_egraphs::*;

define_language! {
    pub enum Lam {
        Lambda(Bind<AppliedId>) = "lam",
        App(AppliedId, AppliedId) = "app",
        Var(Slot) = "var",
    }
}

fn check(graph: &str, mp: &str, eqs: &[(&str, &str)]) {
    let mut eg: EGraph<Lam> = EGraph::new(());
    eg.add_expr(RecExpr::parse(graph).unwrap());
    let pat: MultiPattern<Lam> = MultiPattern::parse(mp).unwrap();
    let matches = multi_ematch(&pat, &eg);
    assert!(!matches.is_empty(), "no match at all");
    for m in &matches {
        for (v, node) in eqs {
            // instantiate the right-hand side of the equation with the returned substitution: it has to be
            // represented already, and be equal to what the variable is bound to.
            let p: Pattern<Lam> = Pattern::parse(node).unwrap();
            let n0 = eg.total_number_of_nodes();
            let inst = pattern_subst(&mut eg, &p, m);
            assert_eq!(eg.total_number_of_nodes(), n0, "instantiating {node} with {m:?} inserts new e-nodes: the instance is not represented");
            assert!(eg.eq(&inst, &m[*v]), "the equation ?{v} == {node} does not hold for {m:?}");
        }
    }
}

#[test]
fn binder_slot_reaches_child_variable() {
    check("(lam $x (app (var $x) (var $y)))", "?o == (lam $a ?b)", &[("o", "(lam $a ?b)")]);
}

#[test]
fn control_no_bare_slot() {
    check("(app (var $x) (var $y))", "?o == (app ?a ?b)", &[("o", "(app ?a ?b)")]);
}

// candidate defect F13: a self-referential e-node is re-queued (OnlyAnalysis) by its own update_analysis
// before it is re-canonicalised under a new shape -> stale work-list entry
use slotted_egraphs::*;

define_language! {
    pub enum T {
        G(AppliedId, AppliedId) = "g",
        C(u32),
    }
}

#[derive(Default)]
pub struct Consts;

impl Analysis<T> for Consts {
    type Data = u64; // bit set of the constants below the class
    fn merge(x: u64, y: u64) -> u64 { x | y }
    fn make(eg: &EGraph<T, Self>, sh: &T) -> u64 {
        match sh {
            T::C(k) => 1u64 << (*k as u64 % 60),
            T::G(a, b) => *eg.analysis_data(a.id) | *eg.analysis_data(b.id),
        }
    }
}

fn run(order_flip: bool) {
    let mut eg = EGraph::<T, Consts>::default();
    let a = eg.add_expr(RecExpr::parse("0").unwrap());
    let b = eg.add_expr(RecExpr::parse("1").unwrap());
    let b2 = eg.add_expr(RecExpr::parse("2").unwrap());
    let n = eg.add_expr(RecExpr::parse("(g 0 1)").unwrap());
    // make the class of `0` self-referential: 0 = g(0, 1)
    eg.union(&a, &n);
    eg.check();
    // now merge 1 and 2: g(A, 1) changes its shape AND the datum of A changes
    if order_flip { eg.union(&b2, &b); } else { eg.union(&b, &b2); }
    eg.check();
    assert!(eg.eq(&a, &n));
    assert_eq!(*eg.analysis_data(a.id) & 0b111, 0b111);
}

#[test]
fn self_referential_node_with_changing_datum_a() { run(false) }
#[test]
fn self_referential_node_with_changing_datum_b() { run(true) }

// bigger classes on the `1` side so that `1` is the deprecated one in some orientation
#[test]
fn self_referential_node_with_changing_datum_c() {
    let mut eg = EGraph::<T, Consts>::default();
    let a = eg.add_expr(RecExpr::parse("0").unwrap());
    let b = eg.add_expr(RecExpr::parse("1").unwrap());
    let b2 = eg.add_expr(RecExpr::parse("2").unwrap());
    let _p1 = eg.add_expr(RecExpr::parse("(g 2 2)").unwrap());
    let _p2 = eg.add_expr(RecExpr::parse("(g 2 3)").unwrap());
    let _p3 = eg.add_expr(RecExpr::parse("(g 3 2)").unwrap());
    let n = eg.add_expr(RecExpr::parse("(g 0 1)").unwrap());
    eg.union(&a, &n);
    eg.union(&b, &b2);
    eg.check();
    assert!(eg.eq(&a, &n));
}

// defect F14: Display for MultiPattern prints the left-hand variable of each equation without its `?`,
// so the printed text of a multi-pattern is not accepted by MultiPattern::parse (or, in a language with a
// symbol payload, parses the variable as a constant and is then rejected): print -> parse never round-trips.
use slotted_egraphs::*;

define_language! {
    pub enum T {
        App(AppliedId, AppliedId) = "app",
        Var(Slot) = "var",
        Sym(Symbol),
    }
}

#[test]
fn multipattern_print_parse_roundtrip() {
    for s in ["?x == (app ?a ?b)", "?out == (app ?a ?b), ?b == (var $y)", "?f == foo"] {
        let p: MultiPattern<T> = MultiPattern::parse(s).unwrap();
        let printed = p.to_string();
        let back: MultiPattern<T> = MultiPattern::parse(&printed)
            .unwrap_or_else(|e| panic!("printed multi-pattern {printed:?} (from {s:?}) is rejected: {e:?}"));
        assert_eq!(back.to_string(), printed);
        assert_eq!(printed, s);
    }
}

// Reproductions of the genuine defects found by the static checks (DESIGN.md §5).
// Copied into a scratch worktree as tests/repro.rs to validate "fix:" commits; never run by a registered check.
use slotted_egraphs::*;

define_language! {
    pub enum T {
        F2(Slot, Slot) = "f",
        G3(Slot, Slot, Slot) = "g",
        H(AppliedId) = "h",
        W(AppliedId) = "w",
        Lam(Bind<AppliedId>) = "lam",
        App(AppliedId, AppliedId) = "app",
        Var(Slot) = "var",
        Pair(Slot, AppliedId) = "pair",
        Sum(AppliedId, Bind<AppliedId>) = "sum",
        Number(u32),
    }
}

fn re(s: &str) -> RecExpr<T> { RecExpr::parse(s).unwrap() }

// F1: shrink_slots stores `cap` instead of the orbit closure
#[test]
fn f1_orbit_closure() {
    let mut eg = EGraph::<T>::default();
    let a = eg.add_expr(re("(f $0 $1)"));
    let b = eg.add_expr(re("(f $1 $0)"));
    eg.union(&a, &b);
    let c = eg.add_expr(re("(f $0 $2)"));
    eg.union(&a, &c);
    eg.check();
    let a = eg.find_applied_id(&a);
    assert!(eg.slots(a.id).is_empty(), "both slots must be redundant");
}

// F2: explanation through a 3-cycle symmetry
#[cfg(feature = "explanations")]
#[test]
fn f2_three_cycle_explanation() {
    let mut eg = EGraph::<T>::default();
    let a = eg.add_syn_expr(re("(g $0 $1 $2)"));
    let b = eg.add_syn_expr(re("(g $1 $2 $0)"));
    eg.union_justified(&a, &b, Some("rot".to_string()));
    let p = eg.explain_equivalence(re("(g $0 $1 $2)"), re("(g $2 $0 $1)"));
    let _ = p.to_string(&eg);
    let p = eg.explain_equivalence(re("(w (g $0 $1 $2))"), re("(w (g $2 $0 $1))"));
    let _ = p.to_string(&eg);
}

// F5: slot names are injective
#[test]
fn f5_slot_names_injective() {
    assert_ne!(Slot::named("01"), Slot::named("1"));
    assert_ne!(Slot::named("+1"), Slot::named("1"));
    assert_ne!(Slot::named("f01"), Slot::named("f1"));
    assert_ne!(Slot::named("f+1"), Slot::named("f1"));
    for n in ["01", "+1", "f01", "f+1", "1", "f1", "x", "007", "f007"] {
        let s = Slot::named(n);
        assert_eq!(s.to_string(), format!("${}", n));
    }
}

// F6: shadowing in Bind::weak_shape_impl
#[test]
fn f6_shadowed_binder_shape() {
    let mut eg = EGraph::<T>::default();
    let x = eg.add_expr(re("(sum (var $0) $0 (var $0))"));
    let y = eg.add_expr(re("(sum (var $1) $2 (var $2))"));
    assert_eq!(x.id, y.id);
    assert_eq!(x.slots().len(), 1);
    let n = T::Sum(AppliedId::new(Id(0), SlotMap::from_pairs(&[(Slot::numeric(9), Slot::numeric(0))])),
                   Bind { slot: Slot::numeric(0), elem: AppliedId::new(Id(0), SlotMap::from_pairs(&[(Slot::numeric(9), Slot::numeric(0))])) });
    let (sh, bij) = n.weak_shape();
    assert_eq!(bij.len(), 1, "the bijection must cover the free slot");
    assert_eq!(sh.weak_shape().0, sh, "shape of a shape is itself");
}

// F8: extraction of a class with a redundant slot
#[test]
fn f8_extract_redundant() {
    let mut eg = EGraph::<T>::default();
    let a = eg.add_expr(re("(f $0 $1)"));
    let b = eg.add_expr(re("(f $0 $2)"));
    eg.union(&a, &b);
    let a = eg.find_applied_id(&a);
    let ex = Extractor::<T, AstSize>::new(&eg, AstSize);
    let t = ex.extract(&a, &eg);
    let _ = t.to_string();
}

// F9: add_syn leaves the work-list non-empty (explanations only)
#[test]
fn f9_add_syn_rebuilds() {
    let mut eg = EGraph::<T>::default();
    let f = eg.add_syn_expr(re("(f $0 $1)"));
    let seven = eg.add_syn_expr(re("7"));
    let _hgf = eg.add_syn_expr(re("(h (w (f $0 $1)))"));
    eg.union(&f, &seven);
    let _g7 = eg.add_syn_expr(re("(w 7)"));
    eg.check();
    let n = eg.ids().len();
    assert!(lookup_rec_expr(&re("(h (w 7))"), &eg).is_some(), "(h (w 7)) must be represented");
    let _ = eg.add_expr(re("(h (w 7))"));
    assert_eq!(eg.ids().len(), n, "re-adding a represented term must not allocate");
}

// F3: parsing never panics
#[test]
fn f3_parse_never_panics() {
    for s in ["", "(", "(f", "?a[", "(f $4294967295 $1)", ")", "((", "(f $0", "?", "$", "(f $0 $1))", "?a[(var $0) :=", "?a[(var $0) := ?b", "(lam", "(lam $0"] {
        let _ = Pattern::<T>::parse(s);
        let _ = RecExpr::<T>::parse(s);
    }
    let _ = RecExpr::<T>::parse("?x");
    let _ = RecExpr::<T>::parse("(h ?x)");
}

// F4: arity
#[test]
fn f4_surplus_arguments_rejected() {
    assert!(RecExpr::<T>::parse("(app 1 2 3)").is_err());
    assert!(RecExpr::<T>::parse("(var $x $y)").is_err());
    assert!(RecExpr::<T>::parse("(app 1 2)").is_ok());
}

// F10: apply_slotmap_fresh invented one fresh slot per occurrence instead of per slot
#[test]
fn f10_extract_redundant_slot_occurring_twice() {
    let mut eg = EGraph::<T>::default();
    let a = eg.add_expr(re("(app (var $x) (var $x))"));
    let b = eg.add_expr(re("(app (var $y) (var $y))"));
    eg.union(&a, &b);
    let a = eg.find_applied_id(&a);
    assert!(a.slots().is_empty());
    let ex = Extractor::<T, AstSize>::new(&eg, AstSize);
    let t = ex.extract(&a, &eg);
    let back = lookup_rec_expr(&t, &eg).expect("extracted term must be represented");
    assert!(eg.eq(&back, &a));
}

// F11: "$f1073741823" made the fresh counter overflow (panic in debug, wrap to 1 in release)
#[test]
fn f11_largest_f_name() {
    let s = Slot::named("f1073741823");
    assert_eq!(s.to_string(), "$f1073741823");
    let t = Slot::named("f1073741822");
    assert_eq!(t.to_string(), "$f1073741822");
    assert_ne!(s, t);
    let _ = Pattern::<T>::parse("(var $f1073741823)");
}

// F7 (known finding, not repaired): private occurrences are subtracted by name
#[test]
fn f7_private_public_partition() {
    let x = Slot::numeric(0);
    let app = |s: Slot| AppliedId::new(Id(0), SlotMap::from_pairs(&[(Slot::numeric(9), s)]));
    let n = T::Sum(app(x), Bind { slot: x, elem: app(x) });
    let all = n.all_slot_occurrences().len();
    let public = n.public_slot_occurrences().len();
    let private = n.private_slot_occurrences().len();
    assert_eq!((all, public), (3, 1));
    assert_eq!(public + private, all, "public and private occurrences must partition all occurrences");
}

// LEAD16: `SlotMap::compose() failed!` raised from `EGraph::handle_pending` (src/egraph/rebuild.rs:228)
// inside an ordinary public `union`. Only the public API is used. See LEAD16.md.
//
//   cargo test --offline -j 6 --features checks --test lead16_repro -- --nocapture
//       unmodified library: both tests FAIL with
//       "assertion `left == right` failed: SlotMap::compose() failed!" at src/egraph/rebuild.rs:228:23
//   cargo test --offline -j 6 --test lead16_repro -- --nocapture
//       unmodified library: both tests pass (the e-graph repairs itself before `union` returns).
//
// With the one-word repair from LEAD16.md (`if` -> `while` in `handle_pending`) both tests pass in both builds.

use slotted_egraphs::*;

define_language! {
    pub enum L16 {
        Var(Slot) = "var",
        Lam(Bind<AppliedId>) = "lam",
        Neg(AppliedId) = "neg",
        App(AppliedId, AppliedId) = "app",
        C() = "c",
    }
}

// What the public API has to guarantee after every operation.
fn observe(eg: &EGraph<L16>, handles: &[AppliedId]) {
    eg.check();

    // (a) every e-node of every class can be looked up, and is found in that class.
    for id in eg.ids() {
        for n in eg.enodes(id) {
            let found = eg.lookup(&n);
            assert!(found.is_some(), "lookup({n:?}) = None, but it is an e-node of {id:?}");
            assert_eq!(found.unwrap().id, id, "lookup({n:?}) is not the class that contains it");
        }
    }

    // (b) find_applied_id is idempotent on the handles we hold.
    for h in handles {
        let a = eg.find_applied_id(h);
        let b = eg.find_applied_id(&a);
        assert_eq!(a, b, "find_applied_id is not idempotent on {h:?}");
    }
}

fn add(eg: &mut EGraph<L16>, handles: &mut Vec<AppliedId>, s: &str) -> AppliedId {
    let h = eg.add_expr(RecExpr::parse(s).unwrap());
    handles.push(h.clone());
    observe(eg, handles);
    h
}

fn union(eg: &mut EGraph<L16>, handles: &[AppliedId], a: &AppliedId, b: &AppliedId) {
    eg.union(a, b);
    observe(eg, handles);
}

// The minimal history: two adds and one union. Does not depend on the fresh-slot counter.
//
//   t($0,$1,$2) = neg(t($1,$2,$3))
//
// $0 does not occur on the right, so it is redundant in t. Then $1 is redundant on the right, hence in t; then $2.
#[test]
fn lead16_minimal() {
    let mut eg: EGraph<L16> = EGraph::default();
    let mut hs = Vec::new();
    let a = add(&mut eg, &mut hs, "(app (var $0) (app (var $1) (var $2)))");
    let b = add(&mut eg, &mut hs, "(neg (app (var $1) (app (var $2) (var $3))))");
    union(&mut eg, &hs, &a, &b); // <- panics with `--features checks`

    // the correct final state: one slot-free class that holds both e-nodes.
    let a2 = eg.find_applied_id(&a);
    assert!(eg.eq(&a, &b));
    assert!(a2.slots().is_empty());
    assert!(eg.slots(a2.id).is_empty());
    assert_eq!(eg.enodes(a2.id).len(), 2);
    assert_eq!(eg.ids().len(), 3);
}

// The history that the random-history fuzzer (tests/lead16_fuzz.rs) found and minimised:
// LEAD16_POOL=5, seed 1872, sequential mode.
// Whether it panics depends on the position of the fresh-slot counter (about 37% of the positions do):
// the work list `pending` is a hash map keyed by shapes, and shapes mention the fresh slots of the classes.
// `Slot::named("f0")` puts the (thread-local) counter to `$f1`, which is one of the failing positions.
#[test]
fn lead16_fuzzer_history() {
    std::thread::spawn(|| {
        Slot::named("f0");
        let mut eg: EGraph<L16> = EGraph::default();
        let mut hs = Vec::new();
        let a = add(&mut eg, &mut hs, "(app (var $1) (neg (var $3)))");
        let b = add(
            &mut eg,
            &mut hs,
            "(app (neg (app (var $1) (var $2))) (app (var $3) (neg (var $4))))",
        );
        let x = add(&mut eg, &mut hs, "(var $2)");
        let y = add(&mut eg, &mut hs, "(var $4)");
        union(&mut eg, &hs, &a, &b);
        union(&mut eg, &hs, &x, &y); // <- panics with `--features checks`

        // all variables are equal now, so nothing depends on a slot any more.
        for id in eg.ids() {
            assert!(eg.slots(id).is_empty());
        }
        assert!(eg.eq(&a, &b));
    })
    .join()
    .unwrap();
}

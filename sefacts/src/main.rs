// sefacts: rustc_private driver that dumps type-checked facts (MIR bodies with
// resolved callees and field names, ADTs, impls, statics, unsafe census, hasher
// census) of selected crates to one JSON file per (crate, kind-of-target).
//
// Used as RUSTC_WORKSPACE_WRAPPER: argv[1] is the real rustc path and is dropped.
// Env:  SEFACTS_OUT   directory to write <crate>[.test].json into (required to dump)
//       SEFACTS_CRATES comma separated crate names to dump (default: all workspace crates)
//       SEFACTS_TAG   free text echoed into the file (configuration name)
#![feature(rustc_private)]
#![allow(clippy::all)]

extern crate rustc_abi;
extern crate rustc_driver;
extern crate rustc_hir;
extern crate rustc_interface;
extern crate rustc_middle;
extern crate rustc_span;

use rustc_driver::{Callbacks, Compilation};
use rustc_hir::def::DefKind;
use rustc_hir::def_id::{DefId, LocalDefId};
use rustc_interface::interface::Compiler;
use rustc_middle::mir::{
    self, AggregateKind, BasicBlockData, Body, Const, Operand, Place, PlaceElem, Rvalue,
    StatementKind, TerminatorKind,
};
use rustc_middle::ty::print::with_no_trimmed_paths;
use rustc_middle::ty::{self, Instance, Ty, TyCtxt, TypingEnv};
use rustc_span::Span;
use std::fmt::Write as _;

fn esc(s: &str) -> String {
    let mut o = String::with_capacity(s.len() + 2);
    o.push('"');
    for c in s.chars() {
        match c {
            '"' => o.push_str("\\\""),
            '\\' => o.push_str("\\\\"),
            '\n' => o.push_str("\\n"),
            '\r' => o.push_str("\\r"),
            '\t' => o.push_str("\\t"),
            c if (c as u32) < 0x20 => {
                let _ = write!(o, "\\u{:04x}", c as u32);
            }
            c => o.push(c),
        }
    }
    o.push('"');
    o
}

fn arr(v: &[String]) -> String {
    let mut o = String::from("[");
    for (i, x) in v.iter().enumerate() {
        if i > 0 {
            o.push(',');
        }
        o.push_str(x);
    }
    o.push(']');
    o
}

fn obj(v: &[(&str, String)]) -> String {
    let mut o = String::from("{");
    for (i, (k, x)) in v.iter().enumerate() {
        if i > 0 {
            o.push(',');
        }
        o.push_str(&esc(k));
        o.push(':');
        o.push_str(x);
    }
    o.push('}');
    o
}

fn b(x: bool) -> String {
    (if x { "true" } else { "false" }).to_string()
}

struct Cx<'tcx> {
    tcx: TyCtxt<'tcx>,
}

impl<'tcx> Cx<'tcx> {
    fn path(&self, d: DefId) -> String {
        with_no_trimmed_paths!(self.tcx.def_path_str(d))
    }

    fn tys(&self, t: Ty<'tcx>) -> String {
        with_no_trimmed_paths!(t.to_string())
    }

    fn span(&self, sp: Span) -> Vec<(&'static str, String)> {
        let sm = self.tcx.sess.source_map();
        let cs = sp.source_callsite();
        let lo = sm.lookup_char_pos(cs.lo());
        let file = format!("{}", lo.file.name.prefer_remapped_unconditionally());
        let mut v = vec![("file", esc(&file)), ("line", lo.line.to_string()), ("col", lo.col.0.to_string())];
        if sp.from_expansion() {
            let macs: Vec<String> = sp
                .macro_backtrace()
                .map(|e| match e.kind {
                    rustc_span::ExpnKind::Macro(_, name) => esc(name.as_str()),
                    rustc_span::ExpnKind::Desugaring(d) => esc(&format!("desugar:{:?}", d)),
                    rustc_span::ExpnKind::AstPass(p) => esc(&format!("astpass:{:?}", p)),
                    rustc_span::ExpnKind::Root => esc("root"),
                })
                .collect();
            v.push(("mac", arr(&macs)));
        }
        v
    }

    fn line(&self, sp: Span) -> String {
        let sm = self.tcx.sess.source_map();
        let lo = sm.lookup_char_pos(sp.source_callsite().lo());
        lo.line.to_string()
    }

    fn macs(&self, sp: Span) -> Option<String> {
        if !sp.from_expansion() {
            return None;
        }
        let macs: Vec<String> = sp
            .macro_backtrace()
            .map(|e| match e.kind {
                rustc_span::ExpnKind::Macro(_, name) => esc(name.as_str()),
                rustc_span::ExpnKind::Desugaring(d) => esc(&format!("desugar:{:?}", d)),
                rustc_span::ExpnKind::AstPass(p) => esc(&format!("astpass:{:?}", p)),
                rustc_span::ExpnKind::Root => esc("root"),
            })
            .collect();
        Some(arr(&macs))
    }

    fn place(&self, body: &Body<'tcx>, p: &Place<'tcx>) -> String {
        let tcx = self.tcx;
        let mut pty = mir::PlaceTy::from_ty(body.local_decls[p.local].ty);
        let mut projs = Vec::new();
        for elem in p.projection.iter() {
            let s = match elem {
                PlaceElem::Deref => esc("*"),
                PlaceElem::Field(f, fty) => {
                    let (name, adt) = match pty.ty.kind() {
                        ty::Adt(def, _) => {
                            let vi = pty.variant_index.unwrap_or(rustc_abi::FIRST_VARIANT);
                            let var = def.variant(vi);
                            let fname = var.fields[f].name.as_str().to_string();
                            (fname, self.path(def.did()))
                        }
                        ty::Closure(d, _) | ty::Coroutine(d, _) | ty::CoroutineClosure(d, _) => {
                            (format!("upvar#{}", f.as_usize()), self.path(*d))
                        }
                        ty::Tuple(_) => (format!("{}", f.as_usize()), "tuple".to_string()),
                        _ => (format!("{}", f.as_usize()), "?".to_string()),
                    };
                    obj(&[("f", esc(&name)), ("adt", esc(&adt)), ("i", f.as_usize().to_string()), ("ty", esc(&self.tys(fty)))])
                }
                PlaceElem::Index(l) => obj(&[("idx", l.as_usize().to_string())]),
                PlaceElem::ConstantIndex { offset, min_length, from_end } => obj(&[
                    ("cidx", offset.to_string()),
                    ("min", min_length.to_string()),
                    ("from_end", b(from_end)),
                ]),
                PlaceElem::Subslice { from, to, from_end } => {
                    obj(&[("sub", arr(&[from.to_string(), to.to_string()])), ("from_end", b(from_end))])
                }
                PlaceElem::Downcast(name, vi) => {
                    let n = match name {
                        Some(s) => s.as_str().to_string(),
                        None => format!("#{}", vi.as_usize()),
                    };
                    obj(&[("dc", esc(&n)), ("vi", vi.as_usize().to_string())])
                }
                _ => esc("?"),
            };
            projs.push(s);
            pty = pty.projection_ty(tcx, elem);
        }
        obj(&[("l", p.local.as_usize().to_string()), ("p", arr(&projs))])
    }

    fn fn_ref(&self, owner: DefId, def_id: DefId, args: ty::GenericArgsRef<'tcx>) -> Vec<(&'static str, String)> {
        let tcx = self.tcx;
        let mut v = vec![("fn", esc(&self.path(def_id)))];
        let argstrs: Vec<String> = args.iter().map(|a| esc(&with_no_trimmed_paths!(a.to_string()))).collect();
        v.push(("gargs", arr(&argstrs)));
        v.push(("local", b(def_id.is_local())));
        let dk = tcx.def_kind(def_id);
        v.push(("dkind", esc(&format!("{:?}", dk))));
        if matches!(dk, DefKind::AssocFn) {
            if let Some(tr) = tcx.trait_of_assoc(def_id) {
                v.push(("trait", esc(&self.path(tr))));
            }
            if let Some(ai) = tcx.opt_associated_item(def_id) {
                if let Some(n) = ai.opt_name() { v.push(("name", esc(n.as_str()))); }
                if let Some(imp) = tcx.impl_of_assoc(def_id) {
                    let self_ty = tcx.type_of(imp).instantiate_identity().skip_norm_wip();
                    v.push(("impl_self", esc(&self.tys(self_ty))));
                    if let Some(tr) = tcx.impl_opt_trait_ref(imp) {
                        v.push(("impl_trait", esc(&self.path(tr.skip_binder().def_id))));
                    }
                }
            }
        } else if matches!(dk, DefKind::Fn) {
            v.push(("name", esc(tcx.item_name(def_id).as_str())));
        }
        // resolution
        let env = TypingEnv::post_analysis(tcx, owner);
        if matches!(dk, DefKind::Fn | DefKind::AssocFn) {
            if let Ok(Some(inst)) = Instance::try_resolve(tcx, env, def_id, args) {
                let rd = inst.def_id();
                v.push(("res", esc(&self.path(rd))));
                v.push(("res_local", b(rd.is_local())));
                let ik = match inst.def {
                    ty::InstanceKind::Item(_) => "item",
                    ty::InstanceKind::Virtual(..) => "virtual",
                    ty::InstanceKind::ClosureOnceShim { .. } => "closure_once",
                    ty::InstanceKind::FnPtrShim(..) => "fnptr_shim",
                    ty::InstanceKind::CloneShim(..) => "clone_shim",
                    ty::InstanceKind::DropGlue(..) => "drop_glue",
                    ty::InstanceKind::Intrinsic(..) => "intrinsic",
                    _ => "other",
                };
                v.push(("ik", esc(ik)));
            }
        }
        v
    }

    fn operand(&self, owner: DefId, body: &Body<'tcx>, o: &Operand<'tcx>) -> String {
        match o {
            Operand::Copy(p) => obj(&[("k", esc("copy")), ("pl", self.place(body, p))]),
            Operand::Move(p) => obj(&[("k", esc("move")), ("pl", self.place(body, p))]),
            Operand::Constant(c) => {
                let ty = c.const_.ty();
                let mut v: Vec<(&str, String)> = vec![("k", esc("const")), ("ty", esc(&self.tys(ty)))];
                match ty.kind() {
                    ty::FnDef(d, args) => {
                        v.extend(self.fn_ref(owner, *d, args));
                    }
                    ty::Closure(d, _) => {
                        v.push(("closure", esc(&self.path(*d))));
                    }
                    _ => {}
                }
                if let Const::Unevaluated(uv, _) = c.const_ {
                    v.push(("cdef", esc(&self.path(uv.def))));
                    if uv.promoted.is_some() {
                        v.push(("promoted", uv.promoted.unwrap().as_usize().to_string()));
                        // a promoted `&Enum::UnitVariant` (the right-hand side of `x == Enum::Variant`): say which variant it is
                        if let Some(ld) = uv.def.as_local() {
                            let proms = self.tcx.promoted_mir(ld);
                            if let Some(pb) = proms.get(uv.promoted.unwrap()) {
                                let mut found: Vec<(String, String, usize)> = Vec::new();
                                let mut others = 0usize;
                                for bbd in pb.basic_blocks.iter() {
                                    for st in &bbd.statements {
                                        if let StatementKind::Assign(bx) = &st.kind {
                                            match &bx.1 {
                                                Rvalue::Aggregate(ak, ops) if ops.is_empty() => {
                                                    if let AggregateKind::Adt(d, vi, _, _, _) = &**ak {
                                                        let def = self.tcx.adt_def(*d);
                                                        found.push((self.path(*d), def.variant(*vi).name.as_str().to_string(), vi.as_usize()));
                                                    } else {
                                                        others += 1;
                                                    }
                                                }
                                                Rvalue::Ref(..) => {}
                                                _ => others += 1,
                                            }
                                        }
                                    }
                                }
                                if found.len() == 1 && others == 0 {
                                    v.push(("padt", esc(&found[0].0)));
                                    v.push(("pvariant", esc(&found[0].1)));
                                    v.push(("pvi", found[0].2.to_string()));
                                }
                            }
                        }
                    }
                }
                if ty.is_integral() || ty.is_bool() || ty.is_char() {
                    if let Some(si) = c.const_.try_to_scalar_int() {
                        let sz = si.size();
                        let bits = si.to_bits(sz);
                        v.push(("int", esc(&bits.to_string())));
                    }
                }
                let mut text = with_no_trimmed_paths!(format!("{}", c.const_));
                // a named integer constant (`const MAX: u32 = ..`) is presented as the literal it evaluates to: introducing a
                // name for a literal changes nothing for the rules.  (bool constants such as CHECKS stay symbolic.)
                if let Const::Unevaluated(uv, _) = c.const_ {
                    if uv.promoted.is_none() && (ty.is_integral() || ty.is_char()) && c.const_.try_to_scalar_int().is_none() {
                        let generic = self.tcx.generics_of(uv.def).count() > 0;
                        if !generic {
                            if let Some(si) = c.const_.try_eval_scalar_int(self.tcx, ty::TypingEnv::post_analysis(self.tcx, owner)) {
                                let sz = si.size();
                                let bits = si.to_bits(sz);
                                v.push(("int", esc(&bits.to_string())));
                                v.push(("named_const", esc(&text)));
                                text = format!("{}_{}", bits, self.tys(ty));
                            }
                        }
                    }
                }
                let text = if text.len() > 300 { format!("{}…", &text.chars().take(300).collect::<String>()) } else { text };
                v.push(("text", esc(&text)));
                obj(&v)
            }
            #[allow(unreachable_patterns)]
            _ => obj(&[("k", esc("other")), ("text", esc(&format!("{:?}", o)))]),
        }
    }

    fn rvalue(&self, owner: DefId, body: &Body<'tcx>, rv: &Rvalue<'tcx>) -> String {
        let op = |o: &Operand<'tcx>| self.operand(owner, body, o);
        match rv {
            Rvalue::Use(o, ..) => obj(&[("k", esc("use")), ("op", op(o))]),
            Rvalue::Repeat(o, _) => obj(&[("k", esc("repeat")), ("op", op(o))]),
            Rvalue::Ref(_, bk, p) => {
                let m = matches!(bk, mir::BorrowKind::Mut { .. });
                obj(&[("k", esc("ref")), ("mut", b(m)), ("pl", self.place(body, p)), ("bk", esc(&format!("{:?}", bk)))])
            }
            Rvalue::RawPtr(k, p) => obj(&[("k", esc("rawptr")), ("kind", esc(&format!("{:?}", k))), ("pl", self.place(body, p))]),
            Rvalue::ThreadLocalRef(d) => obj(&[("k", esc("tlref")), ("def", esc(&self.path(*d)))]),
            Rvalue::Cast(ck, o, t) => obj(&[
                ("k", esc("cast")),
                ("ck", esc(&format!("{:?}", ck))),
                ("op", op(o)),
                ("ty", esc(&self.tys(*t))),
            ]),
            Rvalue::BinaryOp(bop, ops) => obj(&[
                ("k", esc("bin")),
                ("op", esc(&format!("{:?}", bop))),
                ("a", op(&ops.0)),
                ("b", op(&ops.1)),
            ]),
            Rvalue::UnaryOp(uop, o) => obj(&[("k", esc("un")), ("op", esc(&format!("{:?}", uop))), ("a", op(o))]),
            Rvalue::Discriminant(p) => obj(&[("k", esc("discr")), ("pl", self.place(body, p))]),
            Rvalue::CopyForDeref(p) => obj(&[("k", esc("use")), ("op", obj(&[("k", esc("copy")), ("pl", self.place(body, p))]))]),
            Rvalue::Aggregate(ak, ops) => {
                let opsj: Vec<String> = ops.iter().map(|o| op(o)).collect();
                let mut v: Vec<(&str, String)> = vec![("k", esc("agg"))];
                match &**ak {
                    AggregateKind::Array(_) => v.push(("agg", esc("array"))),
                    AggregateKind::Tuple => v.push(("agg", esc("tuple"))),
                    AggregateKind::Adt(d, vi, _, _, _) => {
                        v.push(("agg", esc("adt")));
                        v.push(("adt", esc(&self.path(*d))));
                        let def = self.tcx.adt_def(*d);
                        let var = def.variant(*vi);
                        v.push(("variant", esc(var.name.as_str())));
                        v.push(("vi", vi.as_usize().to_string()));
                        let fnames: Vec<String> = var.fields.iter().map(|f| esc(f.name.as_str())).collect();
                        v.push(("fields", arr(&fnames)));
                    }
                    AggregateKind::Closure(d, _) | AggregateKind::Coroutine(d, _) | AggregateKind::CoroutineClosure(d, _) => {
                        v.push(("agg", esc("closure")));
                        v.push(("def", esc(&self.path(*d))));
                    }
                    AggregateKind::RawPtr(..) => v.push(("agg", esc("rawptr"))),
                }
                v.push(("ops", arr(&opsj)));
                obj(&v)
            }
            other => obj(&[("k", esc("other")), ("text", esc(&format!("{:?}", other)))]),
        }
    }

    fn block(&self, owner: DefId, body: &Body<'tcx>, bbd: &BasicBlockData<'tcx>) -> String {
        let mut stmts = Vec::new();
        for st in &bbd.statements {
            match &st.kind {
                StatementKind::Assign(bx) => {
                    let (pl, rv) = &**bx;
                    let mut v: Vec<(&str, String)> = vec![
                        ("k", esc("assign")),
                        ("lhs", self.place(body, pl)),
                        ("rv", self.rvalue(owner, body, rv)),
                        ("line", self.line(st.source_info.span)),
                    ];
                    if let Some(m) = self.macs(st.source_info.span) {
                        v.push(("mac", m));
                    }
                    stmts.push(obj(&v));
                }
                StatementKind::SetDiscriminant { place, variant_index } => {
                    stmts.push(obj(&[
                        ("k", esc("setdiscr")),
                        ("lhs", self.place(body, place)),
                        ("vi", variant_index.as_usize().to_string()),
                        ("line", self.line(st.source_info.span)),
                    ]));
                }
                _ => {}
            }
        }
        let term = bbd.terminator();
        let sp = term.source_info.span;
        let mut t: Vec<(&str, String)> = Vec::new();
        let bbs = |x: mir::BasicBlock| x.as_usize().to_string();
        let unwind = |u: &mir::UnwindAction| match u {
            mir::UnwindAction::Cleanup(bb) => bb.as_usize().to_string(),
            _ => "null".to_string(),
        };
        match &term.kind {
            TerminatorKind::Goto { target } => {
                t.push(("k", esc("goto")));
                t.push(("target", bbs(*target)));
            }
            TerminatorKind::SwitchInt { discr, targets } => {
                t.push(("k", esc("switch")));
                t.push(("discr", self.operand(owner, body, discr)));
                let mut cases = Vec::new();
                for (val, bb) in targets.iter() {
                    cases.push(arr(&[esc(&val.to_string()), bbs(bb)]));
                }
                t.push(("cases", arr(&cases)));
                t.push(("otherwise", bbs(targets.otherwise())));
            }
            TerminatorKind::Return => t.push(("k", esc("return"))),
            TerminatorKind::Unreachable => t.push(("k", esc("unreachable"))),
            TerminatorKind::UnwindResume => t.push(("k", esc("resume"))),
            TerminatorKind::UnwindTerminate(_) => t.push(("k", esc("terminate"))),
            TerminatorKind::Drop { place, target, unwind: u, .. } => {
                t.push(("k", esc("drop")));
                t.push(("pl", self.place(body, place)));
                t.push(("target", bbs(*target)));
                t.push(("unwind", unwind(u)));
            }
            TerminatorKind::Call { func, args, destination, target, unwind: u, .. } => {
                t.push(("k", esc("call")));
                t.push(("func", self.operand(owner, body, func)));
                let a: Vec<String> = args.iter().map(|x| self.operand(owner, body, &x.node)).collect();
                t.push(("args", arr(&a)));
                t.push(("dest", self.place(body, destination)));
                t.push(("target", match target { Some(x) => bbs(*x), None => "null".into() }));
                t.push(("unwind", unwind(u)));
            }
            TerminatorKind::TailCall { func, args, .. } => {
                t.push(("k", esc("tailcall")));
                t.push(("func", self.operand(owner, body, func)));
                let a: Vec<String> = args.iter().map(|x| self.operand(owner, body, &x.node)).collect();
                t.push(("args", arr(&a)));
            }
            TerminatorKind::Assert { cond, expected, msg, target, unwind: u } => {
                t.push(("k", esc("assert")));
                t.push(("cond", self.operand(owner, body, cond)));
                t.push(("expected", b(*expected)));
                let (kind, ops): (&str, Vec<String>) = match &**msg {
                    mir::AssertKind::BoundsCheck { len, index } => {
                        ("bounds", vec![self.operand(owner, body, len), self.operand(owner, body, index)])
                    }
                    mir::AssertKind::Overflow(op, a, bb_) => {
                        let k: &'static str = match op {
                            mir::BinOp::Add => "overflow_add",
                            mir::BinOp::Sub => "overflow_sub",
                            mir::BinOp::Mul => "overflow_mul",
                            mir::BinOp::Shl => "overflow_shl",
                            mir::BinOp::Shr => "overflow_shr",
                            _ => "overflow_other",
                        };
                        (k, vec![self.operand(owner, body, a), self.operand(owner, body, bb_)])
                    }
                    mir::AssertKind::OverflowNeg(a) => ("overflow_neg", vec![self.operand(owner, body, a)]),
                    mir::AssertKind::DivisionByZero(a) => ("div_zero", vec![self.operand(owner, body, a)]),
                    mir::AssertKind::RemainderByZero(a) => ("rem_zero", vec![self.operand(owner, body, a)]),
                    mir::AssertKind::MisalignedPointerDereference { .. } => ("misaligned", vec![]),
                    mir::AssertKind::NullPointerDereference => ("nullptr", vec![]),
                    _ => ("other", vec![]),
                };
                t.push(("akind", esc(kind)));
                t.push(("aops", arr(&ops)));
                t.push(("target", bbs(*target)));
                t.push(("unwind", unwind(u)));
            }
            TerminatorKind::FalseEdge { real_target, .. } => {
                t.push(("k", esc("goto")));
                t.push(("target", bbs(*real_target)));
            }
            TerminatorKind::FalseUnwind { real_target, .. } => {
                t.push(("k", esc("goto")));
                t.push(("target", bbs(*real_target)));
            }
            other => {
                t.push(("k", esc("other")));
                t.push(("text", esc(&format!("{:?}", other))));
            }
        }
        t.push(("line", self.line(sp)));
        if let Some(m) = self.macs(sp) {
            t.push(("mac", m));
        }
        obj(&[("cleanup", b(bbd.is_cleanup)), ("stmts", arr(&stmts)), ("term", obj(&t))])
    }

    fn body(&self, ldid: LocalDefId) -> Option<String> {
        let tcx = self.tcx;
        let did = ldid.to_def_id();
        let dk = tcx.def_kind(did);
        if !matches!(dk, DefKind::Fn | DefKind::AssocFn | DefKind::Closure) {
            return None;
        }
        if !tcx.is_mir_available(did) {
            return None;
        }
        let body: &Body<'tcx> = tcx.optimized_mir(did);
        let mut v: Vec<(&str, String)> = Vec::new();
        v.push(("id", esc(&self.path(did))));
        v.push(("kind", esc(&format!("{:?}", dk))));
        if let Some(n) = tcx.opt_item_name(did) {
            v.push(("name", esc(n.as_str())));
        }
        let parent = tcx.parent(did);
        v.push(("parent", esc(&self.path(parent))));
        v.push(("parent_kind", esc(&format!("{:?}", tcx.def_kind(parent)))));
        if matches!(dk, DefKind::Closure) {
            let tr = tcx.typeck_root_def_id(did);
            v.push(("root", esc(&self.path(tr))));
        }
        if matches!(dk, DefKind::Fn | DefKind::AssocFn) {
            let vis = tcx.visibility(did);
            let viss = match vis {
                ty::Visibility::Public => "pub".to_string(),
                ty::Visibility::Restricted(m) => {
                    if m.is_crate_root() { "crate".to_string() } else { format!("in:{}", self.path(m)) }
                }
            };
            v.push(("vis", esc(&viss)));
            // effective reachability from outside the crate
            v.push(("reachable", b(tcx.effective_visibilities(()).is_reachable(ldid))));
        }
        if matches!(dk, DefKind::AssocFn) {
            if let Some(imp) = tcx.impl_of_assoc(did) {
                let self_ty = tcx.type_of(imp).instantiate_identity().skip_norm_wip();
                v.push(("impl_self", esc(&self.tys(self_ty))));
                if let Some(tr) = tcx.impl_opt_trait_ref(imp) {
                    v.push(("impl_trait", esc(&self.path(tr.skip_binder().def_id))));
                }
                let attrs_auto = tcx.is_automatically_derived(imp);
                v.push(("auto_derived", b(attrs_auto)));
            } else if let Some(tr) = tcx.trait_of_assoc(did) {
                v.push(("trait_default_of", esc(&self.path(tr))));
            }
        }
        let sp = tcx.def_span(did);
        let mut spv = self.span(sp);
        v.append(&mut spv);
        v.push(("from_expansion", b(sp.from_expansion())));
        v.push(("argc", body.arg_count.to_string()));
        // locals
        let mut locals = Vec::new();
        for ld in body.local_decls.iter() {
            let mut lv: Vec<(&str, String)> = vec![("ty", esc(&self.tys(ld.ty)))];
            if ld.mutability.is_mut() {
                lv.push(("mut", b(true)));
            }
            locals.push(obj(&lv));
        }
        v.push(("locals", arr(&locals)));
        let mut dbg = Vec::new();
        for vdi in &body.var_debug_info {
            if let mir::VarDebugInfoContents::Place(p) = &vdi.value {
                dbg.push(obj(&[("name", esc(vdi.name.as_str())), ("pl", self.place(body, p)), ("line", self.line(vdi.source_info.span))]));
            }
        }
        v.push(("vars", arr(&dbg)));
        let mut blocks = Vec::new();
        for bbd in body.basic_blocks.iter() {
            blocks.push(self.block(did, body, bbd));
        }
        v.push(("blocks", arr(&blocks)));
        // hash containers named in local types
        let mut hashers = Vec::new();
        for ld in body.local_decls.iter() {
            self.collect_hashers(ld.ty, &mut hashers);
        }
        hashers.sort();
        hashers.dedup();
        v.push(("hashers", arr(&hashers)));
        Some(obj(&v))
    }

    fn collect_hashers(&self, t: Ty<'tcx>, out: &mut Vec<String>) {
        for ga in t.walk() {
            if let Some(t) = ga.as_type() {
                if let ty::Adt(def, args) = t.kind() {
                    let p = self.path(def.did());
                    if p == "std::collections::HashMap" || p == "std::collections::HashSet"
                        || p.ends_with("hash::map::HashMap") || p.ends_with("hash::set::HashSet")
                    {
                        let hi = if p.ends_with("HashMap") { 2 } else { 1 };
                        let h = args.iter().nth(hi).map(|a| with_no_trimmed_paths!(a.to_string())).unwrap_or_default();
                        out.push(arr(&[esc(&p), esc(&h)]));
                    }
                }
            }
        }
    }
}

struct Cb;

impl Callbacks for Cb {
    fn after_analysis<'tcx>(&mut self, _c: &Compiler, tcx: TyCtxt<'tcx>) -> Compilation {
        let out_dir = match std::env::var("SEFACTS_OUT") {
            Ok(x) => x,
            Err(_) => return Compilation::Continue,
        };
        let krate = tcx.crate_name(rustc_hir::def_id::LOCAL_CRATE).to_string();
        if let Ok(list) = std::env::var("SEFACTS_CRATES") {
            if !list.split(',').any(|c| c == krate) {
                return Compilation::Continue;
            }
        }
        let is_test = tcx.sess.opts.test;
        let cx = Cx { tcx };
        let mut top: Vec<(&str, String)> = Vec::new();
        top.push(("crate", esc(&krate)));
        top.push(("test_harness", b(is_test)));
        top.push(("tag", esc(&std::env::var("SEFACTS_TAG").unwrap_or_default())));
        top.push(("src_hash", esc(&std::env::var("SEFACTS_SRC_HASH").unwrap_or_default())));
        // cfg features
        let mut feats = Vec::new();
        for (name, val) in tcx.sess.config.iter() {
            if name.as_str() == "feature" {
                if let Some(v) = val {
                    feats.push(esc(v.as_str()));
                }
            }
        }
        feats.sort();
        top.push(("features", arr(&feats)));

        // bodies
        let mut bodies = Vec::new();
        for ldid in tcx.mir_keys(()).iter() {
            if let Some(bj) = cx.body(*ldid) {
                bodies.push(bj);
            }
        }
        top.push(("bodies", arr(&bodies)));

        // items: adts, impls, statics, consts, fns without bodies
        let mut adts = Vec::new();
        let mut impls = Vec::new();
        let mut statics = Vec::new();
        let mut consts = Vec::new();
        let mut sig_hashers = Vec::new();
        for ldid in tcx.hir_crate_items(()).definitions() {
            let did = ldid.to_def_id();
            let dk = tcx.def_kind(did);
            match dk {
                DefKind::Struct | DefKind::Enum | DefKind::Union => {
                    let def = tcx.adt_def(did);
                    let mut vars = Vec::new();
                    for var in def.variants().iter() {
                        let mut fs = Vec::new();
                        for f in var.fields.iter() {
                            let fty = tcx.type_of(f.did).instantiate_identity().skip_norm_wip();
                            let mut hs = Vec::new();
                            cx.collect_hashers(fty, &mut hs);
                            sig_hashers.extend(hs.into_iter().map(|h| arr(&[esc(&cx.path(did)), h])));
                            let vis = match f.vis {
                                ty::Visibility::Public => "pub".to_string(),
                                ty::Visibility::Restricted(m) => {
                                    if m.is_crate_root() { "crate".to_string() } else { format!("in:{}", cx.path(m)) }
                                }
                            };
                            fs.push(obj(&[("name", esc(f.name.as_str())), ("ty", esc(&cx.tys(fty))), ("vis", esc(&vis))]));
                        }
                        vars.push(obj(&[("name", esc(var.name.as_str())), ("fields", arr(&fs))]));
                    }
                    let mut av = vec![
                        ("path", esc(&cx.path(did))),
                        ("kind", esc(&format!("{:?}", dk))),
                        ("variants", arr(&vars)),
                    ];
                    av.extend(cx.span(tcx.def_span(did)));
                    adts.push(obj(&av));
                }
                DefKind::Impl { of_trait } => {
                    let self_ty = tcx.type_of(did).instantiate_identity().skip_norm_wip();
                    let mut iv: Vec<(&str, String)> = vec![("self", esc(&cx.tys(self_ty)))];
                    if let ty::Adt(d, _) = self_ty.kind() {
                        iv.push(("self_adt", esc(&cx.path(d.did()))));
                    }
                    if of_trait {
                        if let Some(tr) = tcx.impl_opt_trait_ref(did) {
                            iv.push(("trait", esc(&cx.path(tr.skip_binder().def_id))));
                        }
                    }
                    iv.push(("auto_derived", b(tcx.is_automatically_derived(did))));
                    let mut items = Vec::new();
                    for ai in tcx.associated_items(did).in_definition_order() {
                        items.push(obj(&[("name", esc(ai.opt_name().map(|n| n.as_str().to_string()).unwrap_or_default().as_str())), ("def", esc(&cx.path(ai.def_id)))]));
                    }
                    iv.push(("items", arr(&items)));
                    iv.extend(cx.span(tcx.def_span(did)));
                    iv.push(("from_expansion", b(tcx.def_span(did).from_expansion())));
                    impls.push(obj(&iv));
                }
                DefKind::Static { mutability, .. } => {
                    let t = tcx.type_of(did).instantiate_identity().skip_norm_wip();
                    let attrs = tcx.codegen_fn_attrs(did);
                    let tl = attrs.flags.contains(rustc_middle::middle::codegen_fn_attrs::CodegenFnAttrFlags::THREAD_LOCAL);
                    let mut sv = vec![
                        ("path", esc(&cx.path(did))),
                        ("ty", esc(&cx.tys(t))),
                        ("mut", b(mutability.is_mut())),
                        ("thread_local", b(tl)),
                    ];
                    sv.extend(cx.span(tcx.def_span(did)));
                    sv.push(("from_expansion", b(tcx.def_span(did).from_expansion())));
                    statics.push(obj(&sv));
                }
                DefKind::Const { .. } | DefKind::AssocConst { .. } => {
                    let t = tcx.type_of(did).instantiate_identity().skip_norm_wip();
                    let mut cv = vec![("path", esc(&cx.path(did))), ("ty", esc(&cx.tys(t)))];
                    cv.extend(cx.span(tcx.def_span(did)));
                    consts.push(obj(&cv));
                }
                DefKind::Fn | DefKind::AssocFn => {
                    let sig = tcx.fn_sig(did).instantiate_identity().skip_norm_wip().skip_binder();
                    for t in sig.inputs_and_output.iter() {
                        let mut hs = Vec::new();
                        cx.collect_hashers(t, &mut hs);
                        sig_hashers.extend(hs.into_iter().map(|h| arr(&[esc(&cx.path(did)), h])));
                    }
                }
                _ => {}
            }
        }
        sig_hashers.sort();
        sig_hashers.dedup();
        top.push(("adts", arr(&adts)));
        top.push(("impls", arr(&impls)));
        top.push(("statics", arr(&statics)));
        top.push(("consts", arr(&consts)));
        top.push(("sig_hashers", arr(&sig_hashers)));

        // unsafe census through HIR
        let mut uv = UnsafeV { cx: &cx, out: Vec::new() };
        tcx.hir_walk_toplevel_module(&mut uv);
        top.push(("unsafe", arr(&uv.out)));

        let fname = format!("{}/{}{}.json", out_dir, krate, if is_test { ".test" } else { "" });
        let data = obj(&top);
        let tmp = format!("{}.tmp{}", fname, std::process::id());
        std::fs::write(&tmp, data).expect("sefacts: cannot write fact file");
        std::fs::rename(&tmp, &fname).expect("sefacts: cannot rename fact file");
        Compilation::Continue
    }
}

struct UnsafeV<'a, 'tcx> {
    cx: &'a Cx<'tcx>,
    out: Vec<String>,
}

impl<'a, 'tcx> rustc_hir::intravisit::Visitor<'tcx> for UnsafeV<'a, 'tcx> {
    type NestedFilter = rustc_middle::hir::nested_filter::All;

    fn maybe_tcx(&mut self) -> Self::MaybeTyCtxt {
        self.cx.tcx
    }

    fn visit_block(&mut self, blk: &'tcx rustc_hir::Block<'tcx>) {
        if let rustc_hir::BlockCheckMode::UnsafeBlock(src) = blk.rules {
            let mut v = vec![("what", esc("block")), ("src", esc(&format!("{:?}", src)))];
            v.extend(self.cx.span(blk.span));
            v.push(("from_expansion", b(blk.span.from_expansion())));
            self.out.push(obj(&v));
        }
        rustc_hir::intravisit::walk_block(self, blk);
    }

    fn visit_item(&mut self, it: &'tcx rustc_hir::Item<'tcx>) {
        match &it.kind {
            rustc_hir::ItemKind::Impl(imp) => {
                if let Some(tr) = imp.of_trait {
                    if matches!(tr.safety, rustc_hir::Safety::Unsafe) {
                        let mut v = vec![("what", esc("unsafe_impl"))];
                        v.extend(self.cx.span(it.span));
                        v.push(("from_expansion", b(it.span.from_expansion())));
                        self.out.push(obj(&v));
                    }
                }
            }
            rustc_hir::ItemKind::Fn { sig, .. } => {
                if sig.header.is_unsafe() {
                    let mut v = vec![("what", esc("unsafe_fn"))];
                    v.extend(self.cx.span(it.span));
                    v.push(("from_expansion", b(it.span.from_expansion())));
                    self.out.push(obj(&v));
                }
            }
            _ => {}
        }
        rustc_hir::intravisit::walk_item(self, it);
    }
}

fn main() {
    // RUSTC_WORKSPACE_WRAPPER passes the real rustc as argv[1].
    let mut args: Vec<String> = std::env::args().collect();
    if args.len() > 1 && (args[1].ends_with("rustc") || args[1].contains("/rustc")) {
        args.remove(1);
    }
    rustc_driver::run_compiler(&args, &mut Cb);
}

//! E4: compile-fail witnesses.  Every witness `w_*` is a program that MUST NOT type-check against the
//! library, with the error code it must fail with; every twin `t_*` differs only in the offending line and
//! MUST compile (it is `no_run`: nothing is executed).  A witness whose path is merely wrong would also
//! "fail to compile"; the twin and the error code rule that out.
//! Run with `cargo +nightly test --doc` (error codes are honoured on nightly only).

/// C17: a slot cannot be forged from a raw number.
/// ```compile_fail,E0423
/// use slotted_egraphs::*;
/// let s = Slot(5);
/// ```
pub fn w_c17_slot_ctor() {}

/// ```no_run
/// use slotted_egraphs::*;
/// let s = Slot::numeric(5);
/// ```
pub fn t_c17_slot_ctor() {}

/// C17: the representation of a slot cannot be read or written from outside.
/// ```compile_fail,E0616
/// use slotted_egraphs::*;
/// let s = Slot::numeric(5);
/// let raw = s.0;
/// ```
pub fn w_c17_slot_field() {}

/// ```no_run
/// use slotted_egraphs::*;
/// let s = Slot::numeric(5);
/// let raw = s.to_string();
/// ```
pub fn t_c17_slot_field() {}

/// C19: a slot map cannot be built from an unsorted vector.
/// ```compile_fail,E0451
/// use slotted_egraphs::*;
/// let m = SlotMap { map: Default::default() };
/// ```
pub fn w_c19_slotmap_literal() {}

/// ```no_run
/// use slotted_egraphs::*;
/// let m = SlotMap::new();
/// ```
pub fn t_c19_slotmap_literal() {}

/// C19: no public API hands out a mutable reference to a key.
/// ```compile_fail,E0599
/// use slotted_egraphs::*;
/// let mut m = SlotMap::new();
/// for (k, v) in m.iter_mut() { *k = *v; }
/// ```
pub fn w_c19_slotmap_keys_mut() {}

/// ```no_run
/// use slotted_egraphs::*;
/// let mut m = SlotMap::new();
/// for v in m.values_mut() { *v = Slot::numeric(0); }
/// ```
pub fn t_c19_slotmap_keys_mut() {}

/// C09 / C05: insertion needs a mutable e-graph; a shared reference cannot insert.
/// ```compile_fail,E0596
/// use slotted_egraphs::*;
/// define_language! { pub enum L { Var(Slot) = "var" } }
/// fn f(eg: &EGraph<L>) { eg.add(L::Var(Slot::numeric(0))); }
/// ```
pub fn w_c09_add_through_shared() {}

/// ```no_run
/// use slotted_egraphs::*;
/// define_language! { pub enum L { Var(Slot) = "var" } }
/// fn f(eg: &mut EGraph<L>) { eg.add(L::Var(Slot::numeric(0))); }
/// ```
pub fn t_c09_add_through_shared() {}

/// C09: lookup works through a shared reference and union does not.
/// ```compile_fail,E0596
/// use slotted_egraphs::*;
/// define_language! { pub enum L { Var(Slot) = "var" } }
/// fn f(eg: &EGraph<L>, a: &AppliedId) { eg.union(a, a); }
/// ```
pub fn w_c09_union_through_shared() {}

/// ```no_run
/// use slotted_egraphs::*;
/// define_language! { pub enum L { Var(Slot) = "var" } }
/// fn f(eg: &EGraph<L>, a: &AppliedId) { let _ = eg.lookup(&L::Var(Slot::numeric(0))); let _ = eg.eq(a, a); }
/// ```
pub fn t_c09_union_through_shared() {}

/// C05: a searcher gets `&EGraph`; it cannot mutate the e-graph while matching.
/// ```compile_fail,E0596
/// use slotted_egraphs::*;
/// define_language! { pub enum L { Var(Slot) = "var" } }
/// let rw: RewriteT<L, (), ()> = RewriteT {
///     searcher: Box::new(|eg| { eg.add(L::Var(Slot::numeric(0))); }),
///     applier: Box::new(|_, _| {}),
/// };
/// ```
pub fn w_c05_searcher_mutates() {}

/// ```no_run
/// use slotted_egraphs::*;
/// define_language! { pub enum L { Var(Slot) = "var" } }
/// let rw: RewriteT<L, (), ()> = RewriteT {
///     searcher: Box::new(|eg| { let _ = eg.lookup(&L::Var(Slot::numeric(0))); }),
///     applier: Box::new(|_, eg| { eg.add(L::Var(Slot::numeric(0))); }),
/// };
/// ```
pub fn t_c05_searcher_mutates() {}

/// C05: the matcher entry point takes the e-graph by shared reference.
/// ```no_run
/// use slotted_egraphs::*;
/// define_language! { pub enum L { Var(Slot) = "var" } }
/// fn f(eg: &EGraph<L>, p: &Pattern<L>) -> Vec<Subst> { ematch_all(eg, p) }
/// ```
pub fn t_c05_ematch_shared() {}

/// C07: a proof object cannot be forged outside the kernel.
#[cfg_attr(feature = "explanations", doc = "```compile_fail,E0451")]
#[cfg_attr(not(feature = "explanations"), doc = "```ignore")]
/// use slotted_egraphs::*;
/// fn forge(eq: Equation, proof: Proof) -> ProvenEqRaw { ProvenEqRaw { eq, proof } }
/// ```
pub fn w_c07_forge_proof() {}

#[cfg_attr(feature = "explanations", doc = "```no_run")]
#[cfg_attr(not(feature = "explanations"), doc = "```ignore")]
/// use slotted_egraphs::*;
/// fn read(p: &ProvenEqRaw) -> Equation { p.equ() }
/// ```
pub fn t_c07_forge_proof() {}

/// C07: the equation of an existing proof cannot be rewritten in place.
#[cfg_attr(feature = "explanations", doc = "```compile_fail,E0616")]
#[cfg_attr(not(feature = "explanations"), doc = "```ignore")]
/// use slotted_egraphs::*;
/// fn tamper(p: &mut ProvenEqRaw, e: Equation) { p.eq = e; }
/// ```
pub fn w_c07_tamper_proof() {}

#[cfg_attr(feature = "explanations", doc = "```no_run")]
#[cfg_attr(not(feature = "explanations"), doc = "```ignore")]
/// use slotted_egraphs::*;
/// fn inspect(p: &ProvenEqRaw) -> &Proof { p.proof() }
/// ```
pub fn t_c07_tamper_proof() {}
